#!/usr/bin/env python3
"""tools/par_seeds.py [N workers] [seed names...]: re-runs stored seeds in parallel, each worker on its own scratch worktree of /repo HEAD
(VERIF_REPO) with its own output directory (VERIF_OUT), so that /repo and /verif/evidence are not touched.  Updates seeded/<name>/meta.json (detected_by)."""
import sys, os, json, subprocess, glob, concurrent.futures, shutil, queue
N = int(sys.argv[1]) if len(sys.argv) > 1 and sys.argv[1].isdigit() else 4
names = [a for a in sys.argv[1:] if not a.isdigit()] or sorted(os.path.basename(d.rstrip('/')) for d in glob.glob('/verif/seeded/*/'))
head = subprocess.check_output(['git', '-C', '/repo', 'rev-parse', 'HEAD'], text=True).strip()
wts = queue.Queue()
for i in range(N):
    wt = '/tmp/ps_wt%d' % i
    subprocess.run(['git', '-C', '/repo', 'worktree', 'remove', '--force', wt], capture_output=True)
    subprocess.check_call(['git', '-C', '/repo', 'worktree', 'add', '--detach', wt, head], stdout=subprocess.DEVNULL, stderr=subprocess.DEVNULL)
    wts.put(wt)

def one(name):
    d = '/verif/seeded/' + name
    meta = json.load(open(d + '/meta.json'))
    prop = meta['property']
    wt = wts.get()
    try:
        subprocess.check_call(['git', '-C', wt, 'checkout', '-q', '--', '.'])
        if subprocess.run(['git', '-C', wt, 'apply', d + '/patch.diff']).returncode != 0:
            return name, 'patch does not apply', None
        out = wt + '_out'
        env = dict(os.environ, VERIF_REPO=wt, VERIF_OUT=out, VERIF_JOBS='4')
        p = subprocess.run(['/verif/bin/check', prop, '--tier', 'quick'], capture_output=True, text=True, env=env)
        subprocess.check_call(['git', '-C', wt, 'checkout', '-q', '--', '.'])
    finally:
        wts.put(wt)
    o = p.stdout
    viol = [l for l in o.splitlines() if l.startswith('VIOLATION')]
    failed = [l for l in o.splitlines() if l.startswith('FAILED obligation')]
    meta['detected_by'] = {'tier': 'quick', 'exit': p.returncode, 'violation_line': viol[0] if viol else None,
                           'failed_obligations': [l[len('FAILED obligation '):] for l in failed][:8],
                           'undecided': [l for l in o.splitlines() if l.startswith('UNDECIDED')][:4]}
    json.dump(meta, open(d + '/meta.json', 'w'), indent=1)
    return name, p.returncode, viol[0] if viol else None

with concurrent.futures.ThreadPoolExecutor(max_workers=N) as ex:
    for name, rc, v in ex.map(one, names):
        print(name, 'exit', rc, (v or '(no violation)')[:150], flush=True)
for i in range(N):
    subprocess.run(['git', '-C', '/repo', 'worktree', 'remove', '--force', '/tmp/ps_wt%d' % i], capture_output=True)
    shutil.rmtree('/tmp/ps_wt%d_out' % i, ignore_errors=True)
subprocess.run(['git', '-C', '/repo', 'worktree', 'prune'])
