#!/bin/bash
# tools/cex.sh <dev-dir> <property> [regex of variables]: compact counterexample for one obligation of the last bin/dev run
d=/verif/.work/dev/$1; shift; p=$1; shift; pat=${1:-.}
cmd=$(grep '^\$ cbmc' $d/log.txt | tail -1 | sed 's/^\$ //; s/--json-ui//')
$cmd --property $p --trace 2>/dev/null | grep -E "^  [A-Za-z_\$0-9.>-]+(\[[0-9l]+\])?=" | grep -E "$pat" | sed 's/ (.*//' | awk '!seen[$0]++' | head -${N:-60}
