#!/bin/bash
# runs every stored seed against its property's quick check; one line per seed (exit, replay reproduced or not)
cd /verif
for d in seeded/*/; do n=$(basename $d); tools/try_seed.py $n 2>&1 | tail -1 | cut -c1-160; done
