#!/usr/bin/env python3
"""tools/try_seed.py <seed-dir-name> [tier]: applies /verif/seeded/<name>/patch.diff to /repo, runs the property's check, undoes the patch,
records the outcome in the seed's meta.json (detected_by)."""
import sys, os, json, subprocess
name = sys.argv[1]; tier = sys.argv[2] if len(sys.argv) > 2 else 'quick'
d = '/verif/seeded/' + name
meta = json.load(open(d + '/meta.json'))
prop = meta['property']
assert subprocess.run(['git', '-C', '/repo', 'status', '--porcelain', '--untracked-files=no'], capture_output=True, text=True).stdout.strip() == '', 'repo not clean'
subprocess.check_call(['git', '-C', '/repo', 'apply', d + '/patch.diff'])
# the evidence file describes runs on /repo as it is; a run on a seeded tree must not leave its record behind
evf = '/verif/evidence/%s.json' % prop
saved = open(evf).read() if os.path.exists(evf) else None
try:
    p = subprocess.run(['/verif/bin/check', prop, '--tier', tier], capture_output=True, text=True)
finally:
    subprocess.check_call(['git', '-C', '/repo', 'checkout', '--', '.'])
    if saved is not None:
        open(evf, 'w').write(saved)
out = p.stdout
failed = [l for l in out.splitlines() if l.startswith('FAILED obligation')]
viol = [l for l in out.splitlines() if l.startswith('VIOLATION')]
meta['detected_by'] = {'tier': tier, 'exit': p.returncode, 'violation_line': viol[0] if viol else None,
                       'failed_obligations': [l[len('FAILED obligation '):] for l in failed][:8],
                       'undecided': [l for l in out.splitlines() if l.startswith('UNDECIDED')][:4]}
json.dump(meta, open(d + '/meta.json', 'w'), indent=1)
print(name, 'exit', p.returncode, viol[0] if viol else '(no violation)', '|', '; '.join(x.split(' :: ')[1] for x in meta['detected_by']['failed_obligations'][:3] if ' :: ' in x))
for l in meta['detected_by']['undecided']: print('   ', l)
