#!/usr/bin/env python3
"""tools/validate_evidence.py : every evidence/<id>.json validates against the schema, carries the level MANIFEST.json claims, and
(for proof level) has discharged == obligations; 'other' level has a non-empty explanation."""
import json, sys, os
sys.path.insert(0, '/opt/veriftools/pyvenv/lib/python3.11/site-packages')
try:
    import jsonschema
except Exception:
    jsonschema = None
V = '/verif'
schema = json.load(open('/root/.vp/EVIDENCE.schema.json'))
man = json.load(open(V + '/MANIFEST.json'))
bad = 0
for c in man['checks']:
    p = c['property_id']
    f = os.path.join(V, c.get('evidence_file', 'evidence/%s.json' % p))
    if not os.path.exists(f):
        print(p, 'NO EVIDENCE'); bad += 1; continue
    e = json.load(open(f))
    msgs = []
    if jsonschema:
        try:
            jsonschema.validate(e, schema)
        except Exception as x:
            msgs.append('schema: ' + str(x).splitlines()[0])
    cat = c['level_claimed']['category']
    if e['level'] != cat:
        msgs.append('level %s but MANIFEST says %s' % (e['level'], cat))
    cov = e['coverage']
    if e['level'] == 'proof' and cov.get('obligations') != cov.get('discharged'):
        msgs.append('discharged %s != obligations %s' % (cov.get('discharged'), cov.get('obligations')))
    if e['level'] == 'proof' and not cov.get('obligations'):
        msgs.append('proof level with 0 obligations')
    if e['level'] == 'other' and not cov.get('explanation', '').strip():
        msgs.append('empty explanation')
    print(p, e['tier'], e['level'], cov.get('obligations'), cov.get('discharged'), 'OK' if not msgs else 'BAD: ' + '; '.join(msgs))
    bad += bool(msgs)
sys.exit(1 if bad else 0)
