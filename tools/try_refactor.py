#!/usr/bin/env python3
"""tools/try_refactor.py <dir-with-A..D.diff> : applies each behaviour-preserving refactoring to /repo, runs the quick check of every
property whose units cut text from a touched file, undoes it.  A harmless change must never produce exit 1 (VIOLATION)."""
import sys, os, json, subprocess, importlib, re, glob
sys.path.insert(0, '/verif')
src = sys.argv[1]
props = [c['property_id'] for c in json.load(open('/verif/MANIFEST.json'))['checks']]
files = {}
for p in props:
    m = importlib.import_module('units.' + p)
    fs = set()
    for u in m.UNITS:
        for c in u.cuts:
            fs.add(c.file)
    if p == 'C20': fs |= {'include/asl/Matrix4.h', 'include/asl/Matrix3.h'}
    if p == 'C15': fs.add('src/SHA1.cpp')
    files[p] = fs
out = {}
for d in sorted(glob.glob(src + '/*.diff')):
    name = os.path.basename(d)[:-5]
    touched = set(re.findall(r'^\+\+\+ b/(\S+)', open(d, errors='replace').read(), re.M))
    assert subprocess.run(['git', '-C', '/repo', 'status', '--porcelain', '--untracked-files=no'], capture_output=True, text=True).stdout.strip() == '', 'repo not clean'
    if subprocess.run(['git', '-C', '/repo', 'apply', d]).returncode != 0:
        print(name, 'does not apply'); continue
    res = {}
    saved = {p: open('/verif/evidence/%s.json' % p).read() for p in props if os.path.exists('/verif/evidence/%s.json' % p)}
    try:
        for p in props:
            if files[p] & touched:
                r = subprocess.run(['/verif/bin/check', p], capture_output=True, text=True)
                res[p] = {'exit': r.returncode, 'lines': [l for l in r.stdout.splitlines() if l.startswith(('VIOLATION', 'UNDECIDED', 'FAILED'))][:4]}
    finally:
        subprocess.check_call(['git', '-C', '/repo', 'checkout', '--', '.'])
        for p, t in saved.items():
            open('/verif/evidence/%s.json' % p, 'w').write(t)
    out[name] = {'touched': sorted(touched), 'results': res}
    print(name, sorted(touched), {p: v['exit'] for p, v in res.items()})
    for p, v in res.items():
        for l in v['lines']: print('    ', p, l[:200])
json.dump(out, open(src + '/refactor_results.json', 'w'), indent=1)
