#!/usr/bin/env python3
"""Regenerates MANIFEST.json from the table below (run by hand after adding a property's units)."""
import json, os
V = os.path.dirname(os.path.dirname(os.path.abspath(__file__)))
props = [json.loads(l)['id'] for l in open(os.path.join(V, 'properties.jsonl'))]

TB = ('Trusted: CBMC 6.11 (goto-cc C front end, goto-instrument --dfcc, SAT back end cadical), the prelude C meaning of asl '
      'types and the extraction rule table (DESIGN 4), libc models/stubs named in the evidence, allocation never fails. ')

CLAIMS = {
 'C01': dict(level='other', design='6 C01',
   text='Contracts on the real bodies of Array::reserve, resize/clear, insert/operator<<, remove, copy constructor, destructor, operator=, free, append(const Array&) (also a.append(a)), dup()/clone(), slice(), one partition pass of quicksort (sort()): abstract view (n, elements) via a ghost index, '
        'element life-cycle counters (constructed once, destroyed once), reference-count protocol, frames and frees. Block capacity (and requested size where it fixes an allocation size) is a constant per variant '
        '(3, 4, 6: crossing the growth steps); n, index, rc, contents and the aliasing choice (argument is an element of the same array) are symbolic. Every unit is therefore a bounded stand-in (bounded by capacity), not a proof for all capacities.',
   note=TB + 'Claimed at level other because every C01 unit is capacity-bounded. Histories: induction over the proved mutators (paper step). Not decided: concat/filter/map templates, String elements, Stack/Queue wrappers beyond resize/remove, all capacities at once. Known finding: growth while the block is shared.',
   technique='CBMC code contracts (DFCC) on extracted template bodies, capacity fixed per variant'),
 'C02': dict(level='other', design='6 C02',
   text='nextPoT proved for all n (bucket index always in range). Map::indexOf, set/operator(), remove, operator== verified as finite-map operations on every strictly sorted map of up to 8 int keys '
        '(sortedness is a quantified hypothesis: constant bound). Map::add: one update per pair of the source, source storage not shared. HashMap and Set operator== by lookup (this <= 3 entries): equal iff same length and every entry found with an equal value. hash(String) / hash(Array<byte>) are free of signed overflow (keys up to 12 bytes); operator[] grows the table before it chooses the bucket; Set::notIn returns a new set. HashMap::Enumerator visits every entry of every bucket once (tables of up to 5 buckets); compare(String, String) is the byte-wise lexicographic order that separates a string from its proper prefixes (keys up to 4 bytes). HashMap::remove, operator[], find/has on a bucket chain of up to 3 colliding nodes: exactly the addressed node is unlinked/appended, all other colliding entries stay reachable, node freed once, length +-1.',
   note=TB + 'Level other: all functional units are bounded (<= 8 keys, chains <= 3). Rehash bucket placement is proved (HashMap_rehash_bin). Not decided: Set algebra, String keys, clone/merge. Histories by induction over the proved operations.',
   technique='CBMC code contracts (DFCC) with constant-bound sortedness / chain shape'),
 'C20': dict(level='proof', design='6 C20',
   text='Algebraic clause only: the expression text of Matrix4/Matrix3 inverse() and det() is parsed on every run; A*adj = adj*A = d*I entrywise (so d != 0 implies M*inverse(M) = I), det() = Leibniz determinant = d, det(AB) = det(A)det(B); each is an SMT query that is unsat on z3 4.8, z3 5.1 and cvc5. solve()/solve_() (both bodies cut, CBMC, BOUNDED to square 1x1..5x5 and over-determined 2x1..5x3 shapes with 1..3 right-hand sides, element values arbitrary): the caller\'s A and b blocks are never written, x comes back in a block of its own with one row per unknown, every element and permutation-vector access is in range, each right-hand side is eliminated against the original coefficients, solve_ recurses at most once.',
   note='Trusted: the 100-line expression parser/VC generator in vf/vcgen.py, z3, cvc5. Floating point treated as real arithmetic. NOT decided: that the x of solve() satisfies A x = b (values are not tracked), least squares optimality, floating residual bounds, quaternion/axis-angle/Euler conversions. The solve unit is bounded, not counted as proved.',
   technique='own VC generator over the extracted expression text + SMT (QF_NRA) on three solvers; CBMC on the extracted solve()/solve_() bodies with matrix storage abstracted to block events (bounded)'),
 'C03': dict(level='proof', design='6 C03',
   text='Contracts (requires/ensures/assigns/frees) on the real bodies of String::resize, append, assign, concat, substring, substr, '
        'operator+=(char), String(const char*,int), copy constructor, String(int), String(Long), lastIndexOf, the retry loops of String::f and String(int n, fmt, ...) over a C99 vsnprintf contract, one turn of the split(sep)/replace(a,b) scanning loops over the strstr contract (pieces tile the text, strict progress for non-empty patterns), trim()/trimmed() on every inline string, operator< as a strict total byte-wise order (+ alloc/init/str/String(cap,n) inlined), '
        'cut from /repo on every run and discharged by CBMC for all strings up to 100000 bytes: representation invariant (length = offset '
        'of NUL, capacity > length), byte-string model via a ghost index, frames, frees. Aliasing variants (source inside the string) are '
        'proved for the inline buffer and bounded by capacity for heap buffers.',
   note=TB + 'Not decided: join, split() on white space, trim on heap strings (same-object memmove of symbolic size), split/replace as whole sequences (the turn units + an induction on paper), search other than lastIndexOf (strstr/strchr are libc contracts), what printf itself formats (only the buffer/length handling of String::f and String(int n, fmt, ...) is decided), float text, '
        'integer value round trip (SAT does not finish on divide/multiply chains; only canonical decimal form and capacity are proved), unsigned/ULong constructors (snprintf).',
   technique='CBMC code contracts (DFCC) on extracted function bodies, ghost-index postconditions'),
 'C04': dict(level='other', design='6 C04',
   text='Var::operator=(const String&) for every scalar/string target and every string up to 12 characters (the 7/8 inline boundary: the 8-byte inline buffer is never overrun, the Var holds exactly the bytes); '
        'Var::operator== on strings for every combination of inline / heap representation (only the text matters, a string never equals a non-string); Var::operator=(const Var&) with the source an element of the target array '
        '(no read of released storage, target equals the entry value, one reference dropped). Var::clone: strings/arrays/objects are detached (dup) before any child is replaced by its clone; Var::copy duplicates a heap string (arrays/objects are shared handles); Var(unsigned) holds its argument for all 2^32 values; Var << x appends through the aliasing-safe Array append; extend copies every defined property (proved).',
   note=TB + 'Level other: all units are bounded (text lengths, 2-element arrays). Containers inside the Var are the C01 Array contracts executed as stubs. Not decided: numeric == lattice, Dic payloads, operator[] auto-vivification, conversions through atof.',
   technique='CBMC code contracts (DFCC) on extracted Var member functions with container contracts as stubs'),
 'C05': dict(level='proof', design='6 C05',
   text='Per-value lemmas between the extracted encoder and decoder code: for EVERY byte 1..255, inside a string value and inside a quoted object key, the characters XdlEncoder::new_string writes are legal strict-JSON string text (RFC 8259 char production) '
        'and the decoder steps turn them back into exactly that byte without leaving the string, rejecting or opening a comment; every JSON two-character escape decodes to its character; '
        'new_number(int/double/float) reserve enough room for every text printf/myitoa can write and record the written length, and the formats chosen carry 9 / 17 significant digits in exact mode; the BOM probe of Json::read / Xdl::read hands the decoder the whole file minus exactly a UTF-8 BOM, for every file size and first bytes.',
   note=TB + 'NOT decided: doubles/floats bit-exactness (a theorem about libc printf/atof), structure placement ([ ] { } , :) for whole trees, XDL identifier keys, file round trip, agreement with an independent parser beyond the string production. snprintf/strtoul are stubs with their ISO C contracts.',
   technique='CBMC full-domain lemmas over extracted encoder emit code + decoder step'),
 'C06': dict(level='proof', design='6 C06',
   text='One step (loop body) of XdlParser::parse proved for EVERY byte and EVERY parser configuration satisfying a representation invariant (context-stack shape, comment markers, state/container consistency, unicode counter): '
        'no stack underflow, indices in range, invariant preserved, at most one push-back per character, container contexts paired with value-list pushes/pops; the constructor establishes the invariant. '
        'Prefix rejection ingredients: open containers decrease only on a closing bracket (one per input character), a string is left only at its quote, and value() returns a value only when nothing is open; an escape returns to the state it was met in; a value is placed into an object only under a pending member name (put() never reads an empty name stack); decode() always feeds the flushing blank. '
        'By induction over the input bytes: total and memory-safe on any byte string, and chunk-independent (the step has no state outside the parser object and neither reads nor moves the input pointer beyond its character: frame condition). Json::decode / Xdl::decode start from the constructor state (new parser, or a kept one completely reset from any earlier state: Json_decode_parser_state).',
   note=TB + 'Containers are ghost models: context stack = 3-entry window + depth with C01 top/pop preconditions, token buffer = 15 characters + length, Var tree = counters. NOT decided: agreement with an independent JSON parser on all RFC 8259 documents, the value tree built by put()/Var, atof, prefix rejection as a separate theorem.',
   technique='CBMC code contract (inductive invariant) on the extracted loop body'),
 'C07': dict(level='proof', design='6 C07',
   text='One step (loop body) of Xml::decode proved for EVERY byte and EVERY configuration satisfying an invariant (element-stack depth vs. parser state): the element stack never underflows (closing more than was opened), '
        'the character-reference scratch buffer suffices for every 32-bit code, the invariant is preserved or the document rejected: by induction total and memory-safe on any byte string. '
        'every node a step adds to an element gets its parent link (both operator<< overloads inlined from their bodies). Escape lemma: for every byte, in text and in both kinds of attribute value, the text XmlCodec::escape writes is decoded back to exactly that byte. '
        'XmlCodec::encode writes, for an element with any number of children, start tag, every child once in order, end tag (<tag/> only without children).',
   note=TB + 'Stack<Xml> is modelled by its depth, Strings by length + first characters, tag comparison abstracted. NOT decided: whitespace dropping / text merging, indented mode, tag/attribute name round trip, Xml handle reference counting.',
   technique='CBMC code contract (inductive invariant) on the extracted loop body + full-domain escape lemma'),
 'C08': dict(level='proof', design='6 C08',
   text='For EVERY Unicode scalar value at once (one symbolic code point): utf32toUtf8 emits exactly the bytes of Unicode table 3-6, utf8toUtf32 returns it, '
        'utf8toUtf16 gives table 3-5, utf16toUtf8 returns the same bytes, code-point iteration yields the value and its length, count() of two values is 2. '
        'For ANY NUL-terminated bytes / 0-terminated code arrays of symbolic length (loop contracts): the four converters, count() and the iteration step stay '
        'inside input and inside the output capacity their call sites give, and terminate. Case: one step of toUpperCase/toLowerCase for every code point stays inside the capacity, the per-pair rule of equalsNocase does not depend on byte length; the whole equalsNocase on strings of up to 2 code points per side (bounded); toUpperCase/toLowerCase as wholes fix the result length to the bytes written; dataw() reserves room for padding, one UTF-16 unit per byte and the terminator for every length.',
   note=TB + 'Not decided: whole-sequence equality (k-th output = decoding of k-th sequence), chars()/fromCodes wrappers (Array), the case mapping tables against the Unicode database, local-charset conversions.',
   technique='CBMC: full-domain harness over all scalar values + code contracts with loop contracts for arbitrary bytes'),
 'C16': dict(level='proof', design='6 C16',
   text='Per scalar type (u16,i16,i32,u32,f32,i64,u64,f64 as bit patterns) and byte order (BIG, LITTLE, NATIVE): swapBytes, StreamBufferReader::read2/4/8, '
        'StreamBuffer/File/Socket operator<<(const T&) and File/Socket operator>>(T&) write/consume exactly sizeof(T) bytes equal to the canonical encoding in that order; '
        'frames show the order setting and the source are untouched (order changes affect only later values). Array writers: length*sizeof(T) bytes, bounded to 3 elements. StreamBufferReader::read(n) reads exactly n bytes (none for 0, the rest for n < 0).',
   note=TB + 'write()/read() are ghost wire stubs (the real ones are Array<byte>::append, fwrite/fread, send/recv). Host little-endian. Strings and File::operator>>(String&) not covered.',
   technique='CBMC code contracts (DFCC) per template instantiation, ghost-index byte specification'),
 'C17': dict(level='proof', design='6 C17',
   text='Only what asl itself computes: one turn of TextFile::readLine for lines of any length across the 255-byte chunks (buffer handed to fgets inside the capacity, indices in range, LF and one preceding CR cut, progress or exit each turn); '
        'one turn of the UTF-16LE / UTF-16BE loops of text() (unit assembly in the file byte order, CR LF folding never shrinks an empty array); the plain branch of text() for every file size and read result; File::close closes once and drops the cached FileInfo; File::put opens for writing (create/truncate) also for an empty array; TextFile << const char* writes the text verbatim (never as a printf format); TextFile::write opens for writing also for the empty text; the UTF-16 to UTF-8 conversion used by text() is exact for every scalar value (C08 unit); the BOM probe of text() starts the text at offset 3 exactly for EF BB BF and at 0 otherwise; the block loop of Directory::copy reports success only after every byte was written (any file size).',
   note=TB + 'fgets/fread are stubs with their ISO C contracts; Strings/Arrays are ghost lengths with the C03/C01 contracts. NOT decided (theorems about the OS or outside the contract language): that written bytes come back from disk, size(), append/reopen histories, lines(), Directory copy/move, files containing NUL bytes.',
   technique='CBMC code contracts on extracted loop bodies with libc/OS calls as contract stubs'),
 'C19': dict(level='proof', design='6 C19',
   text='For EVERY day of years 0001..9999 (one symbolic day number): yearFromTime returns the Gregorian year containing it, the month search and weekday formula of calc() give the unique '
        'year/month/day/weekday, construct() of valid fields is 86400 s times the day number they denote (so fields -> instant -> fields is the identity at day granularity), the floating '
        'macro timeFromYearAsDays equals the integer day count. The weekday statements at the end of calc() in floating point exactly as written (bias, t/86400, floor, % 7 fix-up) for every integer second: days -400..400 in the quick tier (bounded), every day of years 0001..9999 in the thorough tier. ISO parser: every read inside the text for ANY string, fraction loop terminates, numeric zone offsets shift the instant by the stated offset. toString(FULL): millisecond field in 0..999 for every instant; every numeric format prints the year with four digits; parseInt turns 1..9 digits into a number.',
   note=TB + 'Not decided: hour/minute/second extraction in calc() (floating fract), the floating entry floor(t/86400) of yearFromTime except for 1969..1971 (thorough, bounded), formatting (printf), the HTTP-date branch (split/Map), local time, the custom-format constructor.',
   technique='CBMC code contracts (DFCC) over a symbolic day number; loop contract for the parser'),
 'C09': dict(level='proof', design='6 C09',
   text='For ANY request target / URL text / header value (symbolic lengths and positions): every substring() and operator[] argument in the fragment/query/path split of HttpRequest::read and in Url::Url is in range; Url::decode stays inside the text and terminates; '
        'the ".." filter tests and cleans the DECODED path, also when percent-decoding yields NUL bytes; the Range header parts are only indexed below their count; each turn of the readBody read loop reads 1..sizeof(buffer) bytes and either delivers data or returns, and the outer loop ends when the peer closes mid-body; one turn of the header loop ends at the empty line AND at end of stream; parseQuery splits on & and = before it percent-decodes; header names are keyed case-insensitively (capitalized()); the socket read loop under readLine ends when the peer closes; serveFile uses the request path as decoded once.',
   note=TB + 'String/Array/Socket callees are contract stubs: substring precondition (C03), indexOf = first occurrence or -1, contains/replace on the C string (assumed), Socket::read = 1..n bytes or 0/negative after close. NOT decided: Socket::readLine, header name/value storage (Dic), delivered method/headers/body equal to what was sent, file mapping, keep-alive dispatch loop.',
   technique='CBMC code contracts on extracted code regions with callee contracts as stubs'),
 'C10': dict(level='proof', design='6 C10',
   text='Framing arithmetic only: Socket_::read / Socket_::write (blocking) hand the caller\'s buffer to the OS consecutively, each byte exactly once, never beyond its end, and terminate; '
        'HttpMessage::write sends a body of any length up to 10^8 in consecutive blocks of 1..128000 bytes covering it exactly once, each framed as hex-size CRLF data CRLF in chunked mode. writeFile sends exactly the bytes of the range, never more than the announced length. HttpServer::serve compares the Connection option in lower case. Query values: parseQuery splits, replaces + and then percent-decodes (unit shared with C09). Receiving side (units shared with C09): each turn of the body/header loops consumes input or ends; a chunk-size line read is always followed by reading that chunk\'s CRLF (nothing of the message is left in a kept-alive connection).',
   note=TB + 'The exchange property as a whole is NOT decided: end-to-end equality of method/headers/status/body over real sockets, keep-alive, many clients in flight (schedules), file bodies with ranges, readBody/readHeaders text parsing. OS read/send are stubs with their POSIX contracts.',
   technique='CBMC code contracts with loop contracts on extracted bodies, OS calls as contract stubs'),
 'C11': dict(level='proof', design='6 C11',
   text='WebSocket::send frame header proved against an RFC 6455 5.2 specification for EVERY payload length 1..2^31-1, frame type and masking key (7/16/64-bit length forms at exactly 125/126 and 65535/65536, network order). '
        'WebSocket::receive header decoding for ANY bytes from the peer never sizes the buffer with a negative length. One iteration of the receive frame loop for ANY frame bytes: a data frame adds exactly its payload once, control frames add nothing. Word-wise masking loop = per-octet RFC masking (bounded to 13-byte payloads). Handshake ingredients: encodeBase64 and the SHA-1 units of C15 are re-run here; handshake header names are keyed case-insensitively; WebSocketMsg to String/Var keeps the message length (zero bytes included) and fix() never changes it; payload reads go through the C10 socket read loop unit.',
   note=TB + 'StreamBuffer and socket operations are ghost wire stubs whose byte order behaviour is the contract proved in C16. Not decided: ordering across messages / ping interleaving over real sockets (schedules), the handshake exchange itself (header text), unmask loop of receive (same text shape as send).',
   technique='CBMC code contracts on extracted code regions with ghost wire stubs'),
 'C15': dict(level='proof', design='6 C15',
   text='encodeBase64 proved against an RFC 4648 specification macro for every input up to 4096 bytes (10^6 in the thorough tier) with a loop contract. decodeBase64: every RFC group of all 2^24 byte triples (both padding forms) decodes to its bytes; '
        'one loop step for ANY character and loop state (space/tab/LF/CR skipped, alphabet characters add their value in order, progress); result length >= 0 for any padding count. decodeHex for text of any length (odd too) stays inside its result. '
        'Url::decode(Url::encode(c)) = c for every byte in both modes (whole bodies on a one-character string); parseQuery splits before it decodes, Url::params encodes keys and values in component mode. SHA-1: round macros = FIPS 180-4 f_t/K_t/schedule/big-endian load for all t and all states; '
        'SHA1::end appends 0x80, minimal zero padding and the 64-bit big-endian length for every message length; SHA1::update cuts any message into the right 64-byte blocks (buffer offsets 0, 3, 56, 63: bounded variants); the 80-step composition of transform() is a syntactic pattern check, not solver-discharged.',
   note=TB + 'NOT decided: decodeBase64 as one loop-contract unit (registered units cover its group decoding, loop step and tail separately; the whole-function unit does not finish), encodeHex text (snprintf), '
        'Url::params/parseQuery as Dic-level inverses, sampled large sizes.',
   technique='CBMC code contracts (DFCC) with loop contracts on extracted function bodies'),
}
NA = {
 'C12': 'quantifies over thread interleavings; CBMC contract instrumentation (--dfcc) is sequential, and lost-update / destroyed-exactly-once-under-every-interleaving are not pre/postconditions of one call (DESIGN 7)',
 'C13': 'exactly-once execution and join visibility depend on the scheduler and pthreads; no function contract over Thread::start/join/Semaphore can state them (DESIGN 7)',
 'C14': 'accept loop, self-deleting handler threads and stop(true) are schedule and OS (socket/select) properties, outside function contracts (DESIGN 7)',
 'C18': 'persistence across process runs through the file system via Dic<Dic<String>>/Array<String> code; needs finite maps/sequences of strings that CBMC contracts cannot express without a hand-written model (DESIGN 7)',
}
checks = []
for p in props:
    if p in CLAIMS:
        c = CLAIMS[p]
        checks.append({'property_id': p, 'quick_cmd': 'bin/check %s --tier quick' % p, 'thorough_cmd': 'bin/check %s --tier thorough' % p,
                       'evidence_file': '/verif/evidence/%s.json' % p, 'replay_cmd_template': 'bin/check %s --replay {path}' % p,
                       'engine': 'cbmc-contracts',
                       'level_claimed': {'category': c['level'], 'text': c['text'], 'design_ref': c['design']},
                       'level_note': c['note'], 'technique': c['technique']})
na = [{'property_id': p, 'reason': NA.get(p, 'not reached yet (units under construction; see DESIGN 10)')} for p in props if p not in CLAIMS]
m = {'version': 1,
     'setup_cmd': 'python3 -c "import sys; sys.path.insert(0, \'/verif\'); import vf.core, vf.runner" && cbmc --version && goto-instrument --version',
     'hooks': {'guard': 'ASL_VERIF', 'enable': 'none needed: contracts live in /verif and are attached to function bodies cut from /repo on every run (no hooks in /repo)',
               'baseline_off_cmd': 'cmake --build /repo/_build -j8 && ctest --test-dir /repo/_build -j8 --timeout 900', 'source_commits': [], 'add_only': True},
     'engines': [{'name': 'cbmc-contracts', 'path': '/verif/bin/check', 'serves_properties': sorted(CLAIMS),
                  'kind_free_text': 'deductive contract verification: function bodies cut from /repo -> C -> goto-instrument --dfcc --enforce-contract -> cbmc'}],
     'checks': checks, 'not_applicable': na,
     'notes': 'exit 0 pass / 1 VIOLATION / 2 undecided (timeouts, extraction misses: never reported as violations). fix: commits in /repo: see known_findings.json.'}
json.dump(m, open(os.path.join(V, 'MANIFEST.json'), 'w'), indent=1)
print('claimed', sorted(CLAIMS), 'n/a', len(na))
