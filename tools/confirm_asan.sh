#!/bin/bash
# tools/confirm_asan.sh <seed-name> <diff> <prop> <driver-rel> <args...>: confirms a seed that needs a sanitizer to manifest, with the replay driver:
# driver fails with the change, passes on the clean tree; then stores it under /verif/seeded/<seed-name>/
name=$1; diff=$2; prop=$3; drv=$4; shift 4
cd /repo; git apply $diff || exit 1
a=$(cd /verif && python3 - "$drv" "$@" <<'PY'
import sys; sys.path.insert(0,'/verif')
from vf import replay
import shutil; shutil.rmtree('/verif/.work/nt/native', ignore_errors=True)
r=replay.run_native(sys.argv[1], sys.argv[2:], '/verif/.work/nt'); print(int(r['reproduced']))
PY
)
tests=$( (cmake --build /repo/_build -j16 >/dev/null 2>&1 && ctest --test-dir /repo/_build -j8 --timeout 900 2>&1 | grep -c "100% tests passed") )
git -C /repo checkout -- .
b=$(cd /verif && python3 - "$drv" "$@" <<'PY'
import sys; sys.path.insert(0,'/verif')
from vf import replay
import shutil; shutil.rmtree('/verif/.work/nt/native', ignore_errors=True)
r=replay.run_native(sys.argv[1], sys.argv[2:], '/verif/.work/nt'); print(int(r['reproduced']))
PY
)
cmake --build /repo/_build -j16 >/dev/null 2>&1
echo "$name: with_change_reproduced=$a clean_reproduced=$b tests_pass_with_change=$tests"
if [ "$a" = "1" ] && [ "$b" = "0" ] && [ "$tests" = "1" ]; then
  mkdir -p /verif/seeded/$name; cp $diff /verif/seeded/$name/patch.diff
  python3 - "$name" "$prop" "$drv" "$*" <<'PY'
import json,sys
name,prop,drv,args=sys.argv[1:5]
json.dump({'property':prop,'seed':name.split('-')[1],'needs':'a sanitizer build to manifest','confirmed':{'tests':'28/28 with the change','demo':'/verif/replay/%s %s (ASan/UBSan) fails with the change and passes on the clean tree' % (drv,args)},'detected_by':None},open('/verif/seeded/%s/meta.json'%name,'w'),indent=1)
PY
fi
