#!/bin/bash
# runs every claimed property's quick check sequentially; prints one line per property
cd /verif
for p in $(python3 -c "import json; print(' '.join(c['property_id'] for c in json.load(open('MANIFEST.json'))['checks']))"); do
  s=$(date +%s); out=$(bin/check $p --tier ${1:-quick} 2>&1); rc=$?; e=$(( $(date +%s) - s ))
  echo "$p rc=$rc ${e}s $(echo "$out" | grep -E '^(OK|VIOLATION|UNDECIDED)' | head -2 | tr '\n' ' ')"
done
