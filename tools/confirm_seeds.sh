#!/bin/bash
# usage: confirm_seeds.sh <prop> ...   confirms sub-agent seeds in a scratch worktree of /repo HEAD and stores them under /verif/seeded/
# For each /tmp/seed_out/<prop>/{A,B}.diff: applies, builds, runs the unedited test suite (must pass), builds the demo against the
# changed tree (must fail), reverts, rebuilds, runs the demo again (must pass).
W=/tmp/confirm_wt
SRC=${SEED_SRC:-/tmp/seed_out}   # where the sub-agent outputs are;  SEED_RENAME='A:C B:D' stores A.diff as <P>-C ...
if [ ! -d $W ]; then git -C /repo worktree add -f $W HEAD >/dev/null 2>&1; cmake -G Ninja -B $W/_build -S $W -DASL_TESTS=ON -DCMAKE_BUILD_TYPE=RelWithDebInfo >/dev/null; fi
git -C $W checkout -q --detach $(git -C /repo rev-parse HEAD); git -C $W checkout -- .
for P in "$@"; do for X in A B; do
  D=$SRC/$P; [ -f $D/$X.diff ] || continue
  Y=$X; for m in $SEED_RENAME; do [ "${m%%:*}" = "$X" ] && Y=${m##*:}; done
  out=/verif/seeded/$P-$Y; mkdir -p $out
  git -C $W checkout -- .; 
  if ! git -C $W apply $D/$X.diff 2>$out/apply.err; then echo "$P-$Y: patch does not apply"; rm -rf $out; continue; fi
  cmake --build $W/_build -j8 >$out/build.log 2>&1 || { echo "$P-$Y: build failed"; git -C $W checkout -- .; continue; }
  ctest --test-dir $W/_build -j8 --timeout 900 >$out/ctest.log 2>&1; t=$?
  demo=$D/demo_$X.cpp
  build="g++ -std=c++11 -g -O1 -DASL_STATIC -I$W/include $demo $W/_build/lib/libasls.a -lpthread -ldl -o /tmp/confirm_demo"
  $build >$out/demo_build.log 2>&1; timeout 120 /tmp/confirm_demo >$out/demo_with_change.log 2>&1; d1=$?
  git -C $W checkout -- .; cmake --build $W/_build -j8 >>$out/build.log 2>&1
  $build >>$out/demo_build.log 2>&1; timeout 120 /tmp/confirm_demo >$out/demo_clean.log 2>&1; d2=$?
  echo "$P-$Y: tests_rc=$t demo_with_change_rc=$d1 demo_clean_rc=$d2"
  if [ $t -eq 0 ] && [ $d1 -ne 0 ] && [ $d2 -eq 0 ]; then
    cp $D/$X.diff $out/patch.diff; cp $demo $out/demo.cpp
    python3 - "$P" "$X" "$out" "$build" <<'PY'
import json,sys
P,X,out,build=sys.argv[1:5]
import os
meta=json.load(open(os.environ.get('SEED_SRC','/tmp/seed_out')+'/%s/meta.json'%P)).get(X,{})
json.dump({'property':P,'seed':os.path.basename(out).split('-')[1],'what':meta.get('what'),'function':meta.get('function'),'files':meta.get('files'),'needs':meta.get('needs'),
 'confirmed':{'worktree':'scratch worktree of /repo HEAD (removed afterwards)','tests':'ctest: 28/28 pass with the change','demo_with_change':'non-zero exit','demo_clean':'exit 0',
 'demo_build':build.replace('/tmp/confirm_wt','<worktree>')},'detected_by':None},open(out+'/meta.json','w'),indent=1)
PY
    rm -f $out/build.log $out/ctest.log $out/demo_build.log $out/apply.err
  else echo "  -> NOT confirmed, dropped"; rm -rf $out; fi
done; done
git -C $W checkout -- .
