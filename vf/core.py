"""Core of the contract-verification framework.

extract (cut function bodies from /repo's working tree)  ->  generate C  ->  goto-cc  ->
goto-instrument --dfcc (contract enforcement)  ->  cbmc  ->  per-obligation table.

Nothing in here knows about a particular property; units live in units/Cxx.py.
"""
import re, os, sys, json, subprocess, hashlib, time, shutil, signal

REPO = os.environ.get('VERIF_REPO', '/repo')
VERIF = os.path.dirname(os.path.dirname(os.path.abspath(__file__)))
MEM_KB = int(os.environ.get('VERIF_MEM_KB', str(12 * 1024 * 1024)))


class Undecided(Exception):
    """Raised for anything that prevents a verdict: locator/anchor/rule miss, tool error, timeout."""


# ------------------------------------------------------------------------------------------------
# source scanning helpers

_file_cache = {}


def read_repo(rel):
    p = os.path.join(REPO, rel)
    if p not in _file_cache:
        try:
            with open(p, encoding='utf-8', errors='surrogateescape') as f:
                _file_cache[p] = f.read()
        except OSError as e:
            raise Undecided('cannot read %s: %s' % (rel, e))
    return _file_cache[p]


def _skip_noncode(text, i):
    """If text[i] starts a comment / string / char literal return index after it, else i."""
    c = text[i]
    if c == '/' and i + 1 < len(text):
        if text[i + 1] == '/':
            j = text.find('\n', i)
            return len(text) if j < 0 else j
        if text[i + 1] == '*':
            j = text.find('*/', i + 2)
            return len(text) if j < 0 else j + 2
    if c == '"' or c == "'":
        j = i + 1
        while j < len(text):
            if text[j] == '\\':
                j += 2
                continue
            if text[j] == c:
                return j + 1
            if text[j] == '\n' and c == "'":
                return j
            j += 1
        return len(text)
    return i


def match_close(text, i, op='{', cl='}'):
    """text[i] == op; return index just after the matching cl."""
    assert text[i] == op, (text[i:i + 20], op)
    depth = 0
    j = i
    n = len(text)
    while j < n:
        k = _skip_noncode(text, j)
        if k != j:
            j = k
            continue
        c = text[j]
        if c == op:
            depth += 1
        elif c == cl:
            depth -= 1
            if depth == 0:
                return j + 1
        j += 1
    raise Undecided('unbalanced %s%s' % (op, cl))


def find_code(text, ch, i):
    """index of first occurrence of ch at or after i that is not inside comment/string."""
    j = i
    n = len(text)
    while j < n:
        k = _skip_noncode(text, j)
        if k != j:
            j = k
            continue
        if text[j] == ch:
            return j
        j += 1
    return -1


def strip_comments(text):
    out = []
    j = 0
    n = len(text)
    while j < n:
        c = text[j]
        if c == '/' and j + 1 < n and text[j + 1] in '/*':
            k = _skip_noncode(text, j)
            out.append(' ')
            j = k
            continue
        if c in '"\'':
            k = _skip_noncode(text, j)
            out.append(text[j:k])
            j = k
            continue
        out.append(c)
        j += 1
    return ''.join(out)


# ------------------------------------------------------------------------------------------------
# rules

def member_rules(fields, selfname='self'):
    """bare member identifiers -> self->member (not after . -> or inside identifiers)"""
    return [(r'(?<![\w.>])%s\b' % re.escape(f), '%s->%s' % (selfname, f), None) for f in fields]


def method_rules(methods, selfname='self'):
    """methods: {cxx_name: c_name}; rewrites bare calls, obj.calls and ptr->calls."""
    rs = []
    for m, cname in methods.items():
        e = re.escape(m)
        rs += [
            (r'(\b[A-Za-z_]\w*)\.%s\(\s*\)' % e, r'%s(&\1)' % cname, None),
            (r'(\b[A-Za-z_]\w*)\.%s\(' % e, r'%s(&\1, ' % cname, None),
            (r'(\b[A-Za-z_]\w*)->%s\(\s*\)' % e, r'%s(\1)' % cname, None),
            (r'(\b[A-Za-z_]\w*)->%s\(' % e, r'%s(\1, ' % cname, None),
            (r'(?<![\w.>:])%s\(\s*\)' % e, '%s(%s)' % (cname, selfname), None),
            (r'(?<![\w.>:])%s\((?!\s*%s\s*[,)])' % (e, selfname), '%s(%s, ' % (cname, selfname), None),
        ]
    return rs


def while_decl_rule(text):
    """C++ 'while (T c = expr)' -> C 'T c; while ((c = expr))' (declaration in a condition)"""
    n = 0
    while True:
        m = re.search(r'\bwhile\s*\(\s*(int|wchar_t|char|unsigned|byte)\s+(\w+)\s*=', text)
        if not m:
            return text, n
        p = text.index('(', m.start())
        pe = match_close(text, p, '(', ')')
        cond = text[m.end():pe - 1]
        text = text[:m.start()] + '%s %s; while ((%s =%s))' % (m.group(1), m.group(2), m.group(2), cond) + text[pe:]
        n += 1


COMMON_RULES = [
    while_decl_rule,
    (r'(?<![\w:])::(?=[a-z_]\w*\()', '', None),            # ::free( -> free(
    (r'\bstatic const\b', 'const', None),                  # R5
    (r'\bASL_BAD_ALLOC\(\)', '__CPROVER_assume(0)', None),  # R8
    (r'\bbyte\(', '(byte)(', None),                        # R4 functional casts
    (r'(?<![\w>.])int\((?!\*)', '(int)(', None),
    (r'(?<![\w>.])unsigned\((?!\*)', '(unsigned)(', None),
    (r'(?<![\w>.])char\((?!\*)', '(char)(', None),
    (r'(?<![\w>.])Long\((?!\*)', '(Long)(', None),
    (r'(?<![\w>.])ULong\((?!\*)', '(ULong)(', None),
    (r'(?<![\w>.])double\((?!\*)', '(double)(', None),
    (r'(?<![\w>.])float\((?!\*)', '(float)(', None),
    (r'(?<![\w>.])size_t\((?!\*)', '(size_t)(', None),
    (r'(?<![\w>.])wchar_t\((?!\*)', '(wchar_t)(', None),
    (r'\bNULL\b', '((void*)0)', None),
    (r'(?<![\w.>])this\b', 'self', None),                  # R2
]


def apply_rules(text, rules, what):
    fired = []
    for rule in rules:
        if callable(rule):
            text, n = rule(text)
            if n:
                fired.append([rule.__name__, n])
            elif getattr(rule, 'must_fire', False):
                # a structural rewrite the unit's contract depends on (e.g. "one turn of this for loop"): if the shape is gone the unit no longer means what it says
                raise Undecided('structural rule %s did not apply in %s' % (rule.__name__, what))
            continue
        rx, rep, count = rule
        text, n = re.subn(rx, rep, text, flags=re.S)
        if count is not None:
            ok = (n >= 1) if count == '+' else (n == count)
            if not ok:
                raise Undecided('rule %r fired %d times in %s, expected %s' % (rx, n, what, count))
        if n:
            fired.append([rx, n])
    return text, fired


# ------------------------------------------------------------------------------------------------
# cuts

class Cut:
    """One piece of /repo text.
    kind: body    -> '{...}' following the locator match
          define  -> the #define line(s) (with continuations) starting at the match
          stmt    -> from the match start to the next ';' at brace depth 0
          expr    -> regex group 1 of the locator
    loops: list of (anchor_regex, nth, contract_text): contract_text is inserted after the loop header
           of the nth (0-based) match of anchor_regex in the cut text.
    """

    def __init__(self, name, file, locator, kind='body', rules=(), loops=(), common=True, nth=0,
                 count=1, members=(), methods=None, post=()):
        self.name, self.file, self.locator, self.kind = name, file, locator, kind
        self.rules = list(rules)
        if members:
            self.rules += member_rules(members)
        if methods:
            self.rules += method_rules(methods)
        self.post = list(post)
        self.loops, self.common, self.nth, self.count = list(loops), common, nth, count
        self.sha = None
        self.fired = []

    def raw(self):
        src = read_repo(self.file)
        ms = list(re.finditer(self.locator, src, flags=re.M))
        if len(ms) != self.count:
            raise Undecided('locator %r matches %d places in %s (expected %d)' %
                            (self.locator, len(ms), self.file, self.count))
        m = ms[self.nth]
        if self.kind == 'body':
            i = find_code(src, '{', m.end())
            semi = find_code(src, ';', m.end())
            if i < 0 or (0 <= semi < i):
                raise Undecided('no body after locator %r in %s' % (self.locator, self.file))
            return src[i:match_close(src, i)]
        if self.kind == 'define':
            i = m.start()
            j = i
            while True:
                k = src.find('\n', j)
                if k < 0:
                    k = len(src)
                if src[k - 1:k] == '\\' or src[k - 2:k] == '\\\r':
                    j = k + 1
                    continue
                return src[i:k]
        if self.kind == 'stmt':
            i = m.start()
            j = i
            depth = 0
            while j < len(src):
                k = _skip_noncode(src, j)
                if k != j:
                    j = k
                    continue
                if src[j] == '{':
                    depth += 1
                elif src[j] == '}':
                    depth -= 1
                elif src[j] == ';' and depth == 0:
                    return src[i:j + 1]
                j += 1
            raise Undecided('no end of statement after %r' % self.locator)
        if self.kind == 'expr':
            return m.group(1)
        raise ValueError(self.kind)

    def text(self):
        raw = self.raw()
        self.sha = hashlib.sha256(raw.encode('utf-8', 'surrogateescape')).hexdigest()[:16]
        t = strip_comments(raw)
        what = '%s(%s)' % (self.name, self.file)
        rules = self.rules + (COMMON_RULES if self.common else []) + self.post
        t, self.fired = apply_rules(t, rules, what)
        # inject from the last loop to the first so that earlier offsets stay valid for nth counting
        for lp in self.loops:
            anchor, nth, contract = lp[0], lp[1], lp[2]
            t = inject_loop_contract(t, anchor, nth, contract, what, lp[3] if len(lp) > 3 else ())
        return t


def stmt_end(text, j):
    """index just after the C statement starting at text[j] (block, if/else, loops, or simple statement)"""
    while text[j].isspace():
        j += 1
    if text[j] == '{':
        return match_close(text, j)
    m = re.match(r'(if|while|for|switch)\b', text[j:])
    if m:
        p = find_code(text, '(', j)
        e = stmt_end(text, match_close(text, p, '(', ')'))
        if m.group(1) == 'if':
            m2 = re.match(r'\s*else\b', text[e:])
            if m2:
                e = stmt_end(text, e + m2.end())
        return e
    if re.match(r'do\b', text[j:]):
        e = stmt_end(text, j + 2)
        p = find_code(text, '(', e)
        return find_code(text, ';', match_close(text, p, '(', ')')) + 1
    k = j
    depth = 0
    while not (text[k] == ';' and depth == 0):
        if text[k] in '({':
            depth += 1
        elif text[k] in ')}':
            depth -= 1
        k += 1
    return k + 1


def inject_loop_contract(text, anchor, nth, contract, what, ptr_anchors=()):
    """Insert a CBMC loop contract after the header of the nth loop matching `anchor`.

    ptr_anchors: [(ptr, expr)].  A pointer that the loop assigns is havocked by the loop-contract
    instrumentation; a write through a havocked pointer makes CBMC case-split over every object
    (measured: ~3M SAT variables per write).  For each (ptr, expr) the invariant `ptr == expr` is added
    and, at the start of the loop body, `assert(ptr == expr); ptr = expr;` - the assertion proves the
    assignment is a no-op, the assignment gives CBMC's points-to analysis the base object back.
    """
    ms = list(re.finditer(anchor, text))
    if len(ms) <= nth:
        raise Undecided('loop anchor %r #%d not found in %s' % (anchor, nth, what))
    m = ms[nth]
    kw = re.match(r'\s*(for|while|do)\b', text[m.start():])
    if not kw:
        raise Undecided('loop anchor %r does not start at a loop keyword in %s' % (anchor, what))
    inv = ''.join('  __CPROVER_loop_invariant(%s == %s)\n' % (p, e) for p, e in ptr_anchors)
    ghost = ''.join(' __CPROVER_assert(%s == %s, "anchor %s"); %s = %s;' % (p, e, p, p, e) for p, e in ptr_anchors)
    # loop invariants must come before decreases
    if '__CPROVER_decreases' in contract:
        i = contract.index('__CPROVER_decreases')
        contract = contract[:i] + inv + contract[i:]
    else:
        contract = contract + inv
    if kw.group(1) == 'do':
        b = find_code(text, '{', m.start())
        e = match_close(text, b)
        p = find_code(text, '(', e)
        pe = match_close(text, p, '(', ')')
        text = text[:pe] + '\n' + contract + '\n' + text[pe:]
        return text[:b + 1] + ghost + text[b + 1:]
    p = find_code(text, '(', m.start())
    pe = match_close(text, p, '(', ')')
    if ghost:
        j = pe
        while text[j].isspace():
            j += 1
        if text[j] == '{':
            text = text[:j + 1] + ghost + text[j + 1:]
        else:
            k = stmt_end(text, j) - 1
            text = text[:j] + '{' + ghost + ' ' + text[j:k + 1] + '}' + text[k + 1:]
    return text[:pe] + '\n' + contract + '\n' + text[pe:]


# ------------------------------------------------------------------------------------------------
# units

class Unit:
    def __init__(self, name, prop, text, cuts=(), entry=None, harness='vf_harness', kind='proof',
                 bound=None, variants=None, replace=(), loop_contracts=None, flags=(), unwind=None,
                 timeout=300, solver='cadical', floor=1, expect=(), tier='quick', planted=(),
                 trusted=(), assumes=(), replay=None, checks=None, desc='', objbits=None,
                 functions=None, nondet_static=False, extra_instr=(), variant_flags=None, variant_kind=None):
        self.name, self.prop, self.text, self.cuts = name, prop, text, list(cuts)
        self.entry, self.harness, self.kind, self.bound = entry, harness, kind, bound
        self.variants = variants or {'': []}
        self.replace = list(replace)
        self.flags, self.unwind, self.timeout, self.solver = list(flags), unwind, timeout, solver
        self.floor, self.expect, self.tier = floor, list(expect), tier
        self.planted, self.trusted, self.assumes = list(planted), list(trusted), list(assumes)
        self.replay, self.desc, self.objbits = replay, desc, objbits
        self.checks = checks
        self.loop_contracts = loop_contracts
        self.functions = functions or ([entry] if entry else [])
        self.extra_instr = list(extra_instr)
        self.variant_flags = variant_flags or {}
        self.variant_kind = variant_kind or {}

    def generate(self, edit=None):
        """returns C text.  edit: optional (regex, repl) applied to the *extracted* text (planted breaks)."""
        t = self.text
        used_loops = False
        for c in self.cuts:
            body = c.text()
            if c.loops:
                used_loops = True
            if edit and edit[0] == c.name:
                body, n = re.subn(edit[1], edit[2], body, count=1)
                if n != 1:
                    raise Undecided('planted edit %r did not apply to %s' % (edit[1], c.name))
            key = '@@%s@@' % c.name
            if key not in t:
                raise Undecided('placeholder %s missing in unit %s' % (key, self.name))
            t = t.replace(key, body)
        left = re.findall(r'@@\w+@@', t)
        if left:
            raise Undecided('unfilled placeholders %s in unit %s' % (left, self.name))
        if self.loop_contracts is None:
            self.loop_contracts = used_loops or ('__CPROVER_loop_invariant' in t)
        return t


DEFAULT_UNWIND = 100
DEFAULT_CHECKS = ['--bounds-check', '--pointer-check', '--pointer-overflow-check', '--div-by-zero-check',
                  '--signed-overflow-check', '--undefined-shift-check', '--pointer-primitive-check']


def _run(cmd, timeout, cwd, log):
    """run a tool under ulimit -v and a wall timeout; returns (rc, stdout)."""
    t0 = time.time()
    def pre():
        import resource
        resource.setrlimit(resource.RLIMIT_AS, (MEM_KB * 1024, MEM_KB * 1024))
        os.setsid()
    with open(log, 'ab') as lf:
        lf.write(('\n$ ' + ' '.join(cmd) + '\n').encode())
    try:
        p = subprocess.Popen(cmd, cwd=cwd, stdout=subprocess.PIPE, stderr=subprocess.STDOUT, preexec_fn=pre)
        try:
            out, _ = p.communicate(timeout=timeout)
        except subprocess.TimeoutExpired:
            try:
                os.killpg(p.pid, signal.SIGKILL)
            except OSError:
                pass
            p.wait()
            with open(log, 'ab') as lf:
                lf.write(b'TIMEOUT\n')
            return 'timeout', '', time.time() - t0
    except OSError as e:
        raise Undecided('cannot run %s: %s' % (cmd[0], e))
    with open(log, 'ab') as lf:
        lf.write(out[-200000:])
    return p.returncode, out.decode('utf-8', 'replace'), time.time() - t0


CANARY_DESC = 'vf canary (must fail)'


def obligation_class(name):
    # e.g. encodeBase64.postcondition.1 -> postcondition ; f.loop_invariant_step.2 ; f.assigns.3
    parts = name.split('.')
    if len(parts) >= 3:
        return parts[-2]
    if len(parts) == 2:
        return parts[0] if parts[1].isdigit() else parts[1]
    return name


class Result:
    def __init__(self, unit, variant):
        self.unit, self.variant = unit, variant
        self.obligations = []   # dicts: id, cls, desc, status, function
        self.status = None      # 'pass' | 'fail' | 'undecided'
        self.reason = ''
        self.wall = 0.0
        self.solver_s = 0.0
        self.cfile = None
        self.gb = None
        self.cmds = []
        self.canary = None
        self.log = None
        self.cuts = []

    @property
    def label(self):
        return self.unit.name + ('[%s]' % self.variant if self.variant else '')

    def failed(self):
        return [o for o in self.obligations if o['status'] != 'SUCCESS']


def run_unit(unit, variant, workdir, edit=None, trace_prop=None, extra_defs=()):
    """Generate, compile, instrument, check.  Returns Result."""
    r = Result(unit, variant)
    t0 = time.time()
    tag = re.sub(r'\W+', '_', unit.name + ('.' + variant if variant else '') + ('.edit' + hashlib.md5(repr(edit).encode()).hexdigest()[:6] if edit else '') +
                 ('.trace' if trace_prop else ''))
    d = os.path.join(workdir, tag)
    os.makedirs(d, exist_ok=True)
    r.log = os.path.join(d, 'log.txt')
    try:
        ctext = unit.generate(edit)
        r.cuts = [{'name': c.name, 'file': c.file, 'sha256_16': c.sha, 'rules_fired': c.fired} for c in unit.cuts]
        cfile = os.path.join(d, 'unit.c')
        with open(cfile, 'w', encoding='utf-8', errors='surrogateescape') as f:
            f.write(ctext)
        r.cfile = cfile
        defs = list(unit.variants[variant]) + list(extra_defs)
        a, b = os.path.join(d, 'a.gb'), os.path.join(d, 'b.gb')
        cmd = ['goto-cc', '-I', VERIF, '-I', os.path.join(VERIF, 'prelude'), '-I', os.path.join(VERIF, 'spec'),
               '-DVF_CBMC'] + defs + ['--function', unit.harness, cfile, '-o', a]
        r.cmds.append(' '.join(cmd))
        rc, out, _ = _run(cmd, 120, d, r.log)
        if rc != 0:
            raise Undecided('goto-cc failed: ' + out.strip().splitlines()[-1] if out.strip() else 'goto-cc failed')
        if unit.entry:
            cmd = ['goto-instrument', '--dfcc', unit.harness, '--enforce-contract', unit.entry]
            for g in unit.replace:
                cmd += ['--replace-call-with-contract', g]
            if unit.loop_contracts:
                cmd += ['--apply-loop-contracts']
            cmd += unit.extra_instr + [a, b]
            r.cmds.append(' '.join(cmd))
            rc, out, _ = _run(cmd, 300, d, r.log)
            if rc != 0:
                tail = [l for l in out.strip().splitlines() if l.strip()][-3:]
                raise Undecided('goto-instrument failed: ' + ' | '.join(tail))
        else:
            if unit.loop_contracts:
                cmd = ['goto-instrument', '--apply-loop-contracts'] + unit.extra_instr + [a, b]
                r.cmds.append(' '.join(cmd))
                rc, out, _ = _run(cmd, 300, d, r.log)
                if rc != 0:
                    tail = [l for l in out.strip().splitlines() if l.strip()][-3:]
                    raise Undecided('goto-instrument failed: ' + ' | '.join(tail))
            else:
                b = a
        r.gb = b
        checks = unit.checks if unit.checks is not None else DEFAULT_CHECKS
        cmd = ['cbmc', b] + checks + list(unit.flags) + list(unit.variant_flags.get(variant, []))
        if unit.unwind:
            cmd += ['--unwind', str(unit.unwind), '--unwinding-assertions']
        elif '--unwind' not in cmd:
            # no unit leaves loops unbounded: a loop that appears in a function which had none (or beside the ones under loop contracts) is unwound up to
            # DEFAULT_UNWIND with unwinding assertions instead of exhausting memory; constant-bound loops shorter than that are unaffected
            cmd += ['--unwind', str(DEFAULT_UNWIND), '--unwinding-assertions']
        if unit.objbits:
            cmd += ['--object-bits', str(unit.objbits)]
        if unit.solver and unit.solver not in ('minisat',):
            if unit.solver in ('cadical',):
                cmd += ['--sat-solver', 'cadical']
            elif unit.solver == 'kissat':
                cmd += ['--external-sat-solver', 'kissat']
            elif unit.solver in ('z3', 'cvc5'):
                cmd += ['--' + unit.solver]
        if trace_prop:
            cmd += ['--property', trace_prop, '--trace']
        cmd += ['--json-ui']
        r.cmds.append(' '.join(cmd))
        rc, out, dt = _run(cmd, unit.timeout, d, r.log)
        r.solver_s = dt
        if rc == 'timeout':
            raise Undecided('cbmc timeout after %ds' % unit.timeout)
        parse_cbmc(out, r, rc)
        if trace_prop:
            r.raw = out
    except Undecided as e:
        r.status = 'undecided'
        r.reason = str(e)
    r.wall = time.time() - t0
    return r


def parse_cbmc(out, r, rc):
    try:
        i = out.index('[')
        data = json.loads(out[i:])
    except Exception:
        raise Undecided('cbmc output not JSON (rc=%s): %s' % (rc, out[-300:].replace('\n', ' ')))
    results = None
    msgs = []
    for item in data:
        if 'result' in item:
            results = item['result']
        if 'messageText' in item:
            msgs.append(item['messageText'])
        if 'cProverStatus' in item:
            r.cprover_status = item['cProverStatus']
    blob = '\n'.join(msgs)
    if re.search(r'ignoring (forall|exists|quantif)', blob):
        raise Undecided('solver ignored a quantifier')
    if results is None:
        err = [m for m in msgs if 'rror' in m or 'nvariant' in m or 'out of memory' in m.lower()]
        raise Undecided('cbmc produced no result table (rc=%s): %s' % (rc, ' | '.join(err[-3:] or msgs[-3:])))
    for p in results:
        name = p.get('property', '')
        desc = p.get('description', '')
        st = p.get('status', 'UNKNOWN')
        o = {'id': name, 'cls': obligation_class(name), 'desc': desc, 'status': st,
             'function': (p.get('sourceLocation') or {}).get('function', '')}
        if 'trace' in p:
            o['trace'] = p['trace']
        if desc == CANARY_DESC:
            r.canary = st
            continue
        r.obligations.append(o)
    anyfail = any(o['status'] == 'FAILURE' for o in r.obligations)
    # after a failed *fatal* check (e.g. an out-of-bounds read) CBMC reports later obligations as UNKNOWN:
    # that is a failed run, not an undecided one.  UNKNOWN/ERROR without any FAILURE is undecided.
    bad = [o for o in r.obligations if o['status'] not in ('SUCCESS', 'FAILURE')]
    if anyfail:
        r.obligations = [o for o in r.obligations if o['status'] in ('SUCCESS', 'FAILURE')]
        r.unknown_after_fatal = len(bad)
        bad = []
    if bad:
        raise Undecided('obligation %s has status %s' % (bad[0]['id'], bad[0]['status']))
    u = r.unit
    uw = [o for o in r.obligations if o['cls'] == 'unwind' and o['status'] == 'FAILURE']
    if uw:
        # A failed unwinding assertion means executions beyond the bound were not explored: nothing can be PROVED from this run.  A failure of another obligation on
        # an explored path is still a genuine counterexample (bounded model checking is sound for the bugs it finds): report it; otherwise the run is undecided.
        r.obligations = [o for o in r.obligations if o['cls'] != 'unwind']
        if not any(o['status'] == 'FAILURE' for o in r.obligations):
            raise Undecided('unwinding assertion %s failed (bound %s too small)' % (uw[0]['id'], u.unwind or DEFAULT_UNWIND))
    r.status = 'fail' if any(o['status'] == 'FAILURE' for o in r.obligations) else 'pass'
    if r.status == 'pass':
        if r.canary != 'FAILURE':
            raise Undecided('vacuity: canary assertion after the call is %s (preconditions contradictory '
                            'or the function cannot return)' % r.canary)
        if len(r.obligations) < u.floor:
            raise Undecided('vacuity: only %d obligations, floor %d' % (len(r.obligations), u.floor))
        classes = set(o['cls'] for o in r.obligations)
        need = list(u.expect)
        if u.entry:
            need.append('postcondition')
        if u.loop_contracts:
            need.append('loop_invariant_step')
        for c in need:
            if not any(c in k for k in classes) and not any(c in o['id'] for o in r.obligations):
                raise Undecided('vacuity: no obligation of class %s was generated' % c)


def ifdef_rule(macro, defined):
    """callable rule: resolves '#ifdef/#ifndef macro ... [#else ...] #endif' (non-nested) as if macro were (un)defined.
    R13: the pinned Linux build defines neither _WIN32 nor ASL_ANSI."""
    def rule(text):
        n = 0
        pat = re.compile(r'^[ \t]*#[ \t]*(ifdef|ifndef)[ \t]+%s\b[^\n]*\n(.*?)^[ \t]*#[ \t]*endif[^\n]*\n?' % re.escape(macro), re.S | re.M)
        def sub(m):
            nonlocal n
            n += 1
            body = m.group(2)
            parts = re.split(r'^[ \t]*#[ \t]*else[^\n]*\n', body, maxsplit=1, flags=re.M)
            first, second = parts[0], (parts[1] if len(parts) > 1 else '')
            take_first = (m.group(1) == 'ifdef') == defined
            return first if take_first else second
        text = pat.sub(sub, text)
        return text, n
    rule.__name__ = 'ifdef_%s_%s' % (macro, 'defined' if defined else 'undefined')
    return rule


def do_while_rule(text):
    """R14: CBMC 6.11 does not support loop contracts on do/while.  `do BODY while (C);` is rewritten mechanically to
    `{ int vf_first = 1; while (vf_first || (C)) { vf_first = 0; BODY } }` - same executions, including break and continue
    (continue re-evaluates C because vf_first is already 0)."""
    n = 0
    pos = 0
    while True:
        m = re.search(r'\bdo\b\s*\{', text[pos:])
        if not m:
            return text, n
        s = pos + m.start()
        b = text.index('{', s)
        e = match_close(text, b)
        mw = re.match(r'\s*while\s*\(', text[e:])
        if not mw:
            pos = e
            continue
        p = e + mw.end() - 1
        pe = match_close(text, p, '(', ')')
        semi = find_code(text, ';', pe)
        cond = text[p + 1:pe - 1]
        body = text[b + 1:e - 1]
        text = text[:s] + '{ int vf_first = 1; while (vf_first || (' + cond + ')) { vf_first = 0; ' + body + ' } }' + text[semi + 1:]
        n += 1
        pos = s + 10


def bounded_twin(unit, name, flags, unwind, bound, drop_rules=()):
    """A second unit over the same cuts, contract and stubs WITHOUT the loop contracts: every loop is unwound completely for inputs small enough (`flags`, e.g. -DNMAX=6).
    It does not depend on the names or the shape of the loop's locals, so it still decides (bounded) when a loop is restructured, gains an inner loop, or loses
    the variables a loop invariant talks about - cases in which the loop-contract unit can only say 'undecided'."""
    import copy
    v = copy.copy(unit)
    v.name = name
    v.cuts = []
    for c in unit.cuts:
        d = copy.copy(c)
        d.loops = []
        d.rules = [r for r in c.rules if r not in drop_rules]
        d.fired = []
        v.cuts.append(d)
    v.variants = {'': list(flags)}
    v.variant_flags, v.variant_kind = {}, {}
    v.unwind = unwind
    v.kind, v.bound = 'bounded', bound
    v.loop_contracts = False
    v.planted = []
    v.desc = unit.desc + ' [bounded twin without loop contracts: ' + bound + ']'
    return v
