"""C20: a small verification-condition generator for straight-line arithmetic.

The expression TEXT of Matrix4_/Matrix3_ inverse() and det() is cut from the headers on every run, parsed (grammar: a[i][j],
+ - *, unary minus, parentheses - anything else aborts as undecided) and turned into polynomials; each obligation
("entry (i,j) of A*adj(A) equals d*delta_ij", "det() text equals the Leibniz determinant", ...) becomes the SMT-LIB query
  (declare-const a_i_j Real) ... (assert (not (= lhs rhs)))
and must be `unsat` on z3 4.8, z3 5.1 (z3-new) and cvc5.  Machine floating point is treated as real arithmetic: that is
what "as exact algebraic identities" in the property asks; stated as an assumption.
"""
import re, os, subprocess, itertools, time, tempfile
from vf import core
from vf.core import Undecided


# ---- parsing --------------------------------------------------------------------------------------------------
def tokenize(s):
    s = re.sub(r'\s+', '', s)
    toks = []
    i = 0
    while i < len(s):
        m = re.match(r'a\[(\d)\]\[(\d)\]', s[i:])
        if m:
            toks.append(('v', (int(m.group(1)), int(m.group(2)))))
            i += m.end()
            continue
        if s[i] in '+-*()':
            toks.append((s[i], None))
            i += 1
            continue
        raise Undecided('expression outside the grammar at %r' % s[i:i + 20])
    return toks


def parse(s, var):
    """returns an SMT-LIB term; var(i,j) gives the term for a[i][j]"""
    toks = tokenize(s)
    pos = [0]

    def peek():
        return toks[pos[0]][0] if pos[0] < len(toks) else None

    def eat(k=None):
        t = toks[pos[0]]
        if k and t[0] != k:
            raise Undecided('parse error: expected %s' % k)
        pos[0] += 1
        return t

    def expr():
        t = term()
        while peek() in ('+', '-'):
            op = eat()[0]
            t = '(%s %s %s)' % (op, t, term())
        return t

    def term():
        f = factor()
        while peek() == '*':
            eat()
            f = '(* %s %s)' % (f, factor())
        return f

    def factor():
        k = peek()
        if k == '-':
            eat()
            return '(- %s)' % factor()
        if k == '(':
            eat()
            e = expr()
            eat(')')
            return e
        if k == 'v':
            return var(*eat()[1])
        raise Undecided('parse error at token %r' % (k,))
    e = expr()
    if pos[0] != len(toks):
        raise Undecided('trailing tokens in expression')
    return e


def split_args(s):
    out, depth, cur = [], 0, ''
    for ch in s:
        if ch in '([':
            depth += 1
        elif ch in ')]':
            depth -= 1
        if ch == ',' and depth == 0:
            out.append(cur)
            cur = ''
        else:
            cur += ch
    out.append(cur)
    return [x.strip() for x in out]


# ---- solvers --------------------------------------------------------------------------------------------------
SOLVERS = [('z3-4.8', ['z3', '-smt2', '-T:60']), ('z3-5.1', ['z3-new', '-smt2', '-T:60']), ('cvc5', ['cvc5', '--lang=smt2', '--tlimit=60000'])]


def check_identity(names, lhs, rhs, work, tag, solvers=SOLVERS):
    """True iff every solver says unsat for (not (= lhs rhs)); returns (ok, detail, model-ish)"""
    q = '(set-logic QF_NRA)\n' + ''.join('(declare-const %s Real)\n' % n for n in names) + \
        '(assert (not (= %s %s)))\n(check-sat)\n(get-model)\n' % (lhs, rhs)
    path = os.path.join(work, tag + '.smt2')
    with open(path, 'w') as f:
        f.write(q)
    answers = {}
    for name, cmd in solvers:
        try:
            p = subprocess.run(cmd + [path], stdout=subprocess.PIPE, stderr=subprocess.STDOUT, timeout=90)
            out = p.stdout.decode('utf-8', 'replace')
        except (subprocess.TimeoutExpired, OSError) as e:
            out = 'timeout/%r' % e
        first = out.strip().splitlines()[0] if out.strip() else ''
        answers[name] = (first, out)
    return answers


def verdict(answers):
    firsts = [a[0] for a in answers.values()]
    if all(f == 'unsat' for f in firsts):
        return 'unsat'
    if any(f == 'sat' for f in firsts):
        return 'sat'
    return 'unknown'


def model_values(out):
    vals = {}
    for m in re.finditer(r'\(define-fun (a_\d_\d) \(\) Real\s+([^\n]*)\)', out):
        vals[m.group(1)] = m.group(2).strip()
    return vals


# ---- the C20 obligations ---------------------------------------------------------------------------------------
def leibniz(n, var):
    terms = []
    for perm in itertools.permutations(range(n)):
        inv = sum(1 for i in range(n) for j in range(i + 1, n) if perm[i] > perm[j])
        prod = '(* ' + ' '.join(var(i, perm[i]) for i in range(n)) + ')'
        terms.append(prod if inv % 2 == 0 else '(- %s)' % prod)
    return '(+ ' + ' '.join(terms) + ')'


def matrix_obligations(hdr, cls, n, work):
    """yields dicts {id, status: 'unsat'|'sat'|'unknown', detail, model}"""
    src = core.strip_comments(core.read_repo(hdr))
    names = ['a_%d_%d' % (i, j) for i in range(n) for j in range(n)]
    var = lambda i, j: 'a_%d_%d' % (i, j)
    # inverse(): T d = <expr>;  <cls> m(<n*n exprs>);  m *= T(1) / d;
    m = re.search(r'%s(?:<T>)?\s+(?:%s<T>::)?inverse\(\) const\s*\{(.*?)\n\t?\}' % (cls, cls), src, re.S)
    if not m:
        raise Undecided('inverse() of %s not found' % cls)
    body = m.group(1)
    md = re.search(r'T d\s*=\s*(.*?);', body, re.S)
    mm = re.search(r'%s(?:<T>)?\s+m\((.*?)\);\s*m \*= T\(1\) / d;\s*return m;' % cls, body, re.S)
    if not md or not mm:
        raise Undecided('inverse() of %s does not have the shape  T d = ...; %s m(...); m *= T(1) / d; return m;' % (cls, cls))
    d = parse(md.group(1), var)
    args = split_args(mm.group(1))
    if len(args) != n * n:
        raise Undecided('%s m(...) has %d arguments, expected %d' % (cls, len(args), n * n))
    # the constructor maps its arguments row-major: check its text
    params = re.search(r'%s\(T (\w+), T (\w+)' % cls, src)
    ctor = re.search(r'%s\(T \w+,[^{]*\{(.*?)\}' % cls, src, re.S)
    assigns = re.findall(r'a\[(\d)\]\[(\d)\]\s*=\s*(\w+);', ctor.group(1)) if ctor else []
    sig = re.search(r'%s\((T \w+[^)]*)\)' % cls, src)
    pnames = re.findall(r'T (\w+)', sig.group(1)) if sig else []
    rowmajor = len(assigns) == n * n and all(pnames.index(p) == int(i) * n + int(j) for i, j, p in assigns if p in pnames) and all(p in pnames for _, _, p in assigns)
    yield {'id': '%s.constructor_row_major' % cls, 'status': 'unsat' if rowmajor else 'sat', 'detail': 'element constructor assigns its k-th argument to a[k/%d][k%%%d]' % (n, n), 'solver': 'syntactic'}
    adj = [[parse(args[i * n + j], var) for j in range(n)] for i in range(n)]
    for side in ('A_adj', 'adj_A'):
        for i in range(n):
            for j in range(n):
                if side == 'A_adj':
                    lhs = '(+ ' + ' '.join('(* %s %s)' % (var(i, k), adj[k][j]) for k in range(n)) + ')'
                else:
                    lhs = '(+ ' + ' '.join('(* %s %s)' % (adj[i][k], var(k, j)) for k in range(n)) + ')'
                rhs = d if i == j else '0.0'
                ans = check_identity(names, lhs, rhs, work, '%s_%s_%d%d' % (cls, side, i, j))
                v = verdict(ans)
                yield {'id': '%s.inverse.%s[%d][%d]' % (cls, side, i, j), 'status': v,
                       'detail': 'entry (%d,%d) of %s equals d*delta  =>  d != 0 implies M*inverse(M) = I' % (i, j, side.replace('_', ' * ')),
                       'solver': ', '.join('%s:%s' % (k, a[0]) for k, a in ans.items()),
                       'model': next((model_values(a[1]) for a in ans.values() if a[0] == 'sat'), None)}
    # det(): text equals the Leibniz determinant, and equals the d of inverse()
    mdet = re.search(r'T\s+(?:%s<T>::)?det\(\) const\s*\{\s*return (.*?);\s*\}' % cls, src, re.S)
    if not mdet:
        raise Undecided('det() of %s not found' % cls)
    det = parse(mdet.group(1), var)
    for name, rhs in (('det_is_leibniz', leibniz(n, var)), ('det_equals_inverse_d', d)):
        ans = check_identity(names, det, rhs, work, '%s_%s' % (cls, name))
        yield {'id': '%s.%s' % (cls, name), 'status': verdict(ans), 'detail': 'det() expression: ' + name.replace('_', ' '),
               'solver': ', '.join('%s:%s' % (k, a[0]) for k, a in ans.items()),
               'model': next((model_values(a[1]) for a in ans.values() if a[0] == 'sat'), None)}
    # det(AB) = det(A) det(B): the det() text applied to the entries of the product
    bnames = ['b_%d_%d' % (i, j) for i in range(n) for j in range(n)]
    prod = lambda i, j: '(+ ' + ' '.join('(* a_%d_%d b_%d_%d)' % (i, k, k, j) for k in range(n)) + ')'
    detab = parse(mdet.group(1), prod)
    deta = det
    detb = parse(mdet.group(1), lambda i, j: 'b_%d_%d' % (i, j))
    ans = check_identity(names + bnames, detab, '(* %s %s)' % (deta, detb), work, '%s_det_product' % cls)
    yield {'id': '%s.det_product' % cls, 'status': verdict(ans), 'detail': 'det(A*B) = det(A)*det(B) for the det() text',
           'solver': ', '.join('%s:%s' % (k, a[0]) for k, a in ans.items()), 'optional': True,
           'model': next((model_values(a[1]) for a in ans.values() if a[0] == 'sat'), None)}
