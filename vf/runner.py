"""Runs all units of one property, decides the verdict, writes evidence and replay files."""
import os, sys, json, time, re, importlib, shutil, subprocess, concurrent.futures
from vf import core
from vf.core import Undecided

VERIF = core.VERIF
TIERS = ('quick', 'thorough')


def load_known():
    p = os.path.join(VERIF, 'known_findings.json')
    if not os.path.exists(p):
        return []
    with open(p) as f:
        return json.load(f).get('findings', [])


def finding_for(o, res, known):
    """the open known finding that covers failed obligation o of result res, or None"""
    for k in known:
        if k.get('status') != 'open':
            continue
        if k['property'] != res.unit.prop or k['unit'] != res.unit.name or k.get('variant', '') != res.variant:
            continue
        for pat in k['obligations']:
            if pat.get('class') and pat['class'] != o['cls']:
                continue
            if pat.get('function') and pat['function'] != o['function']:
                continue
            if pat.get('desc') and not re.search(pat['desc'], o['desc']):
                continue
            return k
    return None


def select_units(mod, tier, only=None):
    us = []
    for u in mod.UNITS:
        if only and u.name not in only:
            continue
        if tier == 'quick' and u.tier != 'quick':
            continue
        us.append(u)
    return us


def variants_for(u, tier):
    vs = list(u.variants)
    tv = getattr(u, 'thorough_variants', None)
    if tier == 'quick' and tv:
        vs = [v for v in vs if v not in tv]
    return vs


def run_property(prop, tier='quick', only=None, jobs=None, keep=False, seed=0):
    t0 = time.time()
    mod = importlib.import_module('units.' + prop)
    work = os.path.join(os.environ.get('VERIF_WORK', os.path.join(VERIF, '.work')), '%s.%d' % (prop, os.getpid()))
    os.makedirs(work, exist_ok=True)
    known = load_known()
    units = select_units(mod, tier, only)
    tasks = []
    for u in units:
        for v in variants_for(u, tier):
            tasks.append((u, v, None))
            if tier == 'thorough':
                for i, e in enumerate(u.planted):
                    if len(e) > 3 and not re.search(e[3], v):     # optional 4th field: the variants whose path the planted break lies on
                        continue
                    tasks.append((u, v, e))
    jobs = jobs or int(os.environ.get('VERIF_JOBS', '8'))
    results = []
    pre = []
    if hasattr(mod, 'pre_checks'):
        pre = mod.pre_checks(work)       # list of dicts {name, ok, detail, undecided?}
    with concurrent.futures.ThreadPoolExecutor(max_workers=jobs) as ex:
        futs = [ex.submit(core.run_unit, u, v, work, e) for (u, v, e) in tasks]
        for (u, v, e), f in zip(tasks, futs):
            r = f.result()
            r.edit = e
            results.append(r)
    extra = []
    if hasattr(mod, 'extra_checks'):
        extra = mod.extra_checks(work, tier)   # list of dicts: name, kind, obligations, discharged, failures[], undecided, detail
    verdict = decide(prop, tier, results, extra, pre, known, work, seed, time.time() - t0)
    if not keep:
        shutil.rmtree(work, ignore_errors=True)
    return verdict


def decide(prop, tier, results, extra, pre, known, work, seed, wall):
    lines = []
    undecided = []
    violations = []      # (result, obligation)
    kf_lines = []
    insensitive = []
    main = [r for r in results if not r.edit]
    planted = [r for r in results if r.edit]
    for r in main:
        if r.status == 'undecided':
            undecided.append('unit=%s reason=%s' % (r.label, r.reason))
            continue
        for o in r.failed():
            k = finding_for(o, r, known)
            if k:
                kf_lines.append((k['id'], 'KNOWN-FINDING: property=%s %s' % (prop, k['witness'])))
            else:
                violations.append((r, o))
        # a known-finding variant whose listed obligation no longer fails is fine (fixed) - nothing to do
    for p in pre:
        if not p['ok']:
            undecided.append('pre-check=%s reason=%s' % (p['name'], p['detail']))
    for x in extra:
        if x.get('undecided'):
            undecided.append('unit=%s reason=%s' % (x['name'], x['undecided']))
        for fl in x.get('failures', []):
            violations.append((x, fl))
    for r in planted:
        # a planted break must make some obligation fail
        if r.status != 'fail':
            insensitive.append('%s planted %r -> %s %s' % (r.label, r.edit[1:], r.status, r.reason))
    seen = set()
    for kid, l in kf_lines:
        if kid not in seen:
            seen.add(kid)
            print(l)
    for u in undecided:
        print('UNDECIDED property=%s %s' % (prop, u))
    for i in insensitive:
        print('INSENSITIVE property=%s %s' % (prop, i))
    replay_path = None
    if violations:
        replay_path = write_replay(prop, violations, work)
    ev = write_evidence(prop, tier, seed, main, planted, extra, pre, known, violations, undecided, insensitive, wall)
    if violations:
        for r, o in violations:
            if isinstance(r, dict):
                print('FAILED obligation %s :: %s' % (r['name'], o.get('id', o)))
            else:
                print('FAILED obligation %s :: %s :: %s' % (r.label, o['id'], o['desc']))
        print('VIOLATION property=%s replay=%s' % (prop, replay_path['path']) +
              ('' if replay_path['reproduced'] else ' no-failing-input-found'))
        return 1
    if undecided:
        return 2
    n_ob = ev['coverage'].get('obligations', 0) + sum(b['obligations'] for b in ev['coverage'].get('bounded', []))
    print('OK property=%s tier=%s units=%d obligations=%d wall=%.0fs' % (prop, tier, len(main) + len(extra), n_ob, wall))
    return 0


def write_replay(prop, violations, work):
    """One replay file per run; lists every failed obligation, carries verifier output, and - where the unit
    has a replay recipe - the concrete input and the native outcome on the real library."""
    outdir = os.path.join(os.environ.get('VERIF_OUT', VERIF), 'replay_out')     # VERIF_OUT: trial runs on a scratch copy of /repo (tools/par_seeds.py) keep their output apart
    os.makedirs(outdir, exist_ok=True)
    items = []
    reproduced = False
    for r, o in violations:
        if isinstance(r, dict):
            it = {'unit': r['name'], 'obligation': o.get('id', str(o)), 'verifier_output': o.get('detail', ''),
                  'inputs': o.get('inputs'), 'native': o.get('native')}
            if o.get('native', {}) and o['native'].get('reproduced'):
                reproduced = True
            items.append(it)
            continue
        it = {'unit': r.unit.name, 'variant': r.variant, 'obligation': o['id'], 'class': o['cls'],
              'description': o['desc'], 'function': o['function'], 'cbmc_cmd': r.cmds[-1] if r.cmds else ''}
        if r.unit.replay and len([x for x in items if x.get('native')]) < 3:
            try:
                rep = r.unit.replay(r, o, work)
                it.update(rep)
                if rep.get('native', {}).get('reproduced'):
                    reproduced = True
            except Exception as e:   # replay is best effort; the violation stands
                it['replay_error'] = repr(e)
        if 'verifier_output' not in it:
            it['verifier_output'] = trace_text(r, o, work)
        items.append(it)
    first = items[0]
    name = '%s-%s-%s.json' % (prop, re.sub(r'\W+', '_', first['unit'] + '_' + first.get('variant', '')),
                              re.sub(r'\W+', '_', first['obligation']))
    path = os.path.join(outdir, name)
    with open(path, 'w') as f:
        json.dump({'property': prop, 'failed_obligations': items, 'reproduced_on_real_code': reproduced}, f, indent=1)
    return {'path': path, 'reproduced': reproduced}


def trace_text(r, o, work):
    """re-run cbmc for that one obligation with --trace (text UI) and keep the tail"""
    if not r.gb or not os.path.exists(r.gb):
        return ''
    cmd = [c for c in r.cmds[-1].split(' ') if c != '--json-ui'] + ['--property', o['id'], '--trace']
    try:
        p = subprocess.run(cmd, stdout=subprocess.PIPE, stderr=subprocess.STDOUT, timeout=min(r.unit.timeout, 300))
        txt = p.stdout.decode('utf-8', 'replace')
        i = txt.find('Trace for')
        return txt[i:i + 20000] if i >= 0 else txt[-4000:]
    except Exception as e:
        return 'trace run failed: %r' % e


def write_evidence(prop, tier, seed, main, planted, extra, pre, known, violations, undecided, insensitive, wall):
    proof_ob = proof_dis = 0
    bounded = []
    units = []
    samples = []
    trusted = set(['CBMC 6.11 front end, goto-instrument --dfcc contract instrumentation, SAT back end',
                   'prelude/*.h C meaning of asl types (layout checked against the real headers by g++ static_assert on every run)',
                   'extraction rules listed per cut (rules_fired)'])
    assumes = set()
    functions = set()
    for r in main:
        u = r.unit
        n = len(r.obligations)
        dis = len([o for o in r.obligations if o['status'] == 'SUCCESS'])
        kind, bound = u.variant_kind.get(r.variant, (u.kind, u.bound))
        rec = {'unit': r.label, 'kind': kind, 'bound': bound, 'status': r.status, 'reason': r.reason,
               'obligations': n, 'discharged': dis, 'wall_s': round(r.wall, 1), 'solver_s': round(r.solver_s, 1),
               'back_end': 'cbmc/' + (u.solver or 'minisat'), 'entry': u.entry, 'replaced_by_contract': u.replace,
               'canary': r.canary, 'cuts': r.cuts, 'desc': u.desc}
        units.append(rec)
        if r.status in ('pass', 'fail'):
            if kind == 'proof':
                proof_ob += n
                proof_dis += dis
            else:
                bounded.append({'unit': r.label, 'bound': bound, 'obligations': n, 'discharged': dis})
            for f in u.functions:
                functions.add(f)
        trusted.update(u.trusted)
        assumes.update(u.assumes)
        if r.obligations and len(samples) < 12:
            pc = [o for o in r.obligations if o['cls'] == 'postcondition'] or r.obligations
            samples.append({'unit': r.label, 'obligation': pc[0]['id'], 'description': pc[0]['desc'], 'status': pc[0]['status']})
    for x in extra:
        rec = {'unit': x['name'], 'kind': x.get('kind', 'proof'), 'bound': x.get('bound'), 'status': 'undecided' if x.get('undecided') else ('fail' if x.get('failures') else 'pass'),
               'obligations': x.get('obligations', 0), 'discharged': x.get('discharged', 0), 'back_end': x.get('back_end', ''),
               'wall_s': round(x.get('wall_s', 0), 1), 'desc': x.get('detail', '')}
        units.append(rec)
        if x.get('kind', 'proof') == 'proof':
            proof_ob += rec['obligations']
            proof_dis += rec['discharged']
        else:
            bounded.append({'unit': x['name'], 'bound': x.get('bound'), 'obligations': rec['obligations'], 'discharged': rec['discharged']})
        for f in x.get('functions', []):
            functions.add(f)
        trusted.update(x.get('trusted', []))
        assumes.update(x.get('assumes', []))
        samples += x.get('samples', [])[:3]
    mod = importlib.import_module('units.' + prop)
    level = getattr(mod, 'LEVEL', 'proof')
    explanation = getattr(mod, 'EXPLANATION', '')
    # the level reported is the one MANIFEST.json claims for this property (one source of truth: tools/mkmanifest.py)
    try:
        for c in json.load(open(os.path.join(VERIF, 'MANIFEST.json')))['checks']:
            if c['property_id'] == prop:
                level = c['level_claimed']['category']
                explanation = explanation or c['level_claimed'].get('text', '')
    except Exception:
        pass
    cov = {
        'obligations': proof_ob, 'discharged': proof_dis,
        'checker_cmd': 'goto-cc --function vf_harness unit.c; goto-instrument --dfcc vf_harness --enforce-contract <f> [--replace-call-with-contract g] [--apply-loop-contracts]; cbmc --bounds-check --pointer-check --pointer-overflow-check --div-by-zero-check --signed-overflow-check --undefined-shift-check --pointer-primitive-check --unwind <unit bound or 100> --unwinding-assertions --sat-solver cadical --json-ui',
        'trusted_base': sorted(trusted),
        'bounded': bounded,
        'functions_under_contract': sorted(functions),
        'units': units,
        'samples': samples,
        'pre_checks': pre,
        'planted_breaks': [{'unit': r.label, 'edit': list(r.edit[1:]), 'detected': r.status == 'fail',
                            'failed': [o['id'] for o in r.failed()][:5]} for r in planted],
        'insensitive': insensitive,
        'undecided': undecided,
        'known_findings_open': sorted(set(k['id'] for k in known if k.get('status') == 'open' and k['property'] == prop)),
        'explanation': explanation,
        'not_decided': getattr(mod, 'NOT_DECIDED', []),
    }
    ev = {'property_id': prop, 'tier': tier, 'seed': seed, 'level': level, 'coverage': cov,
          'assumptions': sorted(assumes | set(getattr(mod, 'ASSUMPTIONS', []))),
          'wall_s': round(wall, 1), 'violations': len(violations)}
    evdir = os.path.join(os.environ.get('VERIF_OUT', VERIF), 'evidence')
    os.makedirs(evdir, exist_ok=True)
    with open(os.path.join(evdir, prop + '.json'), 'w') as f:
        json.dump(ev, f, indent=1)
    return ev
