"""Replay of a failed obligation against the real library.

step 1 (concretise): the same extracted text is compiled with -DVF_CX; its harness `vf_cx_harness` declares
        small explicit inputs (globals named cx_*), assumes the contract's precondition, calls the function
        directly and asserts the postconditions; cbmc --trace gives concrete values for the cx_* inputs.
step 2 (native): replay/<Cxx>/<driver>.cpp includes the real asl headers, is linked with /repo/src/*.cpp built
        from the working tree with ASan+UBSan, calls the real function on those inputs and checks the same
        specification natively.
"""
import os, re, json, subprocess, glob, hashlib, concurrent.futures
from vf import core

SAN = ['-g', '-O1', '-fsanitize=address,undefined', '-fno-sanitize-recover=undefined', '-fno-omit-frame-pointer',
       '-DASL_STATIC', '-w', '-I', os.path.join(core.REPO, 'include')]
_lib = {}


def _tree_hash():
    h = hashlib.sha1()
    for f in sorted(glob.glob(os.path.join(core.REPO, 'src', '*')) + glob.glob(os.path.join(core.REPO, 'include', 'asl', '*'))):
        if os.path.isfile(f):
            h.update(f.encode()); h.update(open(f, 'rb').read())
    return h.hexdigest()[:16]


def build_native_lib(work):
    """all of /repo/src (working tree) with sanitizers -> libaslsan.a.  Built once per content of src/ + include/ (cache under .work/native_cache/<hash>,
    rebuilt from the working tree whenever a file differs), so that replays on the same tree do not recompile the library."""
    if work in _lib:
        return _lib[work]
    key = _tree_hash()
    cache = os.path.join(core.VERIF, '.work', 'native_cache', key)
    lib = os.path.join(cache, 'libaslsan.a')
    if os.path.exists(lib):
        _lib[work] = lib
        return lib
    d = cache + '.tmp%d' % os.getpid()
    os.makedirs(d, exist_ok=True)
    srcs = [s for s in sorted(glob.glob(os.path.join(core.REPO, 'src', '*.cpp'))) if not s.endswith('TlsSocket.cpp')]

    def cc(s):
        o = os.path.join(d, os.path.basename(s)[:-4] + '.o')
        p = subprocess.run(['g++', '-c', s, '-o', o] + SAN, stdout=subprocess.PIPE, stderr=subprocess.STDOUT)
        return o, p.returncode, p.stdout.decode('utf-8', 'replace')
    with concurrent.futures.ThreadPoolExecutor(max_workers=16) as ex:
        res = list(ex.map(cc, srcs))
    bad = [r for r in res if r[1] != 0]
    if bad:
        raise RuntimeError('native build failed: ' + bad[0][2][-500:])
    tmplib = os.path.join(d, 'libaslsan.a')
    subprocess.check_call(['ar', 'rcs', tmplib] + [r[0] for r in res])
    for r in res:
        os.remove(r[0])
    try:
        os.rename(d, cache)
    except OSError:
        pass      # another run finished the same build first
    lib = lib if os.path.exists(lib) else tmplib
    # keep the cache small: the 6 most recent trees
    olds = sorted(glob.glob(os.path.join(core.VERIF, '.work', 'native_cache', '*')), key=os.path.getmtime)
    for o in olds[:-6]:
        import shutil
        shutil.rmtree(o, ignore_errors=True)
    _lib[work] = lib
    return lib


def run_native(driver_rel, args, work, timeout=60):
    """compile replay/<driver_rel> against the sanitized real library and run it with args.
    The driver prints 'REPRODUCED ...' (exit 1) when the real code violates the specification; a sanitizer
    report (non-zero exit) also counts."""
    lib = build_native_lib(work)
    src = os.path.join(core.VERIF, 'replay', driver_rel)
    os.makedirs(os.path.join(work, 'native'), exist_ok=True)
    exe = os.path.join(work, 'native', re.sub(r'\W+', '_', driver_rel) + '.exe')
    p = subprocess.run(['g++', src, '-o', exe, '-I', os.path.join(core.VERIF, 'spec'), '-I', os.path.join(core.VERIF, 'prelude')] + SAN +
                       [lib, '-lpthread', '-ldl'], stdout=subprocess.PIPE, stderr=subprocess.STDOUT)
    if p.returncode != 0:
        return {'reproduced': False, 'error': 'driver build failed: ' + p.stdout.decode('utf-8', 'replace')[-800:]}
    try:
        q = subprocess.run([exe] + [str(a) for a in args], stdout=subprocess.PIPE, stderr=subprocess.STDOUT, timeout=timeout,
                           env=dict(os.environ, ASAN_OPTIONS='detect_leaks=0:abort_on_error=0', UBSAN_OPTIONS='print_stacktrace=1'))
        out = q.stdout.decode('utf-8', 'replace')
        rc = q.returncode
    except subprocess.TimeoutExpired:
        out, rc = 'TIMEOUT (non-termination?)', 124
    rep = rc != 0 or 'REPRODUCED' in out
    return {'reproduced': rep, 'exit': rc, 'cmd': ' '.join([exe] + [str(a) for a in args]), 'output': out[-3000:],
            'driver': 'replay/' + driver_rel}


def _val(v):
    if v is None:
        return None
    if 'data' in v:
        d = v['data']
        try:
            return int(d)
        except (ValueError, TypeError):
            pass
        if v.get('binary') and v.get('type', '').find('unsigned') >= 0:
            return int(v['binary'], 2)
        if v.get('binary'):
            b = v['binary']
            x = int(b, 2)
            if b[0] == '1' and 'unsigned' not in v.get('type', '') and v.get('name') == 'integer':
                x -= 1 << len(b)
            return x
        return d
    if v.get('name') == 'array':
        return [_val(e.get('value')) for e in v.get('elements', [])]
    return None


def concretise(unit, variant, work, defs=(), unwind=12, timeout=120, checks=None):
    """returns (inputs dict of cx_* values, failed property description, raw trace tail) or (None, None, text)"""
    tag = re.sub(r'\W+', '_', unit.name + '.' + variant + '.cx')
    d = os.path.join(work, tag)
    os.makedirs(d, exist_ok=True)
    log = os.path.join(d, 'log.txt')
    ctext = unit.generate()
    cfile = os.path.join(d, 'unit.c')
    with open(cfile, 'w', encoding='utf-8', errors='surrogateescape') as f:
        f.write(ctext)
    a = os.path.join(d, 'a.gb')
    cmd = ['goto-cc', '-I', core.VERIF, '-I', os.path.join(core.VERIF, 'prelude'), '-I', os.path.join(core.VERIF, 'spec'),
           '-DVF_CBMC', '-DVF_CX'] + list(unit.variants[variant]) + list(defs) + ['--function', 'vf_cx_harness', cfile, '-o', a]
    rc, out, _ = core._run(cmd, 120, d, log)
    if rc != 0:
        return None, None, 'concretisation harness did not compile: ' + out[-500:]
    cmd = ['cbmc', a] + (checks if checks is not None else core.DEFAULT_CHECKS) + \
          ['--unwind', str(unwind), '--stop-on-fail', '--trace', '--json-ui', '--sat-solver', 'cadical']
    rc, out, _ = core._run(cmd, timeout, d, log)
    if rc == 'timeout':
        return None, None, 'concretisation run timed out'
    try:
        data = json.loads(out[out.index('['):])
    except Exception:
        return None, None, 'concretisation output unreadable: ' + out[-300:]
    for item in data:
        for p in item.get('result', []):
            if p.get('status') == 'FAILURE' and 'trace' in p:
                if p.get('property', '').endswith('.unwind.0') or '.unwind.' in p.get('property', ''):
                    continue
                vals = {}
                for st in p['trace']:
                    if st.get('stepType') == 'assignment':
                        lhs = st.get('lhs', '')
                        if lhs.startswith('cx_'):
                            m = re.match(r'(cx_\w+)\[(\d+)l?\]$', lhs)
                            v = _val(st.get('value'))
                            if m:
                                vals.setdefault(m.group(1), {})[int(m.group(2))] = v
                            elif re.match(r'cx_\w+$', lhs):
                                if isinstance(v, list):
                                    vals[lhs] = {i: x for i, x in enumerate(v)}
                                else:
                                    vals[lhs] = v
                for k, v in list(vals.items()):
                    if isinstance(v, dict):
                        n = max(v) + 1 if v else 0
                        vals[k] = [(v.get(i) or 0) for i in range(n)]
                return vals, '%s: %s' % (p.get('property'), p.get('description')), ''
    return None, None, 'no failing input within the concretisation range'


def standard(driver, argfn, unwind=12, defs=(), timeout=120):
    """builds a unit.replay function: concretise, then run the native driver with argfn(inputs)"""
    def rep(r, o, work):
        inputs, what, msg = concretise(r.unit, r.variant, work, defs, unwind, timeout)
        if inputs is None:
            return {'concretisation': msg}
        out = {'inputs': inputs, 'concretisation': what}
        out['native'] = run_native(driver, argfn(inputs), work)
        return out
    return rep


def battery(driver, args, timeout=300):
    """unit.replay recipe for units whose counterexample has no direct native form (ghost models, single steps): the driver's
    small-scope exhaustive search for that function runs on the real library; a failing input it finds is a real one, but it is
    NOT the verifier's counterexample - the replay file says so."""
    def rep(r, o, work):
        return {'concretisation': 'inputs not taken from the trace (the unit verifies a step / ghost model): native small-scope search "%s" run on the real library instead' % ' '.join(str(a) for a in args),
                'native': run_native(driver, args, work, timeout=timeout)}
    return rep


def first_of(*recipes):
    """tries the recipes in order and keeps the first that reproduces on the real library (else the first one's record)"""
    def rep(r, o, work):
        first = None
        for rc in recipes:
            out = rc(r, o, work)
            if first is None:
                first = out
            if out.get('native', {}).get('reproduced'):
                if out is not first:
                    out['earlier_attempt'] = {k: v for k, v in first.items() if k != 'native'}
                return out
        return first
    return rep


def hexs(bs):
    return ''.join('%02x' % (b & 255) for b in bs) or '-'


def rerun(prop, path):
    """bin/check Cxx --replay file: re-run the native step of a replay file against /repo's working tree"""
    with open(path) as f:
        data = json.load(f)
    work = os.path.join(core.VERIF, '.work', 'replay.%d' % os.getpid())
    os.makedirs(work, exist_ok=True)
    any_rep = False
    try:
        for it in data.get('failed_obligations', []):
            nat = it.get('native')
            if not nat or 'driver' not in nat:
                print('obligation %s: no native replay recorded (%s)' % (it.get('obligation'), it.get('concretisation', 'verifier output only')))
                continue
            args = nat['cmd'].split(' ')[1:]
            res = run_native(nat['driver'][len('replay/'):], args, work)
            print('obligation %s: native replay %s' % (it['obligation'], 'REPRODUCED' if res['reproduced'] else 'not reproduced'))
            print(res.get('output', res.get('error', ''))[-1500:])
            any_rep = any_rep or res['reproduced']
    finally:
        import shutil
        shutil.rmtree(work, ignore_errors=True)
    if any_rep:
        print('VIOLATION property=%s replay=%s' % (prop, path))
        return 1
    return 0


def trace_values(r, o, work, names, timeout=300):
    """re-runs cbmc for the failed obligation with --trace and returns the LAST value assigned to each variable whose
    base name is in `names` (harness locals / parameters of the verified function)."""
    if not r.gb or not os.path.exists(r.gb):
        return None, 'no goto binary'
    cmd = [c for c in r.cmds[-1].split(' ')] + ['--property', o['id'], '--trace']
    d = os.path.dirname(r.gb)
    rc, out, _ = core._run(cmd, timeout, d, os.path.join(d, 'trace.log'))
    if rc == 'timeout':
        return None, 'trace run timed out'
    try:
        data = json.loads(out[out.index('['):])
    except Exception:
        return None, 'trace output unreadable'
    vals = {}
    for item in data:
        for p in item.get('result', []):
            if p.get('property') == o['id'] and 'trace' in p:
                for st in p['trace']:
                    if st.get('stepType') != 'assignment':
                        continue
                    lhs = st.get('lhs', '')
                    base = lhs.split('::')[-1]
                    m = re.match(r'(\w+)\[(\d+)l?\]$', base)
                    if m and m.group(1) in names:
                        vals.setdefault(m.group(1), {})[int(m.group(2))] = _val(st.get('value'))
                    elif base in names and not st.get('hidden'):
                        v = _val(st.get('value'))
                        if v is not None:
                            vals[base] = v
    for k, v in list(vals.items()):
        if isinstance(v, dict):
            vals[k] = [(v.get(i) or 0) for i in range(max(v) + 1)]
    return vals, ''


def from_trace(driver, names, argfn):
    """unit.replay recipe: inputs are read from the verifier's counterexample trace itself"""
    def rep(r, o, work):
        vals, msg = trace_values(r, o, work, names)
        if not vals:
            return {'concretisation': msg or 'the trace assigns none of ' + ','.join(names)}
        try:
            args = argfn(vals)
        except (KeyError, TypeError, IndexError) as e:
            return {'inputs': vals, 'concretisation': 'trace lacks an input: %r' % e}
        return {'inputs': vals, 'concretisation': 'values read from the CBMC counterexample for ' + o['id'],
                'native': run_native(driver, args, work)}
    return rep
