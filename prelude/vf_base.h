/* C meaning of the basic asl vocabulary used by the extracted function bodies. */
#ifndef VF_BASE_H
#define VF_BASE_H
#include <stddef.h>
#include <stdbool.h>
#include <stdlib.h>
#include <string.h>
#include <limits.h>
#include <stdint.h>

typedef unsigned char byte;
typedef long long Long;
typedef unsigned long long ULong;

/* asl::max / asl::min are function templates: arguments evaluated exactly once */
static inline int max(int a, int b) { return a > b ? a : b; }
static inline int min(int a, int b) { return a < b ? a : b; }

/* vacuity canary: placed after the call in every harness; the assertion must FAIL */
#define VF_CANARY_DESC "vf canary (must fail)"
#define VF_CANARY() __CPROVER_assert(0, VF_CANARY_DESC)

/* ghost index: an arbitrary index, constrained only by the contract's requires */
extern int g_k;

#endif
