/* Ghost model of the XdlParser members that are containers (src/Xdl.cpp, include/asl/Xdl.h):
   Stack<Context> _context  -> a window of its three topmost entries + its depth (top()/pop() require a non-empty stack: C01)
   String _buffer           -> a small real buffer + length (content beyond VF_BUFCAP-1 characters is not tracked)
   Stack<Var> _lists, Stack<String> _props, Var values -> counters only (push/pop pairing)                           */
#ifndef VF_XDL_H
#define VF_XDL_H
#include "vf_base.h"
#include <wchar.h>
typedef char State; typedef char Context;
/* context stack window: g_c0 is the top, g_c1 below it, g_c2 below that; g_cd = depth */
extern Context g_c0, g_c1, g_c2; extern int g_cd;
/* g_pend: the innermost open container is an object that has read a member name and waits for its value (a pending entry on the _props stack).
   Only the innermost bit is tracked: an object below another open container is always waiting (checked when the child opens, assumed when it closes). */
extern int g_pend;
#define VF_IS_MARKER(x) ((x) == COMMENT1 || (x) == COMMENT || (x) == LINECOMMENT || (x) == ENDCOMMENT)
#define VF_EC (VF_IS_MARKER(g_c0) ? (g_c0 == ENDCOMMENT ? g_c2 : g_c1) : g_c0)
Context nondet_ctx(void);
#define CTX_TOP() (__CPROVER_assert(g_cd >= 1, "Stack::top on an empty context stack"), g_c0)
/* Only the three topmost entries are tracked.  Everything below them satisfies the hidden-part invariant
   "containers (ARRAY/OBJECT) only, with ROOT exactly at the bottom": CTX_PUSH checks it for the entry that leaves the
   window, CTX_POP may therefore assume it for the entry that enters the window.  (enum ContextN must be visible.) */
static inline void CTX_POP(void) { __CPROVER_assert(g_cd >= 1, "Stack::pop on an empty context stack"); int vf_was_container = (g_c0 == ARRAY || g_c0 == OBJECT); g_c0 = g_c1; g_c1 = g_c2; g_c2 = nondet_ctx(); g_cd--;
  __CPROVER_assume(g_cd < 3 || (g_cd == 3 ? g_c2 == ROOT : (g_c2 == ARRAY || g_c2 == OBJECT)));
  if (vf_was_container) g_pend = (g_cd >= 1 && VF_EC == OBJECT) ? 1 : 0; }      /* the parent object was waiting for this container as the value of its pending name */
static inline void CTX_PUSH(Context x) { __CPROVER_assert(g_cd < 3 || (g_cd == 3 ? g_c2 == ROOT : (g_c2 == ARRAY || g_c2 == OBJECT)), "entry leaving the tracked window is a container (ROOT at the bottom)");
  if (x == ARRAY || x == OBJECT) { __CPROVER_assert(g_cd < 1 || VF_EC != OBJECT || g_pend == 1, "a container opened inside an object is the value of a pending member name"); }
  g_c2 = g_c1; g_c1 = g_c0; g_c0 = x; g_cd++; if (x == ARRAY || x == OBJECT) g_pend = 0; }
/* token buffer */
#define VF_BUFCAP 16
extern char g_buf[VF_BUFCAP]; extern int g_buflen;
static inline void BUF_APPEND(char c) { if (g_buflen < VF_BUFCAP - 1) { g_buf[g_buflen] = c; g_buf[g_buflen + 1] = 0; } g_buflen++; }
static inline void BUF_APPEND_STR(const char* s) { for (int i = 0; i < 8 && s[i]; i++) BUF_APPEND(s[i]); }
static inline void BUF_CLEAR(void) { g_buflen = 0; g_buf[0] = 0; }
/* String::fix(0): sets the length only; the characters (and so the position of the NUL) stay as they are */
static inline void BUF_FIX0(void) { g_buflen = 0; }
static inline bool BUF_EQ(const char* s) { if (g_buflen >= VF_BUFCAP) return false; int i = 0; for (; i < 8 && s[i]; i++) if (g_buf[i] != s[i]) return false; return g_buf[i] == 0 && g_buflen == i; }
#define BUF_AT(i) (__CPROVER_assert((i) >= 0 && (i) <= g_buflen, "String::operator[] index within length"), ((i) < VF_BUFCAP ? g_buf[(i) < VF_BUFCAP ? (i) : 0] : (char)'?'))
/* value tree: counters */
extern int g_lists_pushed, g_lists_popped, g_props_pushed, g_values;
static inline void begin_array(void) { g_lists_pushed++; }
static inline void vf_put(void) { if (VF_EC == OBJECT) { __CPROVER_assert(g_pend == 1, "put() into an object: a member name is pending (Stack::top on the name stack)"); g_pend = 0; } }
static inline void end_array(void) { g_lists_popped++; g_values++; vf_put(); }
static inline void begin_object(void) { g_lists_pushed++; }
static inline void end_object(void) { g_lists_popped++; g_values++; vf_put(); }
static inline void new_property(void) { g_props_pushed++; __CPROVER_assert(VF_EC == OBJECT && g_pend == 0, "a member name is read inside an object that is not already waiting for a value"); g_pend = 1; }
static inline void new_value(void) { g_values++; vf_put(); }
#endif
