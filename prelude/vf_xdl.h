/* Ghost model of the XdlParser members that are containers (src/Xdl.cpp, include/asl/Xdl.h):
   Stack<Context> _context  -> a window of its three topmost entries + its depth (top()/pop() require a non-empty stack: C01)
   String _buffer           -> a small real buffer + length (content beyond VF_BUFCAP-1 characters is not tracked)
   Stack<Var> _lists, Stack<String> _props, Var values -> counters only (push/pop pairing)                           */
#ifndef VF_XDL_H
#define VF_XDL_H
#include "vf_base.h"
#include <wchar.h>
typedef char State; typedef char Context;
/* context stack window: g_c0 is the top, g_c1 below it, g_c2 below that; g_cd = depth */
extern Context g_c0, g_c1, g_c2; extern int g_cd;
Context nondet_ctx(void);
#define CTX_TOP() (__CPROVER_assert(g_cd >= 1, "Stack::top on an empty context stack"), g_c0)
/* Only the three topmost entries are tracked.  Everything below them satisfies the hidden-part invariant
   "containers (ARRAY/OBJECT) only, with ROOT exactly at the bottom": CTX_PUSH checks it for the entry that leaves the
   window, CTX_POP may therefore assume it for the entry that enters the window.  (enum ContextN must be visible.) */
static inline void CTX_POP(void) { __CPROVER_assert(g_cd >= 1, "Stack::pop on an empty context stack"); g_c0 = g_c1; g_c1 = g_c2; g_c2 = nondet_ctx(); g_cd--;
  __CPROVER_assume(g_cd < 3 || (g_cd == 3 ? g_c2 == ROOT : (g_c2 == ARRAY || g_c2 == OBJECT))); }
static inline void CTX_PUSH(Context x) { __CPROVER_assert(g_cd < 3 || (g_cd == 3 ? g_c2 == ROOT : (g_c2 == ARRAY || g_c2 == OBJECT)), "entry leaving the tracked window is a container (ROOT at the bottom)");
  g_c2 = g_c1; g_c1 = g_c0; g_c0 = x; g_cd++; }
/* token buffer */
#define VF_BUFCAP 16
extern char g_buf[VF_BUFCAP]; extern int g_buflen;
static inline void BUF_APPEND(char c) { if (g_buflen < VF_BUFCAP - 1) { g_buf[g_buflen] = c; g_buf[g_buflen + 1] = 0; } g_buflen++; }
static inline void BUF_APPEND_STR(const char* s) { for (int i = 0; i < 8 && s[i]; i++) BUF_APPEND(s[i]); }
static inline void BUF_CLEAR(void) { g_buflen = 0; g_buf[0] = 0; }
/* String::fix(0): sets the length only; the characters (and so the position of the NUL) stay as they are */
static inline void BUF_FIX0(void) { g_buflen = 0; }
static inline bool BUF_EQ(const char* s) { if (g_buflen >= VF_BUFCAP) return false; int i = 0; for (; i < 8 && s[i]; i++) if (g_buf[i] != s[i]) return false; return g_buf[i] == 0 && g_buflen == i; }
#define BUF_AT(i) (__CPROVER_assert((i) >= 0 && (i) <= g_buflen, "String::operator[] index within length"), ((i) < VF_BUFCAP ? g_buf[(i) < VF_BUFCAP ? (i) : 0] : (char)'?'))
/* value tree: counters */
extern int g_lists_pushed, g_lists_popped, g_props_pushed, g_values;
static inline void begin_array(void) { g_lists_pushed++; }
static inline void end_array(void) { g_lists_popped++; g_values++; }
static inline void begin_object(void) { g_lists_pushed++; }
static inline void end_object(void) { g_lists_popped++; g_values++; }
static inline void new_property(void) { g_props_pushed++; }
static inline void new_value(void) { g_values++; }
#endif
