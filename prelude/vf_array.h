/* C layout of asl::Array<T> (include/asl/Array.h):  T* _a;  the header  struct Data{int n, s; AtomicCount rc; int pad;}
   sits immediately BEFORE _a[0] in the same malloc block.  AtomicCount is a single int (atomic.h); atomicity is C12 (n/a). */
#ifndef VF_ARRAY_H
#define VF_ARRAY_H
#include "vf_base.h"
#ifndef ELEM
#define ELEM int
#endif
typedef ELEM T;
typedef struct Data { int n, s; int rc; int pad; } Data;
typedef struct Array { T* _a; } Array;
#define HDR(a) ((Data*)(a)->_a - 1)           /* d() */
/* ghost: the malloc block of the array under verification; _a == (T*)(g_block + sizeof(Data)) */
extern char* g_block;
/* element life-cycle counters (asl_construct / asl_destroy / asl_construct_copy) */
extern int g_ctor, g_dtor;
static inline void asl_construct_n(T* p, int n) { __CPROVER_assert(n >= 0, "asl_construct count >= 0"); __CPROVER_assert(n == 0 || __CPROVER_w_ok(p, n * sizeof(T)), "asl_construct: storage writable"); g_ctor += n; }
static inline void asl_destroy_n(T* p, int n) { __CPROVER_assert(n >= 0, "asl_destroy count >= 0"); __CPROVER_assert(n == 0 || __CPROVER_r_ok(p, n * sizeof(T)), "asl_destroy: elements live"); g_dtor += n; }
static inline void asl_construct_copy(T* p, const T* x) { *p = *x; g_ctor++; }
static inline void asl_destroy_1(T* p) { __CPROVER_assert(__CPROVER_r_ok(p, sizeof(T)), "asl_destroy: element live"); g_dtor++; }
#endif
