/* ISO C memcpy/memmove executed literally, byte by byte (specification stubs, trusted).
   Used where CBMC's built-in models (array_copy/array_replace) cannot be encoded: copies inside ONE object,
   and Array blocks whose size is an expression.  Loops are unwound completely (--unwinding-assertions), so a unit
   using them is bounded by the stated maximum copy length. */
#ifndef VF_LIBC_LOOPS_H
#define VF_LIBC_LOOPS_H
#include <stddef.h>
void *memcpy(void *dest, const void *src, size_t n) {
  __CPROVER_precondition(__CPROVER_r_ok(src, n), "memcpy source region readable");
  __CPROVER_precondition(__CPROVER_w_ok(dest, n), "memcpy destination region writeable");
  __CPROVER_precondition(n == 0 || !__CPROVER_same_object(dest, src) ||
    (size_t)__CPROVER_POINTER_OFFSET(dest) + n <= (size_t)__CPROVER_POINTER_OFFSET(src) ||
    (size_t)__CPROVER_POINTER_OFFSET(src) + n <= (size_t)__CPROVER_POINTER_OFFSET(dest), "memcpy src/dst overlap");
  char *d = (char *)dest; const char *s = (const char *)src;
  for (size_t i = 0; i < n; i++) d[i] = s[i];
  return dest;
}
void *memmove(void *dest, const void *src, size_t n) {
  __CPROVER_precondition(__CPROVER_r_ok(src, n), "memmove source region readable");
  __CPROVER_precondition(__CPROVER_w_ok(dest, n), "memmove destination region writeable");
  char *d = (char *)dest; const char *s = (const char *)src;
  if (!__CPROVER_same_object(dest, src) || __CPROVER_POINTER_OFFSET(dest) <= __CPROVER_POINTER_OFFSET(src)) {
    for (size_t i = 0; i < n; i++) d[i] = s[i];
  } else {
    for (size_t i = n; i > 0; i--) d[i - 1] = s[i - 1];
  }
  return dest;
}
#endif
