/* C layout of asl::String (include/asl/String.h: int _size,_len; union{char _space[16]; char* _str;}).
   The layout is re-checked against the real header by replay/layout_check.cpp on every run. */
#ifndef VF_STRING_H
#define VF_STRING_H
#include "vf_base.h"
#define ASL_STR_SPACE 16
typedef struct String {
  int _size, _len;
  union { char _space[ASL_STR_SPACE]; char* _str; };
} String;

/* str() : String.h  "(_size == 0) ? _space : _str" -- spec-side macro (pure expression) */
#define STR(s) ((s)._size == 0 ? (char*)(s)._space : (s)._str)
#define STRP(p) ((p)->_size == 0 ? (char*)(p)->_space : (p)->_str)
/* representation invariant */
#define WF_STRING_P(p) ( ((p)->_size == 0 && (p)->_len >= 0 && (p)->_len < ASL_STR_SPACE) || \
                         ((p)->_size > (p)->_len && (p)->_len >= 0 && __CPROVER_is_fresh((p)->_str, (p)->_size)) )
#define CAPP(p) ((p)->_size == 0 ? ASL_STR_SPACE : (p)->_size)
#endif
