/* Proleptic Gregorian calendar.  Day numbers count from 1970-01-01 = 0 (ECMA-262 21.4.1: Day(t) = floor(t / 86400 s)). */
#ifndef VF_SPEC_DATE_H
#define VF_SPEC_DATE_H
/* mathematical floor division by a positive constant */
#define SPEC_FLOORDIV(a, b) ((a) >= 0 ? (a) / (b) : -((-(a) + (b) - 1) / (b)))
/* ECMA-262 DayFromYear(y): number of days from 1970-01-01 to y-01-01 (leap years: divisible by 4, not by 100 unless by 400) */
#define SPEC_DAYS_FROM_YEAR(y) (365 * ((y) - 1970) + SPEC_FLOORDIV((y) - 1969, 4) - SPEC_FLOORDIV((y) - 1901, 100) + SPEC_FLOORDIV((y) - 1601, 400))
#define SPEC_IS_LEAP(y) ((y) % 4 == 0 && ((y) % 100 != 0 || (y) % 400 == 0))
#define SPEC_DAY_MIN (-719162)   /* 0001-01-01 */
#define SPEC_DAY_MAX 2932896     /* 9999-12-31 */
/* days before month m (1..13) in a common / leap year */
static const int SPEC_CUM_DAYS[2][14] = { {0, 0, 31, 59, 90, 120, 151, 181, 212, 243, 273, 304, 334, 365},
                                          {0, 0, 31, 60, 91, 121, 152, 182, 213, 244, 274, 305, 335, 366} };
#endif
