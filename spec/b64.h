/* RFC 4648 section 4 (Base 64 encoding), as pure C expressions.  k = index of an output character. */
#ifndef VF_SPEC_B64_H
#define VF_SPEC_B64_H
/* Table 1: the Base 64 alphabet */
/* (a table, not nested conditionals: every use of the argument is textually copied, and CBMC's
   dereference rewriting is exponential in the nesting depth) */
static const char SPEC_B64_TABLE[65] = "ABCDEFGHIJKLMNOPQRSTUVWXYZ" "abcdefghijklmnopqrstuvwxyz" "0123456789" "+/";
#define SPEC_B64_ALPHA(v) (SPEC_B64_TABLE[v])
#define SPEC_B64_BYTE(d, n, j) ((j) < (n) ? (unsigned)(d)[j] : 0u)
/* the 24-bit group that contains output character k */
#define SPEC_B64_GROUP(d, n, k) ((SPEC_B64_BYTE(d, n, 3 * ((k) / 4)) << 16) | (SPEC_B64_BYTE(d, n, 3 * ((k) / 4) + 1) << 8) | SPEC_B64_BYTE(d, n, 3 * ((k) / 4) + 2))
#define SPEC_B64_SEXTET(d, n, k) ((SPEC_B64_GROUP(d, n, k) >> (18 - 6 * ((k) % 4))) & 63u)
/* without padding (what the main loop writes) */
#define SPEC_B64_RAW(d, n, k) SPEC_B64_ALPHA(SPEC_B64_SEXTET(d, n, k))
/* padding: a final group of 1 input byte gives 2 chars + "==", of 2 bytes gives 3 chars + "=" */
#define SPEC_B64_ISPAD(n, k) ((((k) % 4) >= 2 && 3 * ((k) / 4) + 1 >= (n)) || (((k) % 4) == 3 && 3 * ((k) / 4) + 2 >= (n)))
#define SPEC_B64(d, n, k) (SPEC_B64_ISPAD(n, k) ? '=' : SPEC_B64_RAW(d, n, k))
#define SPEC_B64_LEN(n) (4 * (((n) + 2) / 3))
#endif
