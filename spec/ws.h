/* RFC 6455 section 5.2 (base framing protocol), as pure C expressions.
   A frame: byte 0 = FIN|RSV|opcode; byte 1 = MASK bit | 7-bit length code; then 0, 2 or 8 bytes of extended payload length in
   network byte order (126: 16-bit unsigned, used for 126..65535; 127: 64-bit, used for >= 65536); then the 4-byte masking key
   if MASK is set; then the payload, octet i XOR key[i mod 4]. */
#ifndef VF_SPEC_WS_H
#define VF_SPEC_WS_H
#define SPEC_WS_LENCODE(len) ((len) <= 125 ? (len) : (len) <= 65535 ? 126 : 127)
#define SPEC_WS_EXTLEN(len)  ((len) <= 125 ? 0 : (len) <= 65535 ? 2 : 8)
#define SPEC_WS_HDRLEN(len, masked) (2 + SPEC_WS_EXTLEN(len) + ((masked) ? 4 : 0))
/* byte i (>= 2) of the header: extended length big-endian, then masking key big-endian as transmitted */
#define SPEC_WS_EXT_BYTE(len, i) ((unsigned char)(((unsigned long long)(len)) >> (8 * (SPEC_WS_EXTLEN(len) - 1 - ((i) - 2)))))
#define SPEC_WS_KEY_BYTE(key, j) ((unsigned char)(((unsigned)(key)) >> (8 * (3 - (j)))))
#define SPEC_WS_HDR_BYTE(opcode, len, masked, key, i) ((unsigned char)( \
   (i) == 0 ? (0x80 | (opcode)) : \
   (i) == 1 ? (((masked) ? 0x80 : 0) | SPEC_WS_LENCODE(len)) : \
   (i) < 2 + SPEC_WS_EXTLEN(len) ? SPEC_WS_EXT_BYTE(len, i) : SPEC_WS_KEY_BYTE(key, (i) - 2 - SPEC_WS_EXTLEN(len))))
#endif
