/* Unicode 15, chapter 3: D92 (UTF-8, table 3-6), D91 (UTF-16, table 3-5), scalar values (D76). Pure C expressions. */
#ifndef VF_SPEC_UTF_H
#define VF_SPEC_UTF_H
#define SPEC_IS_SCALAR(c) (((c) >= 0 && (c) <= 0xD7FF) || ((c) >= 0xE000 && (c) <= 0x10FFFF))
/* table 3-6: number of bytes */
#define SPEC_UTF8_LEN(c) ((c) < 0x80 ? 1 : (c) < 0x800 ? 2 : (c) < 0x10000 ? 3 : 4)
/* table 3-6: byte i of the encoding of scalar value c (as unsigned 0..255) */
#define SPEC_UTF8_BYTE(c, i) ((unsigned)( \
   (c) < 0x80    ? (c) : \
   (c) < 0x800   ? ((i) == 0 ? (0xC0 | ((c) >> 6))  : (0x80 | ((c) & 0x3F))) : \
   (c) < 0x10000 ? ((i) == 0 ? (0xE0 | ((c) >> 12)) : (i) == 1 ? (0x80 | (((c) >> 6) & 0x3F)) : (0x80 | ((c) & 0x3F))) : \
                   ((i) == 0 ? (0xF0 | ((c) >> 18)) : (i) == 1 ? (0x80 | (((c) >> 12) & 0x3F)) : (i) == 2 ? (0x80 | (((c) >> 6) & 0x3F)) : (0x80 | ((c) & 0x3F)))))
/* table 3-5: UTF-16 */
#define SPEC_UTF16_LEN(c) ((c) < 0x10000 ? 1 : 2)
#define SPEC_UTF16_UNIT(c, i) ((unsigned)((c) < 0x10000 ? (c) : (i) == 0 ? (0xD800 + (((c) - 0x10000) >> 10)) : (0xDC00 + (((c) - 0x10000) & 0x3FF))))
#endif
