/* Canonical byte orders.  Byte i (0-based, in stream order) of a size-byte unsigned value v. */
#ifndef VF_SPEC_ENDIAN_H
#define VF_SPEC_ENDIAN_H
enum Endian { ENDIAN_BIG, ENDIAN_LITTLE, ENDIAN_NATIVE };
#define ASL_OTHER_ENDIAN ENDIAN_BIG            /* include/asl/defs.h, host is little-endian (checked by pre_checks) */
#define SPEC_BE_BYTE(v, size, i) ((unsigned char)(((unsigned long long)(v)) >> (8 * ((size) - 1 - (i)))))
#define SPEC_LE_BYTE(v, size, i) ((unsigned char)(((unsigned long long)(v)) >> (8 * (i))))
/* ENDIAN_NATIVE is the host order: little-endian on the pinned x86-64 */
#define SPEC_ORDER_BYTE(v, size, order, i) ((unsigned char)(((unsigned long long)(v)) >> (8 * ((order) == ENDIAN_BIG ? (size) - 1 - (i) : (i)))))
#endif
