/* FIPS 180-4 section 4.1.1 (SHA-1 functions), 4.2.1 (constants), 6.1.2 / 6.1.3 (message schedule, one step). */
#ifndef VF_SPEC_SHA1_H
#define VF_SPEC_SHA1_H
#include <stdint.h>
#define SPEC_ROTL(x, n) ((uint32_t)(((uint32_t)(x) << (n)) | ((uint32_t)(x) >> (32 - (n)))))
#define SPEC_CH(x, y, z)     ((uint32_t)(((x) & (y)) ^ (~(x) & (z))))
#define SPEC_PARITY(x, y, z) ((uint32_t)((x) ^ (y) ^ (z)))
#define SPEC_MAJ(x, y, z)    ((uint32_t)(((x) & (y)) ^ ((x) & (z)) ^ ((y) & (z))))
#define SPEC_F(t, x, y, z) ((t) < 20 ? SPEC_CH(x, y, z) : (t) < 40 ? SPEC_PARITY(x, y, z) : (t) < 60 ? SPEC_MAJ(x, y, z) : SPEC_PARITY(x, y, z))
#define SPEC_K(t) ((uint32_t)((t) < 20 ? 0x5a827999u : (t) < 40 ? 0x6ed9eba1u : (t) < 60 ? 0x8f1bbcdcu : 0xca62c1d6u))
/* one step:  T = ROTL5(a) + f_t(b,c,d) + e + K_t + W_t ; e=d; d=c; c=ROTL30(b); b=a; a=T */
#define SPEC_T(t, a, b, c, d, e, w) ((uint32_t)(SPEC_ROTL(a, 5) + SPEC_F(t, b, c, d) + (e) + SPEC_K(t) + (w)))
/* big-endian word i of a 64-byte block */
#define SPEC_BE32(p, i) (((uint32_t)(p)[4 * (i)] << 24) | ((uint32_t)(p)[4 * (i) + 1] << 16) | ((uint32_t)(p)[4 * (i) + 2] << 8) | (uint32_t)(p)[4 * (i) + 3])
#endif
