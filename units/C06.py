"""C06 - JSON/XDL decoding: one character step of XdlParser::parse (src/Xdl.cpp)"""
from vf.core import Unit, Cut, ifdef_rule
from vf import replay

X, S = 'src/Xdl.cpp', 'src/String.cpp'
MEMBERS = ('_state', '_prevState', '_inComment', '_unicodeCount', '_ldp', '_unicode', '_wchar')

STEP_RULES = [
    ifdef_rule('ASL_FAST_JSON', False),
    (r'\bcontinue;', 'return;', None), (r'\bs--;', 'g_pushback++;', None),
    (r'(?<![\w.>)\]])\*\s*s\b(?!\s*[-+]{2})', '*VF_PEEK(s)', None),
    (r'_context\.top\(\)', 'CTX_TOP()', None), (r'_context\.pop\(\);', 'CTX_POP();', None), (r'_context << (\w+);', r'CTX_PUSH(\1);', None),
    # decimal-point patch loop on the buffer (locale): replaced by a stub, must fire twice (NUMBER_EV and NUMBER)
    (r'for\s*\(char\* p = _buffer\.data\(\); \*p; p\+\+\)\s*if \(\*p == \'\.\'\)\s*\{\s*\*p = _ldp;\s*break;\s*\}', 'BUF_FIX_DP();', None),
    (r'new_number\(ASL_ATOF\(_buffer\)\);', 'new_value();', None), (r'new_number\(myatoiz\(_buffer\)\);', '{ g_int_digits = g_buflen; VF_MYATOIZ_PRE(); new_value(); }', None),
    (r'new_string\(_buffer\);', '{ g_string_done = 1; new_value(); }', None), (r'new_property\(_buffer\);', '{ g_key_done = 1; new_property(); }', None),
    (r'new_bool\([^;]*\);', 'new_value();', None), (r'put\(Var::NUL\);', 'new_value();', None), (r'begin_object\(_buffer\);', 'begin_object();', None),
    (r'_buffer\s*=\s*"";', 'BUF_CLEAR();', None), (r'_buffer\.fix\(0\);', 'BUF_FIX0();', None), (r'_buffer\.clear\(\);', 'BUF_CLEAR();', None), (r'_buffer << ch;', 'BUF_APPEND_STR(ch);', None), (r"_buffer << '(\\?.)';", r"BUF_APPEND('\1');", None), (r'_buffer << c;', 'BUF_APPEND(c);', None),
    (r'_buffer\s*==\s*("[^"]*")', r'BUF_EQ(\1)', None), (r"_buffer != '-'", "!(g_buflen == 1 && g_buf[0] == '-')", None),
    (r'_buffer\[(\d)\]', r'BUF_AT(\1)', None), (r'_buffer\.length\(\)', 'g_buflen', None),
    (r'\(wchar_t\)strtoul\(unicode, NULL, 16\)', '(wchar_t)vf_hex4(unicode)', None),
    (r'State\(\(CTX_TOP\(\) == ROOT\) \? WAIT_VALUE : WAIT_SEP\)', '(State)((CTX_TOP() == ROOT) ? WAIT_VALUE : WAIT_SEP)', None),
    (r'(?<![\w)])State\(', '(State)(', None),      # any other functional cast to State
]

def parser_cuts():
    return [
        Cut('states', X, r'^enum StateN \{', kind='stmt'), Cut('contexts', X, r'^enum ContextN \{', kind='stmt'),
        Cut('isspace', 'include/asl/defs.h', r'^inline bool myisspace\(char c\)\s*$'), Cut('isalnum', 'include/asl/defs.h', r'^inline bool myisalnum\(char c\)\s*$'),
        Cut('utf16toUtf8', S, r'^int utf16toUtf8\(const wchar_t\* p, char\* u, int n\)\s*$'),
        Cut('value_end', X, r'^inline void XdlParser::value_end\(\)\s*$', members=MEMBERS, rules=STEP_RULES),
        Cut('step', X, r'^\twhile\(char c=\*s\+\+\)\s*$', members=MEMBERS, methods={'value_end': 'value_end'}, rules=STEP_RULES, common=True),
    ]

PARSER_C = r'''
#include "vf_base.h"
@@states@@
@@contexts@@
#include "vf_xdl.h"
Context g_c0, g_c1, g_c2; int g_cd, g_pend; char g_buf[VF_BUFCAP]; int g_buflen;
int g_lists_pushed, g_lists_popped, g_props_pushed, g_values, g_pushback, g_int_digits, g_string_done, g_key_done;
/* the characters after the current one: they may still be in a later chunk, so a step must neither read them nor move past them (s is outside every assigns clause) */
char g_rest[4]; const char* s = g_rest;
#define VF_PEEK(p) (__CPROVER_assert(0, "the step does not look at later characters (they may be in the next chunk)"), (p))
typedef struct XdlParser { State _state, _prevState; bool _inComment; int _unicodeCount; char _ldp; char _unicode[4]; wchar_t _wchar; } XdlParser;
static bool myisspace(char c) @@isspace@@
static bool myisalnum(char c) @@isalnum@@
static int utf16toUtf8(const wchar_t* p, char* u, int n) @@utf16toUtf8@@
static void BUF_FIX_DP(void) {}
/* myatoiz (C03: computes in int without overflow checks) is only correct for text whose value fits an int: at most 9 digits after an optional '-' always does */
#define VF_MYATOIZ_PRE() __CPROVER_assert(g_buflen - ((g_buflen >= 1 && g_buf[0] == '-') ? 1 : 0) <= 9, "integer token handed to myatoiz has at most 9 digits (longer ones must take the double path)")
unsigned nondet_unsigned(void);
/* strtoul(t, NULL, 16) on a 4-character buffer (libc, trusted): the value of its hex digits; anything when they are not all hex digits */
#define HEXV(x) ((x) >= '0' && (x) <= '9' ? (x) - '0' : (x) >= 'a' && (x) <= 'f' ? (x) - 'a' + 10 : (x) >= 'A' && (x) <= 'F' ? (x) - 'A' + 10 : -1)
static unsigned vf_hex4(const char* t) { int a = HEXV(t[0]), b = HEXV(t[1]), c = HEXV(t[2]), d = HEXV(t[3]);
  if (a >= 0 && b >= 0 && c >= 0 && d >= 0) return (unsigned)(a << 12 | b << 8 | c << 4 | d);
  unsigned v = nondet_unsigned(); __CPROVER_assume(v <= 0xffff); return v; }
static void value_end(XdlParser* self) @@value_end@@
/* one iteration of  while(char c=*s++)  in XdlParser::parse */
static void XdlParser_step(XdlParser* self, char c) @@step@@
/* --- the representation invariant of the parser (what every step may assume and must re-establish) --- */
#define IS_CMT(x) ((x) == COMMENT1 || (x) == COMMENT || (x) == LINECOMMENT || (x) == ENDCOMMENT)
#define IS_CONT(x) ((x) == ARRAY || (x) == OBJECT)
#define VALID_STATE(s) ((s) >= NUMBER && (s) <= WAIT_COMMA_OR_VALUE)
/* stack shape: ROOT at the bottom only; containers above it; at most ENDCOMMENT-over-COMMENT or one comment marker on top; inComment <=> a marker is on top */
#define INV_STACK ( g_cd >= 1 && (g_cd == 1 ? g_c0 == ROOT : (g_c0 != ROOT)) && (g_cd == 2 ? g_c1 == ROOT : (g_cd > 2 ==> g_c1 != ROOT)) && (g_cd == 3 ? g_c2 == ROOT : (g_cd > 3 ==> g_c2 != ROOT)) \
   && (IS_CMT(g_c0) || IS_CONT(g_c0) || g_c0 == ROOT) \
   && (g_c0 == ENDCOMMENT ==> (g_cd >= 3 && g_c1 == COMMENT && (IS_CONT(g_c2) || g_c2 == ROOT))) \
   && ((g_c0 != ENDCOMMENT && IS_CMT(g_c0)) ==> (g_cd >= 2 && (IS_CONT(g_c1) || g_c1 == ROOT) && (g_cd >= 3 ==> (IS_CONT(g_c2) || g_c2 == ROOT)))) \
   && (IS_CONT(g_c0) ==> (g_cd >= 2 && (IS_CONT(g_c1) || g_c1 == ROOT) && (g_cd >= 3 ==> (IS_CONT(g_c2) || g_c2 == ROOT)))) )
/* the innermost open container (below any comment markers) */
#define EC (IS_CMT(g_c0) ? (g_c0 == ENDCOMMENT ? g_c2 : g_c1) : g_c0)
#define KEY_STATE(s) ((s) == PROPERTY || (s) == QPROPERTY || (s) == WAIT_PROPERTY || (s) == WAIT_COMMA_OR_PROPERTY || (s) == WAIT_EQUAL)
/* in an object: is a member name pending in this state?  no while a name is awaited or being read and right after a value; yes from the end of the name until its value is placed */
#define NAME_STATE(s, p) ((s) == WAIT_PROPERTY || (s) == WAIT_COMMA_OR_PROPERTY || (s) == PROPERTY || (s) == QPROPERTY || (((s) == ESCAPE || (s) == UNICODECHAR) && (p) == QPROPERTY))
#define PEND_EXPECTED(self) ((NAME_STATE((self)->_state, (self)->_prevState) || (self)->_state == WAIT_SEP) ? 0 : 1)
#define INV(self) ( INV_STACK && (KEY_STATE((self)->_state) ==> EC == OBJECT) \
   && (((self)->_state == ESCAPE || (self)->_state == UNICODECHAR) ==> ((self)->_prevState == STRING || ((self)->_prevState == QPROPERTY && EC == OBJECT))) \
   && ((self)->_state == WAIT_SEP ==> EC != ROOT) && ((self)->_state == WAIT_COMMA_OR_VALUE ==> EC == ARRAY) && ((self)->_state == WAIT_OBJ ==> true) \
   && ((self)->_state == INT ==> (g_buflen >= 1 && (g_buf[0] == '-' ==> g_buflen >= 2))) \
   && ((self)->_inComment == IS_CMT(g_c0)) && VALID_STATE((self)->_state) && VALID_STATE((self)->_prevState) \
   && (self)->_unicodeCount >= 0 && (self)->_unicodeCount < 8 && g_buflen >= 0 \
   && ((self)->_unicodeCount >= 4 ==> ((self)->_wchar >= 0xd800 && (self)->_wchar < 0xdc00)) \
   && (((self)->_state != UNICODECHAR && (self)->_state != ERR) ==> ((self)->_unicodeCount == 0 || (self)->_unicodeCount == 4)) \
   && (g_buflen < VF_BUFCAP ==> g_buf[g_buflen] == 0) \
   && (g_pend == 0 || g_pend == 1) && (EC != OBJECT ==> g_pend == 0) \
   && ((EC == OBJECT && (self)->_state != ERR) ==> g_pend == PEND_EXPECTED(self)) )      /* _buffer is a String: its NUL sits at its length (begin_object / new_string read it as a C string) */
'''

step_safety = Unit(
    'XdlParser_step_any_byte', 'C06',
    cuts=parser_cuts(),
    text=PARSER_C + r'''
int g_cm0, g_cd0; State g_state0, g_prev0;   /* entry values: number of comment markers on top of the context stack, depth, state */
#define CMT_COUNT(x) (IS_CMT(x) ? ((x) == ENDCOMMENT ? 2 : 1) : 0)
void vf_step(XdlParser* self, char c)
__CPROVER_requires(__CPROVER_is_fresh(self, sizeof(XdlParser)) && c != 0 && INV(self))
__CPROVER_requires(g_state0 == self->_state && g_prev0 == self->_prevState && g_pushback == 0 && g_lists_pushed == 0 && g_lists_popped == 0 && g_buflen < 1000000 && g_cm0 == CMT_COUNT(g_c0) && g_cd0 == g_cd && g_cd <= 1000000 && 0 <= g_values && g_values <= 1000000 && 0 <= g_props_pushed && g_props_pushed <= 1000000)
/* for ANY byte in ANY reachable parser configuration: no stack underflow, no out-of-range index (checked inside), the invariant is re-established,
   a character is pushed back at most once and only into a state that consumes it, container opens/closes are paired with value-list pushes/pops */
__CPROVER_ensures(INV(self))
__CPROVER_ensures(g_pushback <= 1)
__CPROVER_ensures(g_pushback == 1 ==> (self->_state == WAIT_VALUE || self->_state == WAIT_SEP || self->_state == WAIT_EQUAL || self->_state == WAIT_OBJ))
__CPROVER_ensures((g_cd - CMT_COUNT(g_c0)) - (g_cd0 - g_cm0) == g_lists_pushed - g_lists_popped)
/* ingredients of prefix rejection: the number of open containers goes down only on a closing bracket, by one, and never on a character that is pushed back
   (so each input character closes at most one container); a string is left only at its closing quote (or into an escape / the error state) */
__CPROVER_ensures((g_cd - CMT_COUNT(g_c0)) < (g_cd0 - g_cm0) ==> ((c == ']' || c == '}') && (g_cd - CMT_COUNT(g_c0)) == (g_cd0 - g_cm0) - 1 && g_pushback == 0))
__CPROVER_ensures((g_state0 == STRING && c != '"') ==> (self->_state == STRING || self->_state == ESCAPE || self->_state == ERR))
/* an escape sequence (\\x or \\uXXXX), once complete, goes back to the state it was met in: a string value stays a value, a quoted member name stays a name */
__CPROVER_ensures(((g_state0 == ESCAPE || g_state0 == UNICODECHAR) && self->_state != ESCAPE && self->_state != UNICODECHAR && self->_state != ERR) ==> self->_state == g_prev0)
__CPROVER_assigns(*self, g_c0, g_c1, g_c2, g_cd, g_pend, g_buf, g_buflen, g_lists_pushed, g_lists_popped, g_props_pushed, g_values, g_pushback, g_int_digits, g_string_done, g_key_done)
{ XdlParser_step(self, c); }
void vf_harness(void) { XdlParser* p; char c; char r0, r1, r2; g_rest[0] = r0; g_rest[1] = r1; g_rest[2] = r2; g_rest[3] = 0; s = g_rest; vf_step(p, c); __CPROVER_assert(s == g_rest, "the step consumes exactly the character it was given"); VF_CANARY(); }
''',
    entry='vf_step', unwind=10, timeout=600,
    desc='one step of XdlParser::parse for EVERY byte and EVERY parser configuration satisfying the representation invariant: context stack never underflows (any nesting, comments anywhere), '
         'indices in range, invariant preserved (so by induction: total and memory-safe on any byte string), push-back at most once per character (termination), list pushes/pops paired with container contexts',
    functions=['XdlParser::parse (loop body)', 'XdlParser::value_end'],
    trusted=['Stack<Context> modelled by a 3-entry window + depth with the C01 contracts of top/pop/<<', 'String _buffer modelled by a 15-character buffer + length', 'strtoul on 4 hex digits returns <= 0xFFFF', 'Var value construction (put/new_*) replaced by counters'],
)
UNITS = [step_safety]

# the constructor establishes the invariant
init = Unit(
    'XdlParser_init', 'C06',
    cuts=parser_cuts() + [Cut('ctor', X, r'^XdlParser::XdlParser\(\)\s*$', members=MEMBERS,
                              rules=STEP_RULES + [(r'lconv\* loc = localeconv\(\);', '', 1), (r'\*loc->decimal_point', "'.'", 1), (r'_lists << Var\(Var::ARRAY\);', 'g_lists_pushed++;', 1)])],
    text=PARSER_C + r'''
void vf_harness(void) {
  XdlParser p; g_cd = 0; g_buflen = 0;
  { XdlParser* self = &p; @@ctor@@ }
  __CPROVER_assert(INV(&p), "the constructor establishes the parser invariant");
  __CPROVER_assert(p._state == WAIT_VALUE && g_cd == 1 && g_c0 == ROOT, "initial configuration: waiting for a value at the root");
  VF_CANARY();
}
''',
    entry=None, unwind=10, floor=2, expect=['assertion'],
    desc='XdlParser::XdlParser() establishes the invariant that every step preserves (base case of the induction over input bytes)',
    functions=['XdlParser::XdlParser'],
)
UNITS += [init]

# decoder side: the JSON two-character escapes (RFC 8259 section 7)
json_escapes = Unit(
    'json_escape_decode', 'C06',
    cuts=parser_cuts(),
    text=PARSER_C + r'''
int nondet_int(void);
void vf_harness(void) {
  int k = nondet_int(); __CPROVER_assume(0 <= k && k < 8);
  const char esc[8] = { '"', '\\', '/', 'b', 'f', 'n', 'r', 't' }, val[8] = { '"', '\\', '/', '\b', '\f', '\n', '\r', '\t' };
  int quotedkey = nondet_int(); __CPROVER_assume(quotedkey == 0 || quotedkey == 1);
  XdlParser p; p._state = p._prevState = quotedkey ? QPROPERTY : STRING; p._inComment = false; p._unicodeCount = 0; p._ldp = '.';
  g_cd = 2; g_c0 = OBJECT; g_c1 = ROOT; g_c2 = ROOT; g_buflen = 0; g_buf[0] = 0; g_pushback = 0;
  XdlParser_step(&p, '\\'); XdlParser_step(&p, esc[k]);
  __CPROVER_assert(p._state == (quotedkey ? QPROPERTY : STRING) && !p._inComment && g_pushback == 0, "after an escape the decoder is back in the same string / key");
  __CPROVER_assert(g_buflen == 1 && g_buf[0] == val[k], "the escape denotes the character RFC 8259 section 7 assigns to it");
  VF_CANARY();
}
''',
    entry=None, unwind=10, floor=3, expect=['assertion'],
    desc='each JSON two-character escape (\\" \\\\ \\/ \\b \\f \\n \\r \\t), in a string and in a quoted key, decodes to its character and returns to the string',
    functions=['XdlParser::parse (ESCAPE state)'],
)
UNITS += [json_escapes]

# value(): a value is handed out only from the initial configuration (no container or string open, no error).
# _lists is a counter in the ghost model: its length is the number of open containers + 1 (step postcondition 4), so _lists[0] needs length >= 1.
value_unit = Unit(
    'XdlParser_value', 'C06',
    cuts=parser_cuts() + [Cut('value', X, r'^Var XdlParser::value\(\) const\s*$', members=MEMBERS,
                              rules=STEP_RULES + [(r'Var v;', 'g_valid = 0;', 1), (r'return v;', 'return;', None),
                                                  (r'const Var& l = _lists\[0\];', '__CPROVER_assert(g_lists_len >= 1, "Array::operator[] index below length (_lists[0])"); int l_length = g_root_values;', 1),
                                                  (r'l\.length\(\)', 'l_length', None), (r'v = l\[l_length\s*-\s*1\];', '{ __CPROVER_assert(l_length - 1 >= 0, "Array::operator[] index (last root value)"); g_valid = 1; }', 1)])],
    text=PARSER_C + r'''
int g_valid, g_lists_len, g_root_values;
void XdlParser_value(XdlParser* self)
__CPROVER_requires(__CPROVER_is_fresh(self, sizeof(XdlParser)) && INV(self) && g_lists_len == g_cd - (IS_CMT(g_c0) ? (g_c0 == ENDCOMMENT ? 2 : 1) : 0) && 0 <= g_root_values && g_root_values <= 1000000)
/* a value comes out only when nothing is open: no container (the context stack holds ROOT alone), no string / token in progress, no comment, no error */
__CPROVER_ensures(g_valid ==> (g_cd == 1 && g_c0 == ROOT && self->_state == WAIT_VALUE && !self->_inComment && g_root_values >= 1))
__CPROVER_ensures((g_cd == 1 && self->_state == WAIT_VALUE && g_root_values >= 1) ==> g_valid)
__CPROVER_assigns(g_valid)
@@value@@
void vf_harness(void) { XdlParser* p; XdlParser_value(p); VF_CANARY(); }
''',
    entry='XdlParser_value', unwind=10,
    desc='XdlParser::value() in ANY configuration satisfying the invariant: a valid value is returned exactly when the context stack holds ROOT alone, the state is WAIT_VALUE and a root value exists; '
         'with the step postconditions (containers close only on a closing bracket, one per character; a string ends only at its quote) a text cut before the final closing character of a top-level array, object or string is rejected',
    functions=['XdlParser::value'],
    trusted=['_lists modelled by its length (= open containers + 1 by the step postcondition); the root list by its number of values'],
    planted=[('value', r'CTX_TOP\(\) == ROOT && ', '')],
)
UNITS += [value_unit]

# ---- container close / value placement: XdlParser::put(x) attaches a finished value to the innermost open container, naming it with the pending property name.
# Ghost model: _lists by (length, type of its top); _props by its length and its top element, a REAL String object (vf_string.h) whose heap text is released by pop();
# `top[key] = x` reads the key's text (stub KEY_SET), so a key that is used after the pop that destroyed it is a read of freed memory.
def string_ref_rule(text):
    """R10 for String locals bound to a stack entry:  `const String& n = E;` -> pointer to the entry;  `String n = E;` -> a copy (String copy constructor contract: own text)"""
    import re
    n = 0
    def ref(m):
        nonlocal n; n += 1
        return 'const String* %s = %s;' % (m.group(1), m.group(2))
    text = re.sub(r'const String&\s*(\w+)\s*=\s*([^;]+);', ref, text)
    def cp(m):
        nonlocal n; n += 1
        return 'String %s_v = STRING_COPY(%s); const String* %s = &%s_v;' % (m.group(1), m.group(2), m.group(1), m.group(1))
    text = re.sub(r'(?<!const )\bString\s+(\w+)\s*=\s*([^;]+);', cp, text)
    return text, n
def put_top_rule(text):
    """`Var& NAME = _lists.top();` and the uses of NAME (whatever it is called):  NAME.type() -> g_top_type,  NAME << x -> appended,  NAME[key] = x -> VF_TOP[key] = x"""
    import re
    m = re.search(r'Var&\s*(\w+)\s*=\s*_lists\.top\(\);', text)
    if not m:
        return text, 0
    n = m.group(1)
    text = text[:m.start()] + 'LISTS_TOP();' + text[m.end():]
    text = re.sub(r'\b%s\.type\(\)' % n, 'g_top_type', text)
    text = re.sub(r'\b%s << x;' % n, 'g_appended++;', text)
    text = re.sub(r'\b%s\[' % n, 'VF_TOP[', text)
    return text, 1
put_top_rule.must_fire = True
put_unit = Unit(
    'XdlParser_put', 'C06',
    cuts=[Cut('put', X, r'^void XdlParser::put\(const Var& x\)\s*$',
              rules=[put_top_rule, (r'\bVar::ARRAY\b', 'VAR_ARRAY', None), (r'\bVar::OBJ\b', 'VAR_OBJ', None),
                     (r'_props\.top\(\)', 'PROPS_TOP()', None), (r'_props\.pop\(\);', 'PROPS_POP();', None),
                     string_ref_rule, (r'VF_TOP\[([^\]]+)\] = x;', r'KEY_SET(\1);', 1)])],
    text=r'''
#include "vf_string.h"
enum { VAR_OTHER = 0, VAR_ARRAY = 1, VAR_OBJ = 2 };
int g_lists_len, g_top_type, g_props_len, g_appended, g_set, g_key_len; char g_key_first, g_name_first; int g_name_len;
String* g_prop_top;                      /* the top entry of Stack<String> _props (lives in the stack's storage) */
#define LISTS_TOP() __CPROVER_assert(g_lists_len >= 1, "Stack::top on an empty value-list stack")
static const String* PROPS_TOP(void) { __CPROVER_assert(g_props_len >= 1, "Stack::top on an empty property-name stack"); return g_prop_top; }
/* pop() destroys the entry: ~String releases its heap text (String::free) */
static void PROPS_POP(void) { __CPROVER_assert(g_props_len >= 1, "Stack::pop on an empty property-name stack"); if (g_prop_top->_size != 0) free(g_prop_top->_str); g_props_len--; }
/* top[key] = x : Var::operator[](const String&) reads the key's text */
static void KEY_SET(const String* key) { const char* t = STRP(key); g_key_first = t[0]; g_key_len = key->_len; __CPROVER_assert(t[key->_len] == 0, "key text is NUL-terminated at its length"); g_set++; }
static String STRING_COPY(const String* s) { String r; r._size = 0; r._len = s->_len < ASL_STR_SPACE ? s->_len : ASL_STR_SPACE - 1; r._space[0] = STRP(s)[0]; r._space[r._len] = 0; return r; }   /* (copy owns its text; only first character and a clipped length are modelled) */
void XdlParser_put(void)
__CPROVER_requires(0 <= g_lists_len && g_lists_len <= 1000000 && 0 <= g_props_len && g_props_len <= 1000000 && g_appended == 0 && g_set == 0)
__CPROVER_requires(__CPROVER_is_fresh(g_prop_top, sizeof(String)) && 1 <= g_prop_top->_len && g_prop_top->_len <= 100000)
__CPROVER_requires(g_prop_top->_len < ASL_STR_SPACE ? g_prop_top->_size == 0 : (g_prop_top->_size == g_prop_top->_len + 1 && __CPROVER_is_fresh(g_prop_top->_str, g_prop_top->_size)))
__CPROVER_requires(STRP(g_prop_top)[g_prop_top->_len] == 0 && g_name_first == STRP(g_prop_top)[0] && g_name_len == g_prop_top->_len)
/* reachable configurations (step invariant): a value list is open; inside an OBJECT a property name is pending */
__CPROVER_requires(g_lists_len >= 1 && (g_top_type == VAR_OBJ ==> g_props_len >= 1))
/* array: appended; object: stored under exactly the pending name (read while it is alive), which is then consumed; nothing else */
__CPROVER_ensures(g_top_type == VAR_ARRAY ==> (g_appended == 1 && g_set == 0 && g_props_len == __CPROVER_old(g_props_len)))
__CPROVER_ensures(g_top_type == VAR_OBJ ==> (g_set == 1 && g_appended == 0 && g_props_len == __CPROVER_old(g_props_len) - 1 && g_key_first == g_name_first && (g_key_len == g_name_len || g_name_len >= ASL_STR_SPACE)))
__CPROVER_assigns(g_appended, g_set, g_props_len, g_key_first, g_key_len)
__CPROVER_frees(g_prop_top->_str)
@@put@@
void vf_harness(void) { XdlParser_put(); VF_CANARY(); }
''',
    entry='XdlParser_put',
    desc='XdlParser::put: the finished value goes to the innermost open container; in an object it is stored under the pending property name, whose text (inline or heap, any length) is read '
         'before the name stack entry is destroyed, and exactly one name is consumed',
    functions=['XdlParser::put'],
    trusted=['Var::operator[] / operator<< are stubs (C04 is a separate property); Stack<String>::pop destroys the popped String'],
    planted=[('put', r'(KEY_SET\(PROPS_TOP\(\)\);)\s*(PROPS_POP\(\);)', r'const String* vf_n = PROPS_TOP(); \2 KEY_SET(vf_n);')],
)
UNITS += [put_unit]

# ---- XdlParser::decode(text) = parse(text); parse(" "); value(): the flush with a blank is unconditional - a document that ends inside a token
# (a number, or a bare true / false / null) is only completed by it
decode_unit = Unit(
    'XdlParser_decode', 'C06',
    cuts=parser_cuts() + [Cut('dec', X, r'^Var XdlParser::decode\(const char\* s\)\s*$', members=MEMBERS,
                              rules=[(r'(?<![\w.>])parse\(s\);', 'PARSE_TEXT();', 1), (r'(?<![\w.>])parse\(" "\);', 'PARSE_BLANK();', None), (r'return value\(\);', '{ g_valued = 1; return; }', 1)])],
    text=PARSER_C + r'''
int g_text_parsed, g_blank_parsed, g_valued;
static void PARSE_TEXT(void) { __CPROVER_assert(g_blank_parsed == 0, "the text is parsed before the flush"); g_text_parsed++; }
static void PARSE_BLANK(void) { __CPROVER_assert(g_text_parsed == 1, "the flush follows the text"); g_blank_parsed++; }
void XdlParser_decode(XdlParser* self)
__CPROVER_requires(__CPROVER_is_fresh(self, sizeof(XdlParser)) && g_text_parsed == 0 && g_blank_parsed == 0 && g_valued == 0)
/* whatever state the text leaves the parser in (inside a number, inside an identifier such as true / null, between values), one blank is fed before value() is asked */
__CPROVER_ensures(g_text_parsed == 1 && g_blank_parsed == 1 && g_valued == 1)
__CPROVER_assigns(g_text_parsed, g_blank_parsed, g_valued)
@@dec@@
void vf_harness(void) { XdlParser* p; XdlParser_decode(p); VF_CANARY(); }
''',
    entry='XdlParser_decode', unwind=10,
    desc='XdlParser::decode: parse(text), then ALWAYS one blank (which completes a trailing number or a bare true/false/null), then value()',
    functions=['XdlParser::decode'], trusted=['parse() by its step contract'],
)
UNITS += [decode_unit]

# ---- Json::decode / Xdl::decode: the result is a function of the text alone, so the parser that reads it must be in the state the CONSTRUCTOR establishes -
# a new parser per call, or a kept one brought back completely.  The constructor and reset() bodies are cut and run on a parser whose every field is arbitrary
# (what an earlier text may have left); compared are the fields the first character's handling depends on.
_ps_rules = [(r'lconv\* loc = localeconv\(\);', '', None), (r'_ldp = \*loc->decimal_point;', '', None),
             (r'_context\.clear\(\);', 'self->ctx_len = 0;', None), (r'_context << (\w+);', r'CTXPUSH(self, \1);', None),
             (r'_lists\.clear\(\);', 'self->lists_len = 0;', None), (r'_lists << Var\(Var::ARRAY\);', 'LISTPUSH(self);', None),
             (r'_props\.clear\(\);', 'self->props_len = 0;', None), (r'_buffer\s*=\s*"";', 'self->buf_len = 0;', None), (r'_buffer\.clear\(\);', 'self->buf_len = 0;', None)]
_dec_rules = [(r'(?<!thread_local )(?<!static )XdlParser parser;', 'P parser_; P* parser = &parser_; NEW_PARSER(parser);', None),
              (r'static thread_local XdlParser parser;|thread_local static XdlParser parser;|static XdlParser parser;|thread_local XdlParser parser;', 'P* parser = KEPT_PARSER();', None),
              (r'parser\.reset\(\);', 'XdlParser_reset(parser);', None), (r'return parser\.decode\(\w+\);', '{ DECODE(parser); return; }', 1)]
fresh_unit = Unit(
    'Json_decode_parser_state', 'C06',
    cuts=[Cut('states', X, r'^enum StateN \{', kind='stmt'), Cut('contexts', X, r'^enum ContextN \{', kind='stmt'),
          Cut('ctor', X, r'^XdlParser::XdlParser\(\)\s*$', members=MEMBERS, rules=_ps_rules),
          Cut('reset', X, r'^void XdlParser::reset\(\)\s*$', members=MEMBERS, rules=_ps_rules),
          Cut('jdec', X, r'^Var Json::decode\(const String& json\)\s*$', rules=_dec_rules),
          Cut('xdec', X, r'^Var Xdl::decode\(const String& xdl\)\s*$', rules=_dec_rules)],
    text=r'''
#include "vf_base.h"
@@states@@
@@contexts@@
typedef struct P { int _state, _prevState; bool _inComment; int _unicodeCount; char _ldp; char _unicode[4]; int _wchar;
                   int ctx_len, ctx0, lists_len, lists0_is_array, props_len, buf_len; } P;
typedef P XdlParser;
static void CTXPUSH(P* self, int c) { if (self->ctx_len == 0) self->ctx0 = c; if (self->ctx_len < 1000) self->ctx_len++; }
static void LISTPUSH(P* self) { if (self->lists_len == 0) self->lists0_is_array = 1; if (self->lists_len < 1000) self->lists_len++; }
static void XdlParser_ctor(P* self) @@ctor@@
static void XdlParser_reset(P* self) @@reset@@
P g_kept; int g_decodes;
/* a parser object as the language creates it: members default-constructed (empty stacks, empty string), scalars indeterminate, then the constructor body */
static void NEW_PARSER(P* p) { P fresh; fresh.ctx_len = 0; fresh.lists_len = 0; fresh.props_len = 0; fresh.buf_len = 0; *p = fresh; XdlParser_ctor(p); }
/* a parser kept between calls: whatever an earlier text left in it */
static P* KEPT_PARSER(void) { return &g_kept; }
static void DECODE(P* p) {
  P ref; NEW_PARSER(&ref);
  __CPROVER_assert(p->ctx_len == ref.ctx_len && (p->ctx_len == 0 || p->ctx0 == ref.ctx0), "decode starts with the context stack of a new parser");
  __CPROVER_assert(p->_state == ref._state, "decode starts in the state of a new parser");
  __CPROVER_assert(p->_inComment == ref._inComment, "decode does not start inside a comment left by an earlier text");
  __CPROVER_assert(p->_unicodeCount == ref._unicodeCount, "decode does not start inside a \\u escape left by an earlier text");
  __CPROVER_assert(p->lists_len == ref.lists_len && (p->lists_len == 0 || p->lists0_is_array == ref.lists0_is_array), "decode starts with the value stack of a new parser");
  __CPROVER_assert(p->props_len == ref.props_len, "decode starts with no pending property names");
  __CPROVER_assert(p->buf_len == ref.buf_len, "decode starts with an empty token buffer");
  g_decodes++; }
static void Json_decode(void) @@jdec@@
static void Xdl_decode(void) @@xdec@@
void vf_harness(void) {
  /* g_kept: every field arbitrary (nondet static lifetime object) */
  P any; g_kept = any; __CPROVER_assume(g_kept.ctx_len >= 0 && g_kept.ctx_len <= 1000 && g_kept.lists_len >= 0 && g_kept.lists_len <= 1000 && g_kept.props_len >= 0 && g_kept.buf_len >= 0);
  Json_decode(); Xdl_decode();
  __CPROVER_assert(g_decodes == 2, "both entry points hand the text to a parser");
  VF_CANARY();
}
''',
    entry=None, unwind=3, floor=8, expect=['assertion'],
    planted=[('ctor', r'self->_inComment = false;', '')],
    desc='Json::decode and Xdl::decode hand the text to a parser that is, field by field (context stack, state, comment flag, \\u counter, value stack, pending names, token buffer), in the state '
         'the constructor establishes - a new object per call, or a kept one that reset() brings back completely from ANY earlier state',
    functions=['Json::decode', 'Xdl::decode', 'XdlParser::XdlParser', 'XdlParser::reset'],
    trusted=['Stack/String members abstracted to their length and first element', '_prevState, _wchar, _unicode[] are not compared: each is written before it is read (lines 357/389, 614, 587 of Xdl.cpp)'],
)
UNITS += [fresh_unit]

for _u in UNITS:
    if not _u.replay:
        _u.replay = replay.battery('C05/driver.cpp', ['battery'])    # shared JSON/XDL driver
