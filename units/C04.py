"""C04 - Var (include/asl/Var.h, src/Var.cpp)"""
from vf.core import Unit, Cut
from vf import replay

VH, VC = 'include/asl/Var.h', 'src/Var.cpp'
PRE = r'''
#include "vf_base.h"
int g_k;
#define VAR_SSPACE 8
/* enum Type of Var.h (checked against the header by the 'types' cut) */
@@types@@
/* layout (64-bit): Type _type; union { double _d; int _i; bool _b; Array<Var> _a; Dic _o; Array<char> _s; char _ss[8]; }  - an Array handle is one pointer.
   The heap string Array<char> _s is modelled by its buffer pointer; its operations are the C01 contracts:
     construct(Array<char>(n)) : fresh buffer of n chars (capacity >= max(n,3));  resize(m): length m, may move;  destroy(): released once */
typedef struct Var { int _type; union { char* _s; double _d; int _i; bool _b; char _ss[VAR_SSPACE]; }; } Var;   /* pointer member first: CBMC keeps pointer provenance only through a union whose representative member can hold one */
int g_slen, g_scap, g_sfreed, g_snew;
static void S_CONSTRUCT(Var* v, int n) { __CPROVER_assert(n >= 0, "Array<char>(n): n >= 0"); g_scap = n > 3 ? n : 3; v->_s = malloc(g_scap); __CPROVER_assume(v->_s != 0); g_slen = n; g_snew++; }
static void S_RESIZE(Var* v, int m) { __CPROVER_assert(m >= 0, "Array::resize: m >= 0"); if (m > g_scap) { char* q = malloc(m); __CPROVER_assume(q != 0); for (int i = 0; i < g_slen && i < 12; i++) q[i] = v->_s[i]; free(v->_s); v->_s = q; g_scap = m; } g_slen = m; }
static void S_DESTROY(Var* v) { free(v->_s); g_sfreed++; }
'''
TYPES = lambda: Cut('types', VH, r'^\tenum Type \{', kind='stmt', rules=[(r'^\tenum Type', 'enum Type', 1)])
FREE = lambda: Cut('free', VC, r'^void Var::free\(\)\s*$', members=('_type', '_s', '_a', '_o'),
                   rules=[(r'DEL_STRING\(_s\);', 'S_DESTROY(self);', 1), (r'DEL_ARRAY\(_a\);', 'g_other_freed++;', 1), (r'DEL_DIC\(_o\);', 'g_other_freed++;', 1)])

assign_string = Unit(
    'Var_assign_String', 'C04',
    cuts=[TYPES(), FREE(), Cut('as', VC, r'^void Var::operator=\(const String& x\)\s*$', members=('_type', '_ss'), methods={'free': 'Var_free'},
          rules=[(r'x\.length\(\)', 'x_len', 1), (r'\*x\b', 'x_str', None), (r'\bType t\b', 'int t', 1),
                 (r'_s->resize\(([^;]*)\);', r'S_RESIZE(self, \1);', None), (r'_s->data\(\)', 'self->_s', None), (r'NEW_STRINGC\(_s, ([^;]*)\);', r'S_CONSTRUCT(self, \1);', None)])],
    text=PRE + r'''
int g_other_freed;
static void Var_free(Var* self) @@free@@
void Var_assign_String(Var* self, const char* x_str, int x_len)
__CPROVER_requires(__CPROVER_is_fresh(self, sizeof(Var)) && 0 <= x_len && x_len <= 12 && __CPROVER_is_fresh(x_str, 13) && x_str[x_len] == 0)
__CPROVER_requires(self->_type == NONE || self->_type == NUL || self->_type == NUMBER || self->_type == BOOL || self->_type == INT || self->_type == FLOAT || self->_type == SSTRING || self->_type == STRING)
#if TARGET_HEAP
__CPROVER_requires(self->_type == STRING && 1 <= g_slen && g_slen <= 12 && g_scap == 12 && __CPROVER_is_fresh(self->_s, 12))
#else
__CPROVER_requires(self->_type != STRING)
#endif
__CPROVER_requires(0 <= g_k && g_k <= x_len && g_sfreed == 0 && g_snew == 0)
/* the Var now is a string with exactly the assigned bytes: inline (< 8 characters unless it already was a heap string) or on the heap, NUL-terminated */
__CPROVER_ensures(self->_type == SSTRING || self->_type == STRING)
__CPROVER_ensures(self->_type == SSTRING ==> (x_len < VAR_SSPACE && self->_ss[g_k] == x_str[g_k]))
__CPROVER_ensures(self->_type == STRING ==> (g_slen == x_len + 1 && self->_s[g_k] == x_str[g_k]))
__CPROVER_ensures((__CPROVER_old(self->_type) != STRING && x_len >= VAR_SSPACE) ==> self->_type == STRING)
#if TARGET_HEAP
__CPROVER_assigns(*self, g_slen, g_scap, g_sfreed, g_snew, g_other_freed, __CPROVER_object_whole(self->_s))
__CPROVER_frees(self->_s)
#else
__CPROVER_assigns(*self, g_slen, g_scap, g_sfreed, g_snew, g_other_freed)
#endif
@@as@@
void vf_harness(void) { Var* v; const char* s; int n; Var_assign_String(v, s, n); VF_CANARY(); }
''',
    entry='Var_assign_String', unwind=14, variants={'target_scalar_or_inline': ['-DTARGET_HEAP=0'], 'target_heap': ['-DTARGET_HEAP=1']}, kind='bounded', bound='assigned string of at most 12 characters (crosses the 7/8 inline boundary); every scalar/string target',
    desc='Var::operator=(const String&): for every target kind and every string up to 12 characters the Var becomes a string with exactly those bytes; the 8-byte inline buffer is never overrun',
    functions=['Var::operator=(const String&)', 'Var::free'],
    trusted=['Array<char> heap string modelled by the C01 contracts of construct/resize/destroy'],
)

# operator== on string kinds
eq_strings = Unit(
    'Var_eq_strings', 'C04',
    cuts=[TYPES(), Cut('eq', VH, r'^\tbool operator==\(const Var& other\) const\s*$', members=('_type', '_ss', '_d', '_i', '_b'),
          rules=[(r'\bstrcmp\(', 'vf_strcmp(', None), (r'other\._s->data\(\)', 'other_p->_s', None), (r'_s->data\(\)', 'self->_s', None), (r'other\.', 'other_p->', None),
                 (r'double x = \*this;\s*return other == x;', 'return Var_eq_number(self, other_p);', 1),
                 (r'return \*_a==\*other_p->_a;', 'return nondet_bool();', 1), (r'return \*_o == \*other_p->_o;', 'return nondet_bool();', 1)])],
    text=PRE + r'''
bool nondet_bool(void);
/* ISO C strcmp executed literally (specification stub): difference of the first differing bytes as unsigned char, 0 if equal up to the NUL */
static int vf_strcmp(const char* a, const char* b) { for (int i = 0; ; i++) { unsigned char x = (unsigned char)a[i], y = (unsigned char)b[i]; if (x != y) return (int)x - (int)y; if (x == 0) return 0; } }
static bool Var_eq_number(Var* self, Var* other_p) { return nondet_bool(); }   /* numeric comparison: not part of this unit */
#define TXT(v) ((v)->_type == SSTRING ? (v)->_ss : (v)->_s)
#if KA == 0
#define A(i) (self->_ss[i])
#else
#define A(i) (self->_s[i])
#endif
#if KB == 0
#define B(i) (other_p->_ss[i])
#else
#define B(i) (other_p->_s[i])
#endif
#define NULBEFORE(i) (((i) > 0 && A(0) == 0) || ((i) > 1 && A(1) == 0) || ((i) > 2 && A(2) == 0))
/* texts agree at index g_k unless a NUL came earlier;  ALLSAME: they agree at every index up to the first NUL */
#define SAMEPREFIX (NULBEFORE(g_k) || A(g_k) == B(g_k))
#define ALLSAME ((A(0) == B(0)) && (NULBEFORE(1) || A(1) == B(1)) && (NULBEFORE(2) || A(2) == B(2)) && (NULBEFORE(3) || A(3) == B(3)))
#define ISSTR(v) ((v)->_type == SSTRING || (v)->_type == STRING)
bool Var_eq(Var* self, Var* other_p)
__CPROVER_requires(__CPROVER_is_fresh(self, sizeof(Var)) && __CPROVER_is_fresh(other_p, sizeof(Var)))
__CPROVER_requires(ISSTR(self) && (ISSTR(other_p) || other_p->_type == NUL || other_p->_type == BOOL || other_p->_type == INT || other_p->_type == NONE))
/* a string is either inline (NUL within 8 bytes) or a heap buffer of 10 bytes holding a NUL-terminated text of ANY length < 10 (also short ones) */
#if KA == 0
__CPROVER_requires(self->_type == SSTRING && self->_ss[3] == 0)
#else
__CPROVER_requires(self->_type == STRING && __CPROVER_is_fresh(self->_s, 4) && self->_s[3] == 0)
#endif
#if KB == 0
__CPROVER_requires(other_p->_type == SSTRING && other_p->_ss[3] == 0)
#elif KB == 1
__CPROVER_requires(other_p->_type == STRING && __CPROVER_is_fresh(other_p->_s, 4) && other_p->_s[3] == 0)
#else
__CPROVER_requires(!ISSTR(other_p))
#endif
__CPROVER_requires(0 <= g_k && g_k < 4)
/* equal exactly when both are strings with the same text, whichever representation each one uses */
__CPROVER_ensures(!ISSTR(other_p) ==> !__CPROVER_return_value)
__CPROVER_ensures((ISSTR(other_p) && __CPROVER_return_value) ==> SAMEPREFIX)
__CPROVER_ensures((ISSTR(other_p) && ALLSAME) ==> __CPROVER_return_value)
__CPROVER_assigns()
@@eq@@
void vf_harness(void) { Var* a; Var* b; Var_eq(a, b); VF_CANARY(); }
''',
    entry='Var_eq', unwind=6, kind='bounded', bound='texts of at most 3 characters; inline or heap representation on either side (a heap string may hold a short text)',
    variants={'inline_inline': ['-DKA=0', '-DKB=0'], 'inline_heap': ['-DKA=0', '-DKB=1'], 'heap_inline': ['-DKA=1', '-DKB=0'], 'heap_heap': ['-DKA=1', '-DKB=1'], 'inline_other': ['-DKA=0', '-DKB=2'], 'heap_other': ['-DKA=1', '-DKB=2']},
    desc='Var::operator== on strings: inline vs heap representation on either side never matters, only the text does; a string never equals a non-string',
    functions=['Var::operator==(const Var&)'],
    trusted=['strcmp executed as its ISO C definition (byte loop stub)'],
)
UNITS = [assign_string, eq_strings]

# operator=(const Var&) where the source is an ELEMENT of the target array ("assigning to a Var one of its own elements")
# Var model with an Array<Var> handle; the element array lives in a C01 block (header + 2 elements); Array destructor = C01 contract
assign_element = Unit(
    'Var_assign_own_element', 'C04',
    cuts=[TYPES(),
          Cut('free', VC, r'^void Var::free\(\)\s*$', members=('_type',),
              rules=[(r'DEL_STRING\(_s\);', 'g_other++;', 1), (r'DEL_ARRAY\(_a\);', 'Array_dtor(self);', 1), (r'DEL_DIC\(_o\);', 'g_other++;', 1)]),
          Cut('asg', VC, r'^void Var::operator=\(const Var& v\)\s*$', members=('_type',), methods={'free': 'Var_free', 'isPod': 'Var_isPod'},
              rules=[(r'\bVar tmp\(v\);', 'VarE tmp; Var_copy_scalar(&tmp, v_p);', None), (r'this == &v', 'self == v_p', None), (r'&v\b', 'v_p', None), (r'sizeof\(v\)', 'sizeof(VarE)', None), (r'sizeof\(Var\)', 'sizeof(VarE)', None),
                     (r'\bv\._type\b', 'v_p->_type', None), (r'\bv\.isPod\(\)', 'Var_isPod(v_p)', None),
                     (r'_s->resize\(v\._s->length\(\)\);\s*memcpy\(_s->data\(\), v\._s->data\(\), v\._s->length\(\)\);', 'g_other++;', None),
                     (r'\(\*_a\) = \(\*v\._a\);', 'g_other++;', None), (r'\(\*_o\) = \(\*v\._o\);', 'g_other++;', None),
                     (r'NEW_STRINGC\(_s, v\._s->length\(\)\);\s*memcpy\(_s->data\(\), v\._s->data\(\), v\._s->length\(\)\);', 'g_other++;', None),
                     (r'NEW_ARRAYC\(_a, \*v\._a\);', 'g_other++;', None), (r'NEW_DICC\(_o, \*v\._o\);', 'g_other++;', None)],
              post=[(r'\A\{', '{ __CPROVER_assert(self->_a == ELEMS && v_p == ELEMS + g_j, "anchor"); self->_a = ELEMS; v_p = ELEMS + g_j; ', 1)])],
    text=r'''
#include "vf_base.h"
int g_k;
@@types@@
typedef struct VarE { int _type; union { struct VarE* _a; long long _bits; double _d; int _i; bool _b; char _ss[8]; }; } VarE;
typedef struct Data { int n, s; int rc; int pad; } Data;
char* g_block; int g_j, g_other, g_dtor;
#define BLK ((Data*)g_block)
#define ELEMS ((VarE*)(g_block + sizeof(Data)))
static bool Var_isPod(const VarE* self) { return (self->_type & 8) == 0; }                 /* Var.h: isPod() */
static void Var_copy_scalar(VarE* t, const VarE* v) { memcpy(t, v, sizeof(VarE)); }         /* Var(const Var&) for a plain-data source */
/* ~Array<Var>: C01 contract (unit Array_dtor): one reference less; block released and elements destroyed iff it was the last */
static void Array_dtor(VarE* self) { if (--BLK->rc == 0) { g_dtor += BLK->n; free(g_block); } }
static void Var_free(VarE* self) @@free@@
void Var_assign(VarE* self, const VarE* v_p)
__CPROVER_requires(__CPROVER_is_fresh(self, sizeof(VarE)) && __CPROVER_is_fresh(g_block, sizeof(Data) + 2 * sizeof(VarE)))
__CPROVER_requires(self->_type == ARRAY && self->_a == ELEMS && BLK->n == 2 && BLK->s == 3 - 1 + 1 - 1 + 1 && 1 <= BLK->rc && BLK->rc <= 1000 && 0 <= g_dtor && g_dtor < 1000)
__CPROVER_requires(0 <= g_j && g_j < 2 && v_p == ELEMS + g_j)
__CPROVER_requires(ELEMS[g_j]._type == INT || ELEMS[g_j]._type == NUMBER || ELEMS[g_j]._type == BOOL || ELEMS[g_j]._type == NUL || ELEMS[g_j]._type == SSTRING || ELEMS[g_j]._type == FLOAT)
/* the target ends up equal to the ENTRY value of its element, and gives up its reference to the array */
__CPROVER_ensures(self->_type == __CPROVER_old(ELEMS[g_j]._type) && self->_bits == __CPROVER_old(ELEMS[g_j]._bits))
__CPROVER_ensures(__CPROVER_was_freed(g_block) == (__CPROVER_old(BLK->rc) == 1))
__CPROVER_assigns(*self, __CPROVER_object_whole(g_block), g_other, g_dtor)
__CPROVER_frees(g_block)
@@asg@@
void vf_harness(void) { VarE* a; const VarE* v; Var_assign(a, v); VF_CANARY(); }
''',
    entry='Var_assign', unwind=4, kind='bounded', bound='array of 2 elements, source element of plain-data kind (int, number, bool, null, inline string)',
    desc='Var::operator=(const Var&) with the source being an element of the target array: no read of released storage, the target equals the entry value of the element, the array loses exactly one reference',
    functions=['Var::operator=(const Var&)', 'Var::free'],
    trusted=['~Array<Var> executed as its C01 contract; Var(const Var&) of a plain-data Var is a memcpy (Var.h)'],
)
UNITS += [assign_element]

# ---- Var::clone(): detach, then clone the children into the DETACHED storage.
# Typestate view of the result v: it starts as a handle sharing the original's storage (Var v(*this)); dup() gives it storage of its own;
# `foreach(x in container) x = x.clone()` overwrites elements of whatever storage v refers to at that moment - if that is still the shared storage, the original's
# children are replaced (and the later dup() copies handles to the very same sub-clones: original and clone share every nested container).
clone_unit = Unit(
    'Var_clone_order', 'C04',
    cuts=[TYPES(), Cut('cl', VC, r'^Var Var::clone\(\) const\s*$',
              rules=[(r'Var v\(\*this\);', 'g_private = 0; g_children_cloned = 0;', 1), (r'switch \(_type\)', 'switch (self_type)', 1),
                     (r'v\._(s|a|o)->dup\(\);', 'V_DUP();', None),
                     (r'foreach\s*\(Var& x, \*v\._(a|o)\)\s*x = x\.clone\(\);', 'V_CLONE_CHILDREN_IN_PLACE();', None), (r'return v;', 'return;', 1)])],
    text=r'''
#include "vf_base.h"
@@types@@
int g_private, g_children_cloned, g_wrote_shared;
static void V_DUP(void) { g_private = 1; }        /* Array/Dic/String dup(): v gets a private copy of the storage (C01 contract of dup) */
static void V_CLONE_CHILDREN_IN_PLACE(void) { if (!g_private) g_wrote_shared = 1;
  __CPROVER_assert(g_private, "children are replaced by their clones only in storage the clone owns (after dup): the original is const");
  g_children_cloned = 1; }
void Var_clone(int self_type)
__CPROVER_requires(g_wrote_shared == 0)
/* deep copy: the result owns its storage, its children are clones living in that storage, and the original was not written */
__CPROVER_ensures(!g_wrote_shared)
__CPROVER_ensures((self_type == STRING || self_type == ARRAY || self_type == OBJ) ==> g_private)
__CPROVER_ensures((self_type == ARRAY || self_type == OBJ) ==> g_children_cloned)
__CPROVER_assigns(g_private, g_children_cloned, g_wrote_shared)
@@cl@@
void vf_harness(void) { int t; Var_clone(t); VF_CANARY(); }
''',
    entry='Var_clone', kind='proof',
    desc='Var::clone for every type: strings, arrays and objects are detached (dup) BEFORE any child is replaced by its clone, every child of an array/object is cloned, the const original is never written',
    functions=['Var::clone'],
    trusted=['dup() gives private storage (C01); `foreach(x) x = x.clone()` abstracted to one in-place replacement of all children (recursion = the same contract)'],
)
UNITS += [clone_unit]

# ---- Var(unsigned): the number held is the argument (values >= 2^31 do not fit the INT representation)
ctor_unsigned = Unit(
    'Var_ctor_unsigned', 'C04',
    cuts=[TYPES(), Cut('cu', VC, r'^Var::Var\(unsigned y\)\s*$', members=('_type', '_i', '_d'))],
    text=r'''
#include "vf_base.h"
@@types@@
typedef struct VarN { int _type; union { double _d; int _i; }; } VarN;
void Var_ctor_unsigned(VarN* self, unsigned y)
__CPROVER_requires(__CPROVER_is_fresh(self, sizeof(VarN)))
/* for EVERY 32-bit value: the Var holds exactly that number, as an int when it fits and as a double otherwise */
__CPROVER_ensures((self->_type == INT && (long long)self->_i == (long long)y) || (self->_type == NUMBER && self->_d == (double)y))
__CPROVER_assigns(*self)
@@cu@@
void vf_harness(void) { VarN* v; unsigned y; Var_ctor_unsigned(v, y); VF_CANARY(); }
''',
    entry='Var_ctor_unsigned', kind='proof',
    desc='Var(unsigned) for all 2^32 values: the stored number equals the argument (INT below 2^31, NUMBER from 2^31 on)',
    functions=['Var::Var(unsigned)'],
)

# ---- Var::copy (copy constructor): a string Var gets text storage of its OWN holding the same bytes (strings have value semantics: later assignments to one Var
# must not show in the other); arrays and objects are shared handles by design (C01 copy constructor)
copy_unit = Unit(
    'Var_copy', 'C04',
    cuts=[TYPES(), Cut('cp', VC, r'^void Var::copy\(const Var& v\)\s*$', members=('_type',),
              rules=[(r'NEW_STRINGC\(_s, v\._s->length\(\)\);', 'S_NEW_OWN(g_srclen);', None), (r'memcpy\(_s->data\(\), v\._s->data\(\), v\._s->length\(\)\);', 'S_COPY_BYTES(g_srclen);', None),
                     (r'NEW_STRINGC\(_s, \*v\._s\);', 'S_SHARE();', None), (r'NEW_ARRAYC\(_a, \*v\._a\);', 'g_container_shared = 1;', None), (r'NEW_DICC\(_o, \*v\._o\);', 'g_container_shared = 1;', None)])],
    text=r'''
#include "vf_base.h"
@@types@@
typedef struct VarT { int _type; } VarT;
int g_srclen, g_own_len, g_copied, g_text_shared, g_container_shared;
static void S_NEW_OWN(int n) { __CPROVER_assert(n >= 0, "Array<char>(n): n >= 0"); g_own_len = n; }     /* NEW_STRINGC(_s, n): a fresh Array<char> of n characters */
static void S_COPY_BYTES(int n) { __CPROVER_assert(g_own_len >= n, "memcpy stays inside the new text"); g_copied = n; }
static void S_SHARE(void) { g_text_shared = 1; g_own_len = g_srclen; g_copied = g_srclen; }              /* NEW_STRINGC(_s, array): Array copy constructor - shares the block (C01) */
void Var_copy(VarT* self)
__CPROVER_requires(__CPROVER_is_fresh(self, sizeof(VarT)) && 0 <= g_srclen && g_srclen <= 1000000 && g_own_len == -1 && g_copied == 0 && g_text_shared == 0 && g_container_shared == 0)
__CPROVER_ensures(self->_type == STRING ==> (!g_text_shared && g_own_len == g_srclen && g_copied == g_srclen))
__CPROVER_ensures(((self->_type == ARRAY) || (self->_type == OBJ)) == (g_container_shared != 0))
__CPROVER_assigns(g_own_len, g_copied, g_text_shared, g_container_shared)
@@cp@@
void vf_harness(void) { VarT* v; Var_copy(v); VF_CANARY(); }
''',
    entry='Var_copy', kind='proof',
    desc='Var::copy for every type: a heap string is duplicated (own storage, every byte copied, nothing shared); arrays and objects are shared handles',
    functions=['Var::copy (copy constructor)'],
    trusted=['NEW_STRINGC(_s, n) makes a fresh Array<char>(n); NEW_*C(x, array) copy-constructs a handle that shares the block (C01)'],
)
UNITS += [ctor_unsigned, copy_unit]

# ---- Var << x (append to an array Var): x may be an element of this very array, so it is handed to Array::operator<< (which copies an aliased argument before
# the storage can move: C01 Array_insert ALIAS variants) - it must not be read after a step that can reallocate the array
append_unit = Unit(
    'Var_append', 'C04',
    cuts=[TYPES(), Cut('ap', VC, r'^Var& Var::operator<<\(const Var& x\)\s*$', members=('_type',),
              rules=[(r'\(\*_a\) << x;', 'ARR_APPEND_X();', None), (r'NEW_ARRAY\(_a\);', 'g_newarr++;', None), (r'\(\*this\)\[length\(\)\] = x;', '{ VAR_INDEX_GROW(); X_READ(); g_appended++; }', None), (r'return \*this;', 'return;', None)])],
    text=r'''
#include "vf_base.h"
@@types@@
typedef struct VarT { int _type; } VarT;
int g_appended, g_newarr, g_moved, g_stale_read;
static void ARR_APPEND_X(void) { g_appended++; }                         /* Array<Var>::operator<<(x): aliasing-safe append (C01) */
static void VAR_INDEX_GROW(void) { g_moved = 1; }                        /* Var::operator[](length()): resizes the array - the storage may move */
static void X_READ(void) { if (g_moved) g_stale_read = 1; __CPROVER_assert(!g_moved, "x (possibly an element of this array) is not read after the array may have been reallocated"); }
void Var_append(VarT* self)
__CPROVER_requires(__CPROVER_is_fresh(self, sizeof(VarT)) && g_appended == 0 && g_newarr == 0 && g_moved == 0 && g_stale_read == 0)
__CPROVER_ensures(!g_stale_read && ((__CPROVER_old(self->_type) == ARRAY || __CPROVER_old(self->_type) == NONE) ? (g_appended == 1 && self->_type == ARRAY) : g_appended == 0))
__CPROVER_assigns(*self, g_appended, g_newarr, g_moved, g_stale_read)
@@ap@@
void vf_harness(void) { VarT* v; Var_append(v); VF_CANARY(); }
''',
    entry='Var_append', kind='proof',
    desc='Var::operator<<(const Var&): an array (or an undefined Var, which becomes an array) gets x appended exactly once through the aliasing-safe Array append; other types are unchanged',
    functions=['Var::operator<<(const Var&)'], trusted=['Array::operator<< copies an argument that lies inside the array before growing (C01)'],
)

# ---- Var::extend(v): every DEFINED property of v is copied - 0, false, "" and null are values; only undefined ones are skipped
extend_unit = Unit(
    'Var_extend_filter', 'C04',
    cuts=[TYPES(), Cut('ex', VC, r'^Var& Var::extend\(const Var& v\)\s*$', members=('_type',),
              rules=[(r'NEW_DIC\(_o\);', '', None), (r'foreach2\s*\(String& k, Var\s*&\s*x, \*v\._o\)', '', 1), (r'\bx\.ok\(\)', 'X_DEFINED()', None), (r'if \(x\)', 'if (X_TRUTHY())', None), (r'if \(!x\)', 'if (!X_TRUTHY())', None),
                     (r'\(\*_o\)\[k\] = x;', 'g_copied = 1;', None), (r'return \*this;', 'return;', None)])],
    text=r'''
#include "vf_base.h"
@@types@@
typedef struct VarT { int _type; } VarT;
enum { X_UNDEFINED, X_FALSY, X_TRUTHY_KIND }; int g_xkind, g_copied;
static bool X_DEFINED(void) { return g_xkind != X_UNDEFINED; }              /* Var::ok(): not undefined */
static bool X_TRUTHY(void) { return g_xkind == X_TRUTHY_KIND; }            /* operator bool: false for 0, 0.0, false, "", null and undefined */
void Var_extend(VarT* self)
__CPROVER_requires(__CPROVER_is_fresh(self, sizeof(VarT)) && (self->_type == NONE || self->_type == OBJ) && X_UNDEFINED <= g_xkind && g_xkind <= X_TRUTHY_KIND && g_copied == 0)
__CPROVER_ensures(g_copied == (g_xkind != X_UNDEFINED))
__CPROVER_assigns(*self, g_copied)
@@ex@@
void vf_harness(void) { VarT* v; Var_extend(v); VF_CANARY(); }
''',
    entry='Var_extend', kind='proof',
    desc='Var::extend: a property of the source is copied exactly when it is defined (falsy values such as 0, false, "" and null are copied)',
    functions=['Var::extend'], trusted=['the property loop abstracted to one representative property'],
)
UNITS += [append_unit, extend_unit]

# replay: the units verify single operations on ghost-shaped Vars; the native counterpart is the driver's small-scope search (all string lengths 0..20 x target kinds,
# own-child assignments for every child kind, clone independence)
for _u in UNITS:
    if not _u.replay:
        _u.replay = replay.battery('C04/driver.cpp', ['battery'])

# planted one-token breaks for the newer units (thorough tier: each must make an obligation fail)
ctor_unsigned.planted = [('cu', r'y < 2147483648u', 'y <= 2147483648u')]
copy_unit.planted = [('cp', r'S_NEW_OWN\(g_srclen\);\s*S_COPY_BYTES\(g_srclen\);', 'S_SHARE();')]
