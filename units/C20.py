"""C20 - Matrix inverse / determinant as exact algebraic identities (include/asl/Matrix4.h, Matrix3.h)"""
import os, time
from vf import vcgen, core, replay
from vf.core import Undecided

UNITS = []
LEVEL = 'proof'
EXPLANATION = ('Expression text of inverse() and det() is parsed on every run into polynomials over the reals; each identity is an SMT query that must be unsat on z3 4.8, z3 5.1 and cvc5.')
ASSUMPTIONS = ['machine floating point treated as real arithmetic (the property asks for exact algebraic identities)',
               'solve(), least squares, floating-point residual bounds, quaternion / axis-angle / Euler conversions are NOT decided (sqrt/atan2/sin/cos and pivoting loops over reals are outside this generator)']
NOT_DECIDED = ['solve', 'least squares', 'floating residuals', 'rotation conversions']


def _frac(s):
    s = s.strip()
    neg = False
    m = __import__('re').match(r'\(- (.*)\)$', s)
    if m:
        neg, s = True, m.group(1).strip()
    m = __import__('re').match(r'\(/ ([\d.]+) ([\d.]+)\)$', s)
    v = float(m.group(1)) / float(m.group(2)) if m else float(s)
    return -v if neg else v


def extra_checks(work, tier):
    out = []
    for hdr, cls, n in (('include/asl/Matrix4.h', 'Matrix4_', 4), ('include/asl/Matrix3.h', 'Matrix3_', 3)):
        t0 = time.time()
        rec = {'name': cls + '_inverse_det', 'kind': 'proof', 'back_end': 'own VC generator -> SMT-LIB QF_NRA -> z3 4.8.12, z3 5.1, cvc5 1.0 (all must say unsat)',
               'functions': [cls + '::inverse', cls + '::det'], 'obligations': 0, 'discharged': 0, 'failures': [], 'samples': [],
               'trusted': ['z3, cvc5', 'vf/vcgen.py expression parser (a[i][j], + - *, unary minus, parentheses)'],
               'detail': 'A*adj = adj*A = d*I entrywise for the adjugate and d the code computes; det() text = Leibniz determinant = d; det(AB)=det(A)det(B)'}
        try:
            for ob in vcgen.matrix_obligations(hdr, cls, n, work):
                if ob['status'] == 'unknown' and ob.get('optional'):
                    rec.setdefault('dropped', []).append(ob['id'] + ' (solver time-out: clause dropped, not claimed)')
                    continue
                rec['obligations'] += 1
                if ob['status'] == 'unsat':
                    rec['discharged'] += 1
                elif ob['status'] == 'sat':
                    f = {'id': ob['id'], 'detail': ob['detail'] + ' :: ' + ob.get('solver', '')}
                    mv = ob.get('model')
                    if mv:
                        try:
                            vals = [_frac(mv.get('a_%d_%d' % (i, j), '0.0')) for i in range(n) for j in range(n)]
                            f['inputs'] = {'matrix_row_major': vals}
                            f['native'] = replay.run_native('C20/driver.cpp', [n] + vals, work)
                        except Exception as e:
                            f['replay_error'] = repr(e)
                    rec['failures'].append(f)
                else:
                    rec['undecided'] = 'solvers did not decide %s (%s)' % (ob['id'], ob.get('solver'))
                if len(rec['samples']) < 3:
                    rec['samples'].append({'unit': rec['name'], 'obligation': ob['id'], 'status': ob['status'], 'solvers': ob.get('solver')})
        except Undecided as e:
            rec['undecided'] = str(e)
        rec['wall_s'] = time.time() - t0
        out.append(rec)
    return out
