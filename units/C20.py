"""C20 - Matrix inverse / determinant as exact algebraic identities (include/asl/Matrix4.h, Matrix3.h)"""
import os, time
from vf import vcgen, core, replay
from vf.core import Undecided, Unit, Cut

UNITS = []
LEVEL = 'proof'
EXPLANATION = ('Expression text of inverse() and det() is parsed on every run into polynomials over the reals; each identity is an SMT query that must be unsat on z3 4.8, z3 5.1 and cvc5. '
               'solve()/solve_(): both bodies cut and run together in CBMC on fixed shapes (bounded): which storage blocks are written, every element access in range, shape of the result.')
ASSUMPTIONS = ['machine floating point treated as real arithmetic (the property asks for exact algebraic identities)',
               'that the x returned by solve() satisfies A x = b (exactly or within a floating-point bound), least squares optimality, quaternion / axis-angle / Euler conversions are NOT decided (sqrt/atan2/sin/cos and elimination over reals with symbolic pivots are outside this generator); of solve() only the frame (caller\'s A and b untouched, result in its own block, accesses in range) is decided, on the shapes listed, bounded']
NOT_DECIDED = ['solve: A x = b for the values', 'least squares', 'floating residuals', 'rotation conversions']

# ---- solve(A, b) / solve_(A, b): which storage blocks the elimination writes to.  A x = b is a statement about the A and b the caller passed: the caller's blocks
# (reference counted, possibly shared with other handles) must come back untouched, the answer in a block of its own.  Both bodies are cut and run together, so it
# does not matter WHICH of the two makes the private copies.
MX = 'include/asl/Matrix.h'
_mx_rules = [(r'Matrix_<T>', 'M', None), (r'(\w+)\.rows\(\)', r'\1.rows', None), (r'(\w+)\.cols\(\)', r'\1.cols', None),
             (r'(\w+)\.transposed\((\w+)\)', r'TRANSPOSED(\1, \2)', None), (r'(\w+)\.clone\(\)', r'CLONE(\1)', None), (r'(\w+)\.copy\((\w+)\)', r'COPY(\1, \2)', None),
             (r'\bM (\w+)\(([^;=]*)\);', r'M \1 = NEWM(\2);', None), (r'Array<int> (\w+)\((\w+)\);', r'int* \1 = vf_ints(\2);', None),
             (r'(\w+)\[i\] = i;', r'{ \1[i] = i; NEW_COLUMN(A); }', None),
             (r'(?m)^(\s*)(\w+)\(([^;]*?)\)\s*(\+=|=)(?!=)\s*([^;]*);', r'\1{ WR(\2, \3); vf_sink = \5; }', None),
             (r'\b(A|b|x|A_|b_|A2|b2)\(', r'RD(\1, ', None)]
solve_frame = Unit(
    'Matrix_solve_frame', 'C20',
    cuts=[Cut('solve', MX, r'^Matrix_<T> solve\(const Matrix_<T>& A, const Matrix_<T>& b\)\s*$', rules=_mx_rules),
          Cut('solve_', MX, r'^Matrix_<T> solve_\(Matrix_<T>& A_, Matrix_<T>& b_\)\s*$', rules=_mx_rules + [(r'return solve_\(', 'return solve_again(', None)]),
          Cut('solve_again', MX, r'^Matrix_<T> solve_\(Matrix_<T>& A_, Matrix_<T>& b_\)\s*$', rules=_mx_rules + [(r'return solve_\(', 'return solve_deeper(', None)])],
    text=r'''
#include "vf_base.h"
#include <math.h>
typedef double T;
typedef struct { int blk, rows, cols; } M;      /* a Matrix_ handle: which storage block it refers to, and its shape */
#define NBLK 24
int g_nblk, g_wr[NBLK], g_init[NBLK], g_orig[NBLK];   /* g_orig: the block holds the coefficients the caller passed (or the normal-equation matrix built from them), not yet eliminated */
double nondet_double(void); double vf_sink;
static M NEWM(int r, int c) { __CPROVER_assert(r >= 0 && c >= 0, "Matrix(r, c): sizes >= 0"); __CPROVER_assert(g_nblk < NBLK, "harness block budget"); M m = { g_nblk++, r, c }; g_wr[m.blk] = 0; g_init[m.blk] = 0; g_orig[m.blk] = 0; return m; }
static M CLONE(M a) { M m = NEWM(a.rows, a.cols); g_init[m.blk] = 1; g_orig[m.blk] = g_orig[a.blk]; return m; }                    /* clone(): a block of its own with the same elements */
static M TRANSPOSED(M a, M x) { __CPROVER_assert(a.rows == x.rows, "A^T * X: row counts agree"); M m = NEWM(a.cols, x.cols); g_init[m.blk] = 1; g_orig[m.blk] = g_orig[a.blk] && g_orig[x.blk]; return m; }   /* A.transposed(X) = A^T X, a new matrix */
static void vf_wr(M m, int i, int j) { __CPROVER_assert(0 <= i && i < m.rows && 0 <= j && j < m.cols, "element written is inside the matrix"); g_wr[m.blk] = 1; g_orig[m.blk] = 0; }
static double vf_rd(M m, int i, int j) { __CPROVER_assert(0 <= i && i < m.rows && 0 <= j && j < m.cols, "element read is inside the matrix"); return nondet_double(); }
#define WR(m, i, j) vf_wr(m, i, j)
#define RD(m, i, j) vf_rd(m, i, j)
static void COPY(M dst, M src) { __CPROVER_assert(dst.rows == src.rows && dst.cols == src.cols, "copy(): same shape"); g_wr[dst.blk] = 1; g_orig[dst.blk] = g_orig[src.blk]; }
/* start of the work on one right-hand side (the row permutation is reset): the elimination that follows computes its multipliers from the working matrix, so that must be the original again */
static void NEW_COLUMN(M a) { __CPROVER_assert(g_orig[a.blk], "each right-hand side is eliminated against the original coefficients, not against what the previous one left"); }
#define swap(a, b) { int vf_t = (a); (a) = (b); (b) = vf_t; }
static int* vf_ints(int n) { __CPROVER_assert(n >= 0, "Array<int>(n): n >= 0"); int* p = (int*)malloc(sizeof(int) * (size_t)n); __CPROVER_assume(p != NULL); return p; }   /* Array<int>(n): exactly n ints */
static M solve_(M A_, M b_);
static M solve(M A, M b) @@solve@@
/* solve_ calls itself once for a non-square system (on the square normal equations): two copies of the same cut text, a third level must be unreachable */
static M solve_deeper(M A_, M b_) { __CPROVER_assert(0, "solve_ recurses at most once (the normal equations are square)"); return A_; }
static M solve_again(M A_, M b_) @@solve_again@@
static M solve_(M A_, M b_) @@solve_@@
int nondet_int(void);
void vf_harness(void) {
  int ra = RA, ca = CA, cb = CB;      /* the shape is fixed per variant (loops then unroll exactly); element values, and with them every pivot choice, are arbitrary */
  M A = { 0, ra, ca }, b = { 1, ra, cb }; g_nblk = 2; g_init[0] = g_init[1] = 1; g_orig[0] = g_orig[1] = 1;
  M x = solve(A, b);
  __CPROVER_assert(!g_wr[0], "solve(A, b) leaves the caller's A as it was (A x = b is about that A)");
  __CPROVER_assert(!g_wr[1], "solve(A, b) leaves the caller's b as it was");
  __CPROVER_assert(x.blk >= 2 && x.rows == ca && x.cols == cb, "the answer is a matrix of its own, one row per unknown and one column per right-hand side");
  __CPROVER_assert(g_wr[x.blk], "and it was filled in");
  VF_CANARY();
}
''',
    entry=None, unwind=7, floor=10, expect=['assertion'], kind='bounded', timeout=600,
    planted=[('solve', r'M A2 = CLONE\(A\);', 'M A2 = A;', r'^([2-5])x\1_rhs1$'), ('solve_', r'COPY\(A, A_\);', 'A = A_;', r'^[2-5]x\d_rhs3$')],   # only square systems (2x2 up: a 1x1 system eliminates nothing) with one right-hand side take that path without another copy
    replay=lambda r, o, work: {'concretisation': 'shape of the failing variant; element values fixed (values are not part of the counterexample: the unit tracks blocks)',
                               'native': replay.run_native('C20/driver.cpp', ['solve'] + __import__('re').findall(r'\d+', r.variant), work)},
    variants=dict(('%dx%d_rhs%d' % (r, c, k), ['-DRA=%d' % r, '-DCA=%d' % c, '-DCB=%d' % k]) for (r, c) in ((1, 1), (2, 2), (3, 3), (4, 4), (5, 5), (2, 1), (3, 2), (4, 2), (5, 3)) for k in (1, 2, 3) if k < 3 or (r, c) in ((2, 2), (3, 3), (4, 4), (3, 2))),
    bound='square systems 1x1..5x5 and over-determined 2x1, 3x2, 4x2, 5x3, each with 1 and 2 right-hand sides (2x2, 3x3, 4x4, 3x2 also with 3); element values (so every pivot choice) arbitrary',
    desc='solve() and solve_() run together (both bodies cut): the elimination, the row permutation and the back substitution read and write only inside the matrices, never write the '
         "caller's A or b block (whichever of the two functions makes the private copies), and return x in a block of its own with the right shape",
    functions=['solve(const Matrix_<T>&, const Matrix_<T>&)', 'solve_(Matrix_<T>&, Matrix_<T>&)'],
    trusted=['Matrix_::clone / transposed / copy / operator() abstracted to block events (clone and transposed give a new block, copy and assignment through operator() write the block of the handle)',
             'element values are not tracked: that the x written solves the system is NOT decided here'],
)
UNITS += [solve_frame]


def _frac(s):
    s = s.strip()
    neg = False
    m = __import__('re').match(r'\(- (.*)\)$', s)
    if m:
        neg, s = True, m.group(1).strip()
    m = __import__('re').match(r'\(/ ([\d.]+) ([\d.]+)\)$', s)
    v = float(m.group(1)) / float(m.group(2)) if m else float(s)
    return -v if neg else v


def extra_checks(work, tier):
    out = []
    for hdr, cls, n in (('include/asl/Matrix4.h', 'Matrix4_', 4), ('include/asl/Matrix3.h', 'Matrix3_', 3)):
        t0 = time.time()
        rec = {'name': cls + '_inverse_det', 'kind': 'proof', 'back_end': 'own VC generator -> SMT-LIB QF_NRA -> z3 4.8.12, z3 5.1, cvc5 1.0 (all must say unsat)',
               'functions': [cls + '::inverse', cls + '::det'], 'obligations': 0, 'discharged': 0, 'failures': [], 'samples': [],
               'trusted': ['z3, cvc5', 'vf/vcgen.py expression parser (a[i][j], + - *, unary minus, parentheses)'],
               'detail': 'A*adj = adj*A = d*I entrywise for the adjugate and d the code computes; det() text = Leibniz determinant = d; det(AB)=det(A)det(B)'}
        try:
            for ob in vcgen.matrix_obligations(hdr, cls, n, work):
                if ob['status'] == 'unknown' and ob.get('optional'):
                    rec.setdefault('dropped', []).append(ob['id'] + ' (solver time-out: clause dropped, not claimed)')
                    continue
                rec['obligations'] += 1
                if ob['status'] == 'unsat':
                    rec['discharged'] += 1
                elif ob['status'] == 'sat':
                    f = {'id': ob['id'], 'detail': ob['detail'] + ' :: ' + ob.get('solver', '')}
                    mv = ob.get('model')
                    if mv:
                        try:
                            vals = [_frac(mv.get('a_%d_%d' % (i, j), '0.0')) for i in range(n) for j in range(n)]
                            f['inputs'] = {'matrix_row_major': vals}
                            f['native'] = replay.run_native('C20/driver.cpp', [n] + vals, work)
                        except Exception as e:
                            f['replay_error'] = repr(e)
                    rec['failures'].append(f)
                else:
                    rec['undecided'] = 'solvers did not decide %s (%s)' % (ob['id'], ob.get('solver'))
                if len(rec['samples']) < 3:
                    rec['samples'].append({'unit': rec['name'], 'obligation': ob['id'], 'status': ob['status'], 'solvers': ob.get('solver')})
        except Undecided as e:
            rec['undecided'] = str(e)
        rec['wall_s'] = time.time() - t0
        out.append(rec)
    return out
