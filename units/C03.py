"""C03 - String (include/asl/String.h, src/String.cpp)"""
from vf.core import Unit, Cut
from vf import replay
from units.common import *

H, S = 'include/asl/String.h', 'src/String.cpp'
SM = dict(members=STRING_FIELDS, methods=STRING_METHODS)
NMAX = '-DNMAX=100000'

PRE = r'''
#ifdef VF_LIBC_LOOPS
#include "vf_libc_loops.h"
#endif
#include "vf_string.h"
int g_k;
'''

# ---------------------------------------------------------------------------------------------
# resize(n, keep, newlen)
RESIZE_LOC = r'^String& String::resize\(int n, bool keep, bool newlen\)\s*$'
RET_THIS = [(r'return \*this;', 'return;', None)]

resize = Unit(
    'String_resize', 'C03',
    cuts=[Cut('String_resize', S, RESIZE_LOC, **SM, rules=RET_THIS)],
    text=PRE + r'''
void String_resize(String* self, int n, bool keep, bool newlen)
__CPROVER_requires(__CPROVER_is_fresh(self, sizeof(String)))
__CPROVER_requires(WF_STRING_P(self) && STRP(self)[self->_len] == 0)
__CPROVER_requires(0 <= n && n <= NMAX && self->_size <= NMAX)
__CPROVER_requires(0 <= g_k && g_k < self->_len)
__CPROVER_ensures((self->_size == 0 && n < ASL_STR_SPACE) || self->_size > n)
__CPROVER_ensures(__CPROVER_old(self->_size) != 0 ==> self->_size >= __CPROVER_old(self->_size))
__CPROVER_ensures(newlen ? (self->_len == n && STRP(self)[n] == 0) : self->_len == __CPROVER_old(self->_len))
__CPROVER_ensures((keep && g_k < n) ==> STRP(self)[g_k] == __CPROVER_old(STRP(self)[g_k]))
__CPROVER_ensures((keep && !newlen) ==> STRP(self)[self->_len] == 0)
__CPROVER_assigns(*self; self->_size != 0: __CPROVER_object_whole(self->_str))
__CPROVER_frees(self->_size != 0: self->_str)
@@String_resize@@
void vf_harness(void) { String* s; int n; bool keep, newlen; String_resize(s, n, keep, newlen); VF_CANARY(); }
''',
    entry='String_resize',
    variants={'': [NMAX]},
    desc='String::resize for every well-formed string, n, keep, newlen: capacity > n, NUL kept/placed, content kept, '
         'old block freed only when replaced; crosses inline->heap (15/16), 24-byte minimum, 1 KiB malloc/realloc switch',
    trusted=['CBMC malloc/realloc/free/memcpy models'],
    planted=[('String_resize', r'max\(n\+1, 24\)', 'max(n, 24)'),
             ('String_resize', r'memcpy\(str2, self->_space, self->_len\+1\)', 'memcpy(str2, self->_space, self->_len)')],
)

# ---------------------------------------------------------------------------------------------
# helpers inlined into callers (their real bodies; no contracts attached here)
def helper_cuts():
    return string_helper_cuts() + [Cut('String_resize_b', S, RESIZE_LOC, **SM, rules=RET_THIS)]

HELPERS = STRING_HELPERS_C + r'''
static void String_resize(String* self, int n, bool keep, bool newlen) @@String_resize_b@@
'''
# default arguments of resize(int n, bool keep=true, bool newlen=true) (String.h; checked by pre_checks)
DEFARG_RULES = [(r'String_resize\(((?:self|&\w+)), ([^,();]+)\);', r'String_resize(\1, \2, true, true);', None),
                (r'String_resize\(((?:self|&\w+)), ([^,();]+), (true|false)\);', r'String_resize(\1, \2, \3, true);', None)]

# aliasing variants ("a string appended or assigned to itself or to a piece of itself"): b points into the
# string's own text.  The precondition `b == text + g_off` is only an assumption about a nondeterministic pointer;
# CBMC's points-to analysis needs an assignment, so the body starts with `assert(b == ...); b = ...;` (the assertion
# shows the assignment is a no-op).  Measured: CBMC runs out of memory when the aliased buffer is a heap object of
# symbolic size, or is chosen by a disjunction; so ALIAS=1 is the inline buffer (complete) and ALIAS=2 a heap buffer
# of constant capacity HCAP (bounded by capacity: 20 = the minimum heap size, 40 = after one doubling).
ANCHOR_B = (r'\A\{', '{ VF_ANCHOR_B', 1)


def alias_block_rule(text):
    """`if (off <= size_t(_len)) { ...self-aliasing path... }`: in the ALIAS=0 variant (b is a separate fresh object) the
    block is replaced by an assertion that it is unreachable (so its same-object copy, which CBMC cannot encode for
    a buffer of symbolic size, is not part of that variant's formula); the ALIAS=1/2 variants verify the block."""
    import re
    from vf.core import find_code, match_close
    m = re.search(r'if\s*\(off <= \(size_t\)\(self->_len\)\)', text)
    if not m:
        return text, 0
    b = find_code(text, '{', m.end())
    if text[m.end():b].strip():
        return text, 0
    e = match_close(text, b)
    rep = ('\n#if ALIAS == 0\n{ __CPROVER_assert(0, "self-aliasing branch unreachable when b is a separate object"); __CPROVER_assume(0); }'
           '\n#else\n' + text[b:e] + '\n#endif\n')
    return text[:b] + rep + text[e:], 1

ALIAS_DEFS = r'''
int g_off;
#if ALIAS == 0
#define VF_ANCHOR_B
#define VF_FIX_REQ
#define VF_WF_REQ __CPROVER_requires(WF_STRING_P(self) && STRP(self)[self->_len] == 0 && self->_size <= NMAX)
#define VF_B_REQ  __CPROVER_requires(__CPROVER_is_fresh(b, n > 0 ? n : 1))
#elif ALIAS == 1
#ifdef FIX_LEN
#define VF_FIX __CPROVER_assert(self->_len == FIX_LEN && n == FIX_N, "anchor len, n"); self->_len = FIX_LEN; n = FIX_N;
#define VF_FIX_REQ __CPROVER_requires(self->_len == FIX_LEN && n == FIX_N)
#else
#define VF_FIX
#define VF_FIX_REQ
#endif
#define VF_ANCHOR_B VF_FIX __CPROVER_assert(b == self->_space + g_off, "anchor b"); b = self->_space + g_off;
#define VF_WF_REQ __CPROVER_requires(self->_size == 0 && self->_len >= 0 && self->_len < ASL_STR_SPACE && self->_space[self->_len] == 0)
#define VF_B_REQ  __CPROVER_requires(0 <= g_off && g_off <= self->_len && n <= self->_len - g_off && b == self->_space + g_off)
#else
#ifdef FIX_LEN
#define VF_FIX __CPROVER_assert(self->_size == HCAP && self->_len == FIX_LEN && n == FIX_N, "anchor size, len, n"); self->_size = HCAP; self->_len = FIX_LEN; n = FIX_N;
#define VF_FIX_REQ __CPROVER_requires(self->_len == FIX_LEN && n == FIX_N)
#else
#define VF_FIX
#define VF_FIX_REQ
#endif
#define VF_ANCHOR_B VF_FIX __CPROVER_assert(b == self->_str + g_off, "anchor b"); b = self->_str + g_off;
#define VF_WF_REQ __CPROVER_requires(self->_size == HCAP && self->_len >= 0 && self->_len < HCAP && __CPROVER_is_fresh(self->_str, HCAP) && self->_str[self->_len] == 0)
#define VF_B_REQ  __CPROVER_requires(0 <= g_off && g_off <= self->_len && n <= self->_len - g_off && b == self->_str + g_off)
#endif
'''
WF_REQ = r'''
__CPROVER_requires(__CPROVER_is_fresh(self, sizeof(String)))
VF_WF_REQ
'''
ALIAS_VARIANTS = {'': [NMAX, '-DALIAS=0'], 'ALIAS_INLINE': [NMAX, '-DALIAS=1'],
                  'ALIAS_HEAP20': [NMAX, '-DALIAS=2', '-DHCAP=20'], 'ALIAS_HEAP40': [NMAX, '-DALIAS=2', '-DHCAP=40']}
ALIAS_FLAGS = {}
# append: the self-aliasing path allocates a new buffer whose size depends on len+n and then copies inside it; CBMC
# cannot encode a same-object copy in an object of symbolic size, so the append alias variants fix (capacity, length, n)
# per variant (offset and contents stay symbolic): bounded stand-ins that cross no-growth, inline->heap and heap->heap.
def _ap(alias, hcap, ln, n):
    return [NMAX, '-DALIAS=%d' % alias, '-DHCAP=%d' % hcap, '-DFIX_LEN=%d' % ln, '-DFIX_N=%d' % n]
APPEND_VARIANTS = {'': [NMAX, '-DALIAS=0'],
                   'ALIAS_INLINE_5+5': _ap(1, 0, 5, 5), 'ALIAS_INLINE_8+8': _ap(1, 0, 8, 8), 'ALIAS_INLINE_15+15': _ap(1, 0, 15, 15),
                   'ALIAS_INLINE_15+3': _ap(1, 0, 15, 3),
                   'ALIAS_HEAP20_10+5': _ap(2, 20, 10, 5), 'ALIAS_HEAP20_19+19': _ap(2, 20, 19, 19), 'ALIAS_HEAP40_30+12': _ap(2, 40, 30, 12)}
APPEND_KIND = {v: ('bounded', 'capacity, length and n fixed as in the variant name; offset and contents symbolic')
               for v in APPEND_VARIANTS if v}
ALIAS_KIND = {'ALIAS_HEAP20': ('bounded', 'heap capacity = 20 bytes (copy length < 20)'),
              'ALIAS_HEAP40': ('bounded', 'heap capacity = 40 bytes (copy length < 40)')}
FRAME = r'''
__CPROVER_assigns(*self; self->_size != 0: __CPROVER_object_whole(self->_str))
__CPROVER_frees(self->_size != 0: self->_str)
'''


def alias_replay(cmd):
    def argfn(v):
        return [cmd, replay.hexs(v.get('cx_in', [])[:v.get('cx_len', 0)]), v.get('cx_off', 0), v.get('cx_n', 0)]
    return replay.standard('C03/driver.cpp', argfn, unwind=40)


CX_ALIAS = r'''
#ifdef VF_CX
/* concretisation harness: explicit small inputs; the string is built the way String(const char*, int) builds it */
#define CX_R 24
unsigned char cx_in[CX_R]; int cx_len, cx_off, cx_n;
unsigned char nondet_uchar(void); int nondet_int(void);
void vf_cx_harness(void) {
  String s; cx_len = nondet_int(); __CPROVER_assume(0 <= cx_len && cx_len <= CX_R);
  for (int i = 0; i < CX_R; i++) { cx_in[i] = nondet_uchar(); __CPROVER_assume(cx_in[i] != 0); }
  String_init(&s, cx_len);
  for (int i = 0; i < cx_len; i++) String_str(&s)[i] = (char)cx_in[i];
  String_str(&s)[cx_len] = 0;
  cx_off = nondet_int(); cx_n = nondet_int();
  __CPROVER_assume(0 <= cx_off && cx_off <= cx_len && 0 <= cx_n && cx_n <= cx_len - cx_off);
  int k = nondet_int();
  CX_CALL
}
#endif
'''

# append(b, n)
append = Unit(
    'String_append', 'C03',
    cuts=helper_cuts() + [Cut('String_append', S, r'^void String::append\(const char\* b, int n\)\s*$', **SM,
                              post=DEFARG_RULES + [ANCHOR_B, alias_block_rule])],
    text=PRE + HELPERS + ALIAS_DEFS + r'''
void String_append(String* self, const char* b, int n)
''' + WF_REQ + r'''
__CPROVER_requires(0 <= n && n <= NMAX)
VF_FIX_REQ
VF_B_REQ
__CPROVER_requires(0 <= g_k && g_k < self->_len + n)
__CPROVER_ensures(self->_len == __CPROVER_old(self->_len) + n)
__CPROVER_ensures((self->_size == 0 && self->_len < ASL_STR_SPACE) || self->_size > self->_len)
__CPROVER_ensures(STRP(self)[self->_len] == 0)
#if ALIAS == 0
__CPROVER_ensures(STRP(self)[g_k] == (g_k < __CPROVER_old(self->_len) ? __CPROVER_old(STRP(self)[g_k < self->_len ? g_k : 0]) : b[g_k - __CPROVER_old(self->_len)]))
#else
__CPROVER_ensures(STRP(self)[g_k] == __CPROVER_old(STRP(self)[g_k < self->_len ? g_k : g_off + (g_k - self->_len)]))
#endif
''' + FRAME + r'''
@@String_append@@
void vf_harness(void) { String* s; const char* b; int n; String_append(s, b, n); VF_CANARY(); }
#define CX_CALL __CPROVER_assume(0 <= k && k < cx_len + cx_n); String_append(&s, String_str(&s) + cx_off, cx_n); \
  __CPROVER_assert(s._len == cx_len + cx_n, "cx length"); \
  __CPROVER_assert(String_str(&s)[k] == (char)(k < cx_len ? cx_in[k] : cx_in[cx_off + k - cx_len]), "cx content");
''' + CX_ALIAS,
    entry='String_append',
    variants=APPEND_VARIANTS, variant_kind=APPEND_KIND,
    desc='String::append(b,n): length, NUL, content = old ++ b; ALIAS_* variants: b points into the string itself',
    trusted=['CBMC malloc/realloc/free/memcpy models'],
    functions=['String::append', 'String::resize'],
    replay=alias_replay('append_alias'),
)

# assign(b, n)
assign = Unit(
    'String_assign', 'C03',
    cuts=helper_cuts() + [Cut('String_assign', S, r'^void String::assign\(const char\* b, int n\)\s*$', **SM,
                              post=DEFARG_RULES + [ANCHOR_B, alias_block_rule])],
    text=PRE + HELPERS + ALIAS_DEFS + r'''
void String_assign(String* self, const char* b, int n)
''' + WF_REQ + r'''
__CPROVER_requires(0 <= n && n <= NMAX)
VF_B_REQ
__CPROVER_requires(0 <= g_k && g_k < n)
__CPROVER_ensures(self->_len == n)
__CPROVER_ensures((self->_size == 0 && self->_len < ASL_STR_SPACE) || self->_size > self->_len)
__CPROVER_ensures(STRP(self)[self->_len] == 0)
#if ALIAS == 0
__CPROVER_ensures(STRP(self)[g_k] == b[g_k])
#else
__CPROVER_ensures(STRP(self)[g_k] == __CPROVER_old(STRP(self)[g_off + g_k]))
#endif
''' + FRAME + r'''
@@String_assign@@
void vf_harness(void) { String* s; const char* b; int n; String_assign(s, b, n); VF_CANARY(); }
#define CX_CALL __CPROVER_assume(0 <= k && k < cx_n); String_assign(&s, String_str(&s) + cx_off, cx_n); \
  __CPROVER_assert(s._len == cx_n, "cx length"); \
  __CPROVER_assert(String_str(&s)[k] == (char)cx_in[cx_off + k], "cx content");
''' + CX_ALIAS,
    entry='String_assign',
    variants=ALIAS_VARIANTS, variant_flags=ALIAS_FLAGS, variant_kind=ALIAS_KIND,
    desc='String::assign(b,n): length, NUL, content = b; ALIAS_* variants: b points into the string itself',
    trusted=['CBMC malloc/realloc/free/memcpy/memmove models'],
    functions=['String::assign', 'String::resize'],
    replay=alias_replay('assign_alias'),
)

UNITS = [resize, append, assign]

# ---------------------------------------------------------------------------------------------
# integer <-> text.  Loops are bounded by the operand width (<= 10 / <= 19 digits) and are unwound completely
# (unwinding assertions on), inputs range over the full 32/64-bit domain: complete proofs.
NUM_CUTS = lambda: [
    Cut('myatoi', S, r'^int myatoi\(const char\* s\)\s*$'),
    Cut('myatol', S, r'^Long myatol\(const char\* s\)\s*$'),
    Cut('myitoa', S, r'^int myitoa\(int x, char\* s\)\s*$'),
    Cut('myltoa', S, r'^int myltoa\(Long x, char\* s\)\s*$'),
]
NUM_C = r'''
int myatoi(const char* s) @@myatoi@@
Long myatol(const char* s) @@myatol@@
int myitoa(int x, char* s) @@myitoa@@
int myltoa(Long x, char* s) @@myltoa@@
'''
CANON = r'''
/* canonical decimal text: optional '-', then digits without a leading zero (except "0" itself) */
#define CANON(p, n, neg) ((n) >= 1 && ((neg) ? ((p)[0] == '-' && (n) >= 2 && (p)[1] >= '1' && (p)[1] <= '9') \
                                             : ((p)[0] >= '0' && (p)[0] <= '9' && ((n) == 1 || (p)[0] != '0'))))
'''

# (the harness owns the String object, so that it can look at the result after the call)
ctor_int = Unit(
    'String_ctor_int', 'C03',
    cuts=string_helper_cuts() + NUM_CUTS() + [Cut('ctor_int', S, r'^String::String\(int x\)\s*$', **SM)],
    text=PRE + STRING_HELPERS_C + NUM_C + CANON + r'''
void String_ctor_int(String* self, int x)
__CPROVER_ensures(self->_len >= 1 && self->_len <= 11)
__CPROVER_ensures((self->_size == 0 && self->_len < ASL_STR_SPACE) || self->_size > self->_len)
__CPROVER_ensures(STRP(self)[self->_len] == 0)
__CPROVER_ensures(CANON(STRP(self), self->_len, x < 0))
__CPROVER_ensures(g_k >= (x < 0 ? 1 : 0) && g_k < self->_len ==> (STRP(self)[g_k] >= '0' && STRP(self)[g_k] <= '9'))
__CPROVER_assigns(*self)
@@ctor_int@@
void vf_harness(void) {
  String s; int x; __CPROVER_assume(0 <= g_k && g_k < 16);
  String_ctor_int(&s, x);
  VF_CANARY();
}
''',
    entry='String_ctor_int', unwind=13, timeout=300, replay=replay.from_trace('C03/driver.cpp', ['x'], lambda v: ['itoa', v['x']]),
    desc='String(int): canonical decimal text (sign, no leading zero, digits only, <= 11 chars) within capacity for all 2^32 values; the value round trip is NOT decided (SAT does not finish on the divide/multiply chain)',
    functions=['String::String(int)', 'myitoa'],
    planted=[('ctor_int', r'self->_len = ', 'self->_len = 1 + ')],   # (alloc(11) -> alloc(9) was tried first: equivalent, both are inline)
)

ctor_long = Unit(
    'String_ctor_Long', 'C03',
    cuts=string_helper_cuts() + NUM_CUTS() + [Cut('ctor_long', S, r'^String::String\(Long x\)\s*$', **SM)],
    text=PRE + STRING_HELPERS_C + NUM_C + CANON + r'''
void String_ctor_Long(String* self, Long x)
__CPROVER_ensures(self->_len >= 1 && self->_len <= 20)
__CPROVER_ensures((self->_size == 0 && self->_len < ASL_STR_SPACE) || self->_size > self->_len)
__CPROVER_ensures(STRP(self)[self->_len] == 0)
__CPROVER_ensures(CANON(STRP(self), self->_len, x < 0))
__CPROVER_ensures(g_k >= (x < 0 ? 1 : 0) && g_k < self->_len ==> (STRP(self)[g_k] >= '0' && STRP(self)[g_k] <= '9'))
__CPROVER_assigns(*self)
@@ctor_long@@
void vf_harness(void) {
  String s; Long x; __CPROVER_assume(0 <= g_k && g_k < 21);
  String_ctor_Long(&s, x);
  VF_CANARY();
}
''',
    entry='String_ctor_Long', unwind=22, timeout=400, replay=replay.from_trace('C03/driver.cpp', ['x'], lambda v: ['ltoa', v['x']]),
    desc='String(Long): canonical decimal text within the capacity chosen by the constructor, for all 2^64 values',
    functions=['String::String(Long)', 'myltoa'],
)
UNITS += [ctor_int, ctor_long]

# ---------------------------------------------------------------------------------------------
# constructors and pure functions returning a String (return by value)
WF_SELF_RO = r'''
__CPROVER_requires(__CPROVER_is_fresh(self, sizeof(String)))
__CPROVER_requires(WF_STRING_P(self) && STRP(self)[self->_len] == 0 && self->_size <= NMAX)
'''
RET = '__CPROVER_return_value'
RET_WF = r'''
__CPROVER_ensures((RET._size == 0 && RET._len < ASL_STR_SPACE) || RET._size > RET._len)
__CPROVER_ensures(RET._len >= 0 && STR(RET)[RET._len] == 0)
'''.replace('RET', RET)


def local_string_rules(text):
    """String s(a, b);  ->  String s; String_ctor_cap_n(&s, a, b);   and s.str() is handled by method rules"""
    import re
    return re.subn(r'\bString (\w+)\(([^;]*)\);', r'String \1; String_ctor_cap_n(&\1, \2);', text)


substring = Unit(
    'String_substring', 'C03',
    cuts=string_helper_cuts() + [Cut('substring', S, r'^String String::substring\(int i, int j\) const\s*$', **SM, rules=[local_string_rules])],
    text=PRE + STRING_HELPERS_C + r'''
String String_substring(String* self, int i, int j)
''' + WF_SELF_RO + r'''
__CPROVER_requires(0 <= i && i <= j && j <= self->_len)
__CPROVER_requires(0 <= g_k && g_k < j - i)
__CPROVER_ensures(RET._len == j - i)
'''.replace('RET', RET) + RET_WF + r'''
__CPROVER_ensures(STR(RET)[g_k] == STRP(self)[i + g_k])
__CPROVER_assigns()
'''.replace('RET', RET) + r'''@@substring@@
void vf_harness(void) { String* s; int i, j; String r = String_substring(s, i, j); VF_CANARY(); }
''',
    entry='String_substring', variants={'': [NMAX]},
    desc='substring(i,j), 0<=i<=j<=length: result is bytes [i,j), well-formed, NUL-terminated; source untouched',
    functions=['String::substring'],
)

substr = Unit(
    'String_substr', 'C03',
    cuts=string_helper_cuts() + [Cut('substr', S, r'^String String::substr\(int i, int n\) const\s*$', **SM, rules=[local_string_rules])],
    text=PRE + STRING_HELPERS_C + r'''
/* byte-string model of substr(i, n): negative i counts from the end; the range is clipped to the string */
#define SS_I0(len, i) ((i) < 0 ? (i) + (len) : (i))
#define SS_I(len, i)  (SS_I0(len, i) >= (len) ? (len) : SS_I0(len, i))
#define SS_J(len, i, n) (SS_I(len, i) + (n) > (len) ? (len) : SS_I(len, i) + (n))
String String_substr(String* self, int i, int n)
''' + WF_SELF_RO + r'''
__CPROVER_requires(-self->_len <= i && i <= NMAX && 0 <= n && n <= NMAX)
__CPROVER_requires(0 <= g_k && g_k < SS_J(self->_len, i, n) - SS_I(self->_len, i))
__CPROVER_ensures(RET._len == SS_J(self->_len, i, n) - SS_I(self->_len, i))
'''.replace('RET', RET) + RET_WF + r'''
__CPROVER_ensures(STR(RET)[g_k] == STRP(self)[SS_I(self->_len, i) + g_k])
__CPROVER_assigns()
'''.replace('RET', RET) + r'''@@substr@@
void vf_harness(void) { String* s; int i, n; String r = String_substr(s, i, n); VF_CANARY(); }
''',
    entry='String_substr', variants={'': [NMAX]},
    desc='substr(i,n) for every i >= -length and n >= 0: clipped range, content, well-formedness',
    functions=['String::substr'],
)

concat = Unit(
    'String_concat', 'C03',
    cuts=string_helper_cuts() + [Cut('concat', S, r'^String String::concat\(const char\* b, int n\) const\s*$', **SM, rules=[local_string_rules])],
    text=PRE + STRING_HELPERS_C + r'''
String String_concat(String* self, const char* b, int n)
''' + WF_SELF_RO + r'''
__CPROVER_requires(0 <= n && n <= NMAX && __CPROVER_is_fresh(b, n > 0 ? n : 1))
__CPROVER_requires(0 <= g_k && g_k < self->_len + n)
__CPROVER_ensures(RET._len == self->_len + n)
'''.replace('RET', RET) + RET_WF + r'''
__CPROVER_ensures(STR(RET)[g_k] == (g_k < self->_len ? STRP(self)[g_k < self->_len ? g_k : 0] : b[g_k < self->_len ? 0 : g_k - self->_len]))
__CPROVER_assigns()
'''.replace('RET', RET) + r'''@@concat@@
void vf_harness(void) { String* s; const char* b; int n; String r = String_concat(s, b, n); VF_CANARY(); }
''',
    entry='String_concat', variants={'': [NMAX]},
    desc='concat(b,n) (operator+): result = this ++ b, well-formed; operands untouched',
    functions=['String::concat'],
)

ctor_txt_n = Unit(
    'String_ctor_txt_n', 'C03',
    cuts=string_helper_cuts() + [Cut('ctor', H, r'^\tASL_EXPLICIT String\(const char\* txt, int n\)\s*$', **SM)],
    text=PRE + STRING_HELPERS_C + r'''
void String_ctor_txt_n(String* self, const char* txt, int n)
__CPROVER_requires(__CPROVER_is_fresh(self, sizeof(String)))
__CPROVER_requires(0 <= n && n <= NMAX && __CPROVER_is_fresh(txt, n > 0 ? n : 1))
__CPROVER_requires(0 <= g_k && g_k < n)
__CPROVER_ensures(self->_len == n && ((self->_size == 0 && n < ASL_STR_SPACE) || self->_size > n))
__CPROVER_ensures(STRP(self)[n] == 0 && STRP(self)[g_k] == txt[g_k])
__CPROVER_assigns(*self)
@@ctor@@
void vf_harness(void) { String* s; const char* t; int n; String_ctor_txt_n(s, t, n); VF_CANARY(); }
''',
    entry='String_ctor_txt_n', variants={'': [NMAX]},
    desc='String(const char*, int n): copies exactly n bytes, NUL-terminates, capacity > n',
    functions=['String::String(const char*,int)', 'String::alloc', 'String::init'],
)

ctor_copy = Unit(
    'String_ctor_copy', 'C03',
    cuts=string_helper_cuts() + [Cut('ctor', H, r'^\tString\(const String& s\)\s*$', **SM,
                                     post=[(r'String_str\(&s\)', 'String_str(s_p)', None), (r'\bs\._len', 's_p->_len', None)])],
    text=PRE + STRING_HELPERS_C + r'''
void String_ctor_copy(String* self, String* s_p)
__CPROVER_requires(__CPROVER_is_fresh(self, sizeof(String)) && __CPROVER_is_fresh(s_p, sizeof(String)))
__CPROVER_requires(WF_STRING_P(s_p) && STRP(s_p)[s_p->_len] == 0 && s_p->_size <= NMAX)
__CPROVER_requires(0 <= g_k && g_k <= s_p->_len)
__CPROVER_ensures(self->_len == s_p->_len && ((self->_size == 0 && self->_len < ASL_STR_SPACE) || self->_size > self->_len))
__CPROVER_ensures(STRP(self)[g_k] == STRP(s_p)[g_k])
__CPROVER_ensures(self->_size != 0 ==> self->_str != s_p->_str)
__CPROVER_assigns(*self)
@@ctor@@
void vf_harness(void) { String* s; String* t; String_ctor_copy(s, t); VF_CANARY(); }
''',
    entry='String_ctor_copy', variants={'': [NMAX]},
    desc='copy constructor: deep copy with its own buffer, same bytes including the NUL',
    functions=['String::String(const String&)'],
)

append_char = Unit(
    'String_append_char', 'C03',
    cuts=helper_cuts() + [Cut('opc', H, r'^\tString& operator\+=\(char b\)', **SM, rules=RET_THIS, post=DEFARG_RULES)],
    text=PRE + HELPERS + r'''
void String_append_char(String* self, char b)
__CPROVER_requires(__CPROVER_is_fresh(self, sizeof(String)))
__CPROVER_requires(WF_STRING_P(self) && STRP(self)[self->_len] == 0 && self->_size <= NMAX && self->_len < NMAX)
__CPROVER_requires(0 <= g_k && g_k <= self->_len)
__CPROVER_ensures(self->_len == __CPROVER_old(self->_len) + 1)
__CPROVER_ensures((self->_size == 0 && self->_len < ASL_STR_SPACE) || self->_size > self->_len)
__CPROVER_ensures(STRP(self)[self->_len] == 0)
__CPROVER_ensures(STRP(self)[g_k] == (g_k < __CPROVER_old(self->_len) ? __CPROVER_old(STRP(self)[g_k]) : b))
''' + FRAME + r'''@@opc@@
void vf_harness(void) { String* s; char b; String_append_char(s, b); VF_CANARY(); }
''',
    entry='String_append_char', variants={'': [NMAX]},
    desc='operator+=(char) / operator<<(char): appends one byte, keeps the rest, NUL-terminated, grows when needed',
    functions=['String::operator+=(char)', 'String::resize'],
)
UNITS += [substring, substr, concat, ctor_txt_n, ctor_copy, append_char]

# ---------------------------------------------------------------------------------------------
# search: lastIndexOf(const char*) on top of the contract of indexOf(s, i0) (= strstr: first occurrence at or after i0)
last_index = Unit(
    'String_lastIndexOf', 'C03',
    cuts=[Cut('li', S, r'^int String::lastIndexOf\(const char\* s\) const\s*$', methods={'indexOf': 'VF_INDEXOF'},
              rules=[(r'\(int\)strlen\(s\)', 'g_slen', None), (r'strlen\(s\)', 'g_slen', None)], post=[(r'VF_INDEXOF\(self, s, ', 'VF_INDEXOF(', None)],
              loops=[(r'while\s*\(', 0, '''
  __CPROVER_assigns(i, j)
  __CPROVER_loop_invariant(0 <= i && i <= g_len && -1 <= j && j < i && j <= g_last && (g_last < i ==> j == g_last))
  __CPROVER_decreases(g_len - i)
''')])],
    text=r'''
#include "vf_base.h"
int nondet_int(void);
/* ghost description of the text: length g_len, pattern length g_slen >= 1, g_last = position of the LAST occurrence of the pattern (-1: none) */
int g_len, g_slen, g_last;
/* String::indexOf(s, i0) = strstr from offset i0: the FIRST occurrence at or after i0, or -1 */
static int VF_INDEXOF(int i0) { __CPROVER_assert(0 <= i0 && i0 <= g_len, "indexOf start inside the text");
  if (i0 > g_last) return -1; int r = nondet_int(); __CPROVER_assume(i0 <= r && r <= g_last); return r; }
int String_lastIndexOf(void)
__CPROVER_requires(1 <= g_slen && g_slen <= g_len && g_len <= 1000000 && -1 <= g_last && g_last <= g_len - g_slen)
/* the result is the position of the last occurrence (overlapping occurrences included), -1 if there is none */
__CPROVER_ensures(__CPROVER_return_value == g_last)
__CPROVER_assigns()
@@li@@
void vf_harness(void) { String_lastIndexOf(); VF_CANARY(); }
''',
    entry='String_lastIndexOf',
    desc='String::lastIndexOf(const char*): on top of the indexOf/strstr contract, the rescanning loop returns the position of the LAST occurrence for every text and pattern (overlapping matches), and terminates',
    functions=['String::lastIndexOf(const char*)'], trusted=['String::indexOf(s, i0) = strstr: first occurrence at or after i0'],
)
UNITS += [last_index]

# assign(b, n) on a default-constructed String (what String::f does with its stack buffer): contract in the form a caller can use
# (the new heap block, if any, is named by is_fresh in the postcondition).  Enforced on the real body here, used by unit String_f.
ASSIGN_EMPTY_CONTRACT = r'''
void String_assign(String* self, const char* b, int n)
__CPROVER_requires(__CPROVER_is_fresh(self, sizeof(String)) && self->_size == 0 && self->_len == 0 && self->_space[0] == 0)
__CPROVER_requires(0 <= n && n <= NMAX && __CPROVER_is_fresh(b, n > 0 ? n : 1))
__CPROVER_requires(0 <= g_k && g_k < n)
__CPROVER_ensures(self->_len == n)
__CPROVER_ensures(n < ASL_STR_SPACE ? self->_size == 0 : (self->_size > n && __CPROVER_is_fresh(self->_str, self->_size)))
__CPROVER_ensures(STRP(self)[n] == 0 && STRP(self)[g_k] == b[g_k])
__CPROVER_assigns(*self)
'''
assign_empty = Unit(
    'String_assign_from_empty', 'C03',
    cuts=helper_cuts() + [Cut('String_assign', S, r'^void String::assign\(const char\* b, int n\)\s*$', **SM, post=DEFARG_RULES + [ANCHOR_B, alias_block_rule])],
    text=PRE + HELPERS + '#define ALIAS 0\n' + ALIAS_DEFS + ASSIGN_EMPTY_CONTRACT + r'''
@@String_assign@@
void vf_harness(void) { String* s; const char* b; int n; String_assign(s, b, n); VF_CANARY(); }
''',
    entry='String_assign', variants={'': [NMAX]},
    desc='String::assign(b,n) on an empty String: length, NUL, content = b, inline below 16 bytes and a fresh heap block of capacity > n otherwise (caller-side form of the contract, used by String_f)',
    functions=['String::assign', 'String::resize'],
    trusted=['CBMC malloc/memcpy models'],
)
UNITS += [assign_empty]

# ---------------------------------------------------------------------------------------------
# String::f(fmt, ...): the printf-style retry loop (first attempt in a 256-byte stack buffer, then a heap buffer sized from vsnprintf's answer).
# vsnprintf is modelled by its C99 contract over a ghost output: the formatted text has g_L bytes (any g_L), byte g_k of it is g_ch;
# given (p, space) it stores min(g_L, space-1) bytes and a NUL and returns g_L.  The stub asserts that p really has `space` writable bytes.
F_RULES = [(r'va_list arg;', '', 1), (r'va_start\(arg, fmt\);', '', None), (r'va_end\(arg\);', '', None),
           (r'\bvsnprintf\(([^,]+), ([^,]+), fmt, arg\)', r'VF_VSNPRINTF(\1, \2)', '+'),
           (r'\bString s;', 'String s; s._size = 0; s._len = 0; *s._space = 0;   /* String() */', 1),
           (r'\bs\.resize\(([^;]*), false\);', r'String_resize(&s, \1, false, true);', None),
           (r'\bs\.str\(\)', 'String_str(&s)', None), (r'\bs\.assign\(', 'String_assign(&s, ', None),
           (r'return s;', '{ g_res = s; return; }', 1)]
string_f = Unit(
    'String_f', 'C03',
    cuts=helper_cuts() + [Cut('String_f', S, r'^String String::f\(ASL_PRINTF_W1 const char\* fmt, \.\.\.\)\s*$', rules=F_RULES)],
    text=PRE + HELPERS + r'''
#define ALIAS 0
''' + ALIAS_DEFS + r'''
int g_L; char g_ch; int g_calls, g_complete; String g_res;
static int VF_VSNPRINTF(char* p, int space) {
  __CPROVER_assert(space > 0 && __CPROVER_w_ok(p, space), "vsnprintf is told no more room than the buffer it is given has");
  int w = g_L < space ? g_L : space - 1;
  if (g_k < w) p[g_k] = g_ch;
  p[w] = 0;
  g_calls++; g_complete = (g_L < space);
  return g_L;
}
/* contract of String::assign(b, n) on an empty String, enforced on the real body by unit String_assign_from_empty in the same run */''' + ASSIGN_EMPTY_CONTRACT + r''';
void String_f(const char* fmt)
__CPROVER_requires(1 <= g_L && g_L <= NMAX && 0 <= g_k && g_k < g_L && g_ch != 0 && g_calls == 0)
/* the result is the formatted text: its length is what vsnprintf reported, the NUL sits at that offset, every byte before it is a byte of the output (never a NUL) */
__CPROVER_ensures(g_res._len == g_L && STR(g_res)[g_L] == 0 && STR(g_res)[g_k] == g_ch)
__CPROVER_ensures((g_res._size == 0 && g_res._len < ASL_STR_SPACE) || g_res._size > g_res._len)
__CPROVER_ensures(g_complete)
__CPROVER_assigns(g_res, g_calls, g_complete)
@@String_f@@
void vf_harness(void) { const char* fmt; int L; g_L = L; /* (visible in traces) */ String_f(fmt); VF_CANARY(); }
''',
    replay=replay.from_trace('C03/driver.cpp', ['g_L'], lambda v: ['fmt', v['g_L']]),
    entry='String_f', replace=['String_assign'], unwind=3,   # C99 vsnprintf: at most one retry; the unwinding assertion proves it
    variants={'': [NMAX]},
    desc='String::f retry loop for EVERY output length 1..100000 (crossing the 254/255/256-byte stack-buffer boundary): vsnprintf is never told more room than the buffer has, '
         'the result has length = the formatted length with its NUL there and no NUL before it',
    functions=['String::f', 'String::resize'],
    trusted=['vsnprintf modelled by its C99 contract (returns the untruncated length; stores min(L, space-1) bytes + NUL); the pre-C99 "-1 on truncation" behaviour is not modelled',
             'String::assign by its contract (unit String_assign_from_empty)'],
    planted=[('String_f', r'n >= space\) && \+\+i', 'n > space) && ++i')],
)
UNITS += [string_f]

# ---------------------------------------------------------------------------------------------
# split(sep, out) and replace(a, b): one turn of their scanning loops.  indexOf(pattern, i0) is strstr(str() + i0, pattern): the stub states its contract
# (needs 0 <= i0 <= length, i.e. a start inside the text or at its NUL; returns -1 or the first position >= i0 where the pattern fits) and checks the precondition.
def for_turn_rule(text):
    """one turn of `for (int V = INIT; COND; STEP) BODY`:  `int V = *V_p; if (COND) { BODY STEP; } *V_p = V;`  (V's value on entry is the contract's *V_p;
    test, body and step are the loop's own text)"""
    import re
    from vf.core import find_code, match_close
    m = re.search(r'for\s*\(\s*int (\w+)\s*=\s*[^;]+;\s*([^;]+);\s*([^)]+)\)', text)
    if not m:
        return text, 0
    b = find_code(text, '{', m.end())
    if text[m.end():b].strip():
        return text, 0
    e = match_close(text, b)
    v = m.group(1)
    return text[:m.start()] + 'int %s = *%s_p; if (%s) { %s %s; } *%s_p = %s;' % (v, v, m.group(2), text[b:e + 1], m.group(3), v, v) + text[e + 1:], 1
for_turn_rule.must_fire = True
SCAN_PRE = r'''
#include "vf_base.h"
int nondet_int(void);
int g_n, g_m, g_pieces, g_piece_from, g_piece_to, g_bcopies, g_tail_from, g_tail_len, g_done;
static int INDEXOF_FROM(int i0) { __CPROVER_assert(0 <= i0 && i0 <= g_n, "indexOf(pattern, i0): the search starts inside the text (strstr must not start behind the NUL)");
  int j = nondet_int(); __CPROVER_assume(j == -1 || (i0 <= j && j <= g_n - g_m)); return j; }
static void OUT_PIECE(int i, int j) { __CPROVER_assert(0 <= i && i <= j && j <= g_n, "substring(i, j): 0 <= i <= j <= length (C03 contract of substring)"); g_pieces++; g_piece_from = i; g_piece_to = j; }
'''
split_turn = Unit(
    'String_split_turn', 'C03',
    cuts=[Cut('sp', S, r'^void String::split\(const String& sep, Array<String>& out\) const\s*$',
              rules=[(r'out\.clear\(\);', '', 1), (r'int j=0, m=sep\.length\(\), n=length\(\);', 'int j=0, m=g_m, n=g_n;', 1),
                     for_turn_rule,      # one turn of the for loop: its test, its body once, its own step expression
                     (r'\bindexOf\(sep, i\)', 'INDEXOF_FROM(i)', 1), (r'out << substring\(i, j\);', 'OUT_PIECE(i, j);', 1)])],
    text=SCAN_PRE + r'''
void split_turn(int* i_p)
__CPROVER_requires(__CPROVER_is_fresh(i_p, sizeof(int)) && 0 <= g_n && g_n <= 1000000 && 1 <= g_m && g_m <= 1000000 && 0 <= *i_p && *i_p <= g_n && g_pieces == 0)
/* one turn emits exactly one piece [i, j): j is the next occurrence of the separator at or after i, or the end of the text; the next piece starts right behind that separator,
   strictly further on (termination for a non-empty separator); the turn that reaches the end of the text moves i past it, which ends the loop */
__CPROVER_ensures(g_pieces == 1 && g_piece_from == __CPROVER_old(*i_p) && g_piece_from <= g_piece_to && g_piece_to <= g_n)
__CPROVER_ensures(*i_p == g_piece_to + g_m && *i_p > __CPROVER_old(*i_p))
__CPROVER_ensures(g_piece_to == g_n ==> *i_p > g_n)
__CPROVER_assigns(*i_p, g_pieces, g_piece_from, g_piece_to)
@@sp@@
void vf_harness(void) { int* p; split_turn(p); VF_CANARY(); }
''',
    entry='split_turn',
    desc='String::split(sep, out), one turn for ANY text length, separator length >= 1 and search result: the piece is [i, next separator or end), substring arguments in range, indexOf never starts behind the NUL, '
         'the next piece starts right after the separator and strictly further on; so the pieces tile the text with exactly one separator between neighbours (split then join is the identity: paper step over the turns)',
    functions=['String::split(const String&, Array<String>&)'],
    trusted=['indexOf(pattern, i0) = first occurrence at or after i0 or -1 (strstr, libc); substring by its contract (unit String_substring)'],
    assumes=['the separator is not empty (the statement quantifies over non-empty separators; with an empty one the loop does not advance)'],
    planted=[('sp', r'i=j\+m; \}', 'i=j+1; }')],
)
replace_turn = Unit(
    'String_replace_turn', 'C03',
    cuts=[Cut('rp', S, r'^String String::replace\(const String& a, const String& b\) const\s*$',
              rules=[(r'int j = indexOf\(a\), m = a\.length\(\);\s*if\(j==-1\)\s*return \*this;\s*String out\(length\(\), 0\);\s*out << substring\(0, j\);',
                      'int j = g_j0, m = g_m;   /* (prefix of the function: first occurrence j, out = text before it - not part of this turn) */', 1),
                     (r'(?<![\w.>])length\(\)', 'g_n', None), (r'\bindexOf\(a, i\)', 'INDEXOF_FROM(i)', 1), (r'out << b;', 'g_bcopies++;', 1),
                     (r'out\.append\(str\(\) \+ i, j - i\);', 'OUT_TAIL(i, j - i);', 1), (r'return out;', 'return;', 1), for_turn_rule])],
    text=SCAN_PRE + r'''
int g_j0;
static void OUT_TAIL(int from, int len) { __CPROVER_assert(0 <= from && 0 <= len && from + len <= g_n, "append(str() + i, j - i) reads inside the text"); g_tail_from = from; g_tail_len = len; g_pieces++; }
void replace_turn(int* i_p)
__CPROVER_requires(__CPROVER_is_fresh(i_p, sizeof(int)) && 0 <= g_n && g_n <= 1000000 && 1 <= g_m && g_m <= 1000000 && 0 <= g_j0 && g_j0 <= g_n - g_m && *i_p == g_j0 + g_m && g_pieces == 0 && g_bcopies == 0)
/* one turn writes one copy of b for the occurrence that ended at i, then the text up to the next occurrence (or the end); the next turn starts behind that occurrence, strictly further on */
__CPROVER_ensures(g_bcopies == 1 && g_pieces == 1 && g_tail_from == __CPROVER_old(*i_p) && g_tail_from + g_tail_len <= g_n)
__CPROVER_ensures(*i_p == g_tail_from + g_tail_len + g_m && *i_p > __CPROVER_old(*i_p))
__CPROVER_assigns(*i_p, g_pieces, g_bcopies, g_tail_from, g_tail_len)
@@rp@@
void vf_harness(void) { int* p; replace_turn(p); VF_CANARY(); }
''',
    entry='replace_turn',
    desc='String::replace(a, b), one turn of its loop for ANY text, pattern length >= 1 and search result: one copy of b per occurrence, the text between occurrences copied from inside the string, '
         'indexOf never starts behind the NUL, strict progress',
    functions=['String::replace(const String&, const String&) (loop)'],
    trusted=['indexOf(pattern, i0) = first occurrence at or after i0 or -1 (strstr, libc); String::append by its contract (unit String_append)'],
    assumes=['the pattern is not empty'],
)
UNITS += [split_turn, replace_turn]

# ---------------------------------------------------------------------------------------------
# trim() / trimmed() on every inline string (length 0..15, any bytes): result = the text without leading and trailing space / tab / LF / CR, computed independently in the harness
TRIM_SPEC = r"""
#define SPEC_WS(c) ((c) == ' ' || (c) == '\t' || (c) == '\n' || (c) == '\r')
int nondet_int(void); char nondet_char(void);
static bool myisspace(char c) @@isspace@@
"""
def _trim_unit(name, loc, call, result, desc, extra_cuts=(), extra_text=''):
    return Unit(
        name, 'C03',
        cuts=helper_cuts() + [Cut('isspace', 'include/asl/defs.h', r'^inline bool myisspace\(char c\)\s*$')] + list(extra_cuts) + [Cut('body', S, loc, **SM, rules=RET_THIS, post=DEFARG_RULES)],
        text=PRE + HELPERS + TRIM_SPEC + extra_text + r"""
static void String_trim_body(String* self) @@body@@
void vf_harness(void) {
  String s; s._size = 0; s._len = nondet_int(); __CPROVER_assume(0 <= s._len && s._len < ASL_STR_SPACE);
  char ref[ASL_STR_SPACE];
  for (int i = 0; i < ASL_STR_SPACE; i++) { char c = nondet_char(); if (i < s._len) __CPROVER_assume(c != 0); else c = 0; s._space[i] = c; ref[i] = c; }
  int n = s._len, I = 0, J;
  while (I < n && SPEC_WS(ref[I])) I++;                       /* first character that is not white space (n if none) */
  J = n - 1; while (J >= I && SPEC_WS(ref[J])) J--;           /* last one */
  """ + call + r"""
  __CPROVER_assert(""" + result + r"""._len == J - I + 1, "length of the trimmed text");
  __CPROVER_assert(STR(""" + result + r""")[""" + result + r"""._len] == 0, "NUL at the length");
  int k = nondet_int(); __CPROVER_assume(0 <= k && k < J - I + 1);
  __CPROVER_assert(STR(""" + result + r""")[k] == ref[I + k], "the characters between the first and the last non-space character, unchanged and in order");
  VF_CANARY();
}
""",
        entry=None, unwind=18, floor=3, expect=['assertion'],
        desc=desc, functions=[name.replace('String_', 'String::').replace('_inline', '')],
    )
trim_unit = _trim_unit('String_trim_inline', r'^String& String::trim\(\)\s*$', 'String_trim_body(&s);', 's',
                       'String::trim() on EVERY inline string (0..15 bytes): the text between the first and last non-white-space character, in place, NUL-terminated at its length; whitespace-only and empty strings give the empty string')
UNITS += [trim_unit]

trimmed_unit = Unit(
    'String_trimmed_inline', 'C03',
    cuts=helper_cuts() + [Cut('isspace', 'include/asl/defs.h', r'^inline bool myisspace\(char c\)\s*$'),
                          Cut('body', S, r'^String String::trimmed\(\) const\s*$', **SM, rules=[(r'return substring\((\w+), ([^;]+)\);', r'{ g_from = \1; g_to = \2; return; }', 1)])],
    text=PRE + HELPERS + TRIM_SPEC + r"""
int g_from, g_to;
static void String_trimmed_body(String* self) @@body@@
void vf_harness(void) {
  String s; s._size = 0; s._len = nondet_int(); __CPROVER_assume(0 <= s._len && s._len < ASL_STR_SPACE);
  char ref[ASL_STR_SPACE];
  for (int i = 0; i < ASL_STR_SPACE; i++) { char c = nondet_char(); if (i < s._len) __CPROVER_assume(c != 0); else c = 0; s._space[i] = c; ref[i] = c; }
  int n = s._len, I = 0, J;
  while (I < n && SPEC_WS(ref[I])) I++;
  J = n - 1; while (J >= I && SPEC_WS(ref[J])) J--;
  String_trimmed_body(&s);
  __CPROVER_assert(0 <= g_from && g_from <= g_to && g_to <= n, "substring(i, j): 0 <= i <= j <= length (C03 contract of substring)");
  __CPROVER_assert(g_from == I && g_to == J + 1, "trimmed() is the substring from the first to the last non-white-space character");
  VF_CANARY();
}
""",
    entry=None, unwind=18, floor=2, expect=['assertion'],
    desc='String::trimmed() on EVERY inline string: returns substring(first non-white-space, last non-white-space + 1), arguments in range also for empty and whitespace-only strings',
    functions=['String::trimmed'], trusted=['substring by its contract (unit String_substring)'],
    planted=[('body', r'g_to = j\+1', 'g_to = j')],
)
UNITS += [trimmed_unit]

# String(int n, fmt, ...): the same retry loop on the string's own buffer (first attempt in the capacity the caller asked for)
ctor_fmt = Unit(
    'String_ctor_fmt', 'C03',
    cuts=helper_cuts() + [Cut('body', S, r'^String::String\(int n, ASL_PRINTF_W1 const char\* fmt, \.\.\.\)\s*$', **SM,
                              rules=[(r'va_list arg;', '', 1), (r'va_start\(arg, fmt\);', '', None), (r'va_end\(arg\);', '', None),
                                     (r'\bvsnprintf\(([^,]+), ([^,]+), fmt, arg\)', r'VF_VSNPRINTF(\1, \2)', '+')], post=DEFARG_RULES + [(r'String_resize\((self), ([^;]*), false\);', r'String_resize(\1, \2, false, true);', None)])],
    text=PRE + HELPERS + r"""
int g_L; char g_ch; int g_calls, g_complete;
static int VF_VSNPRINTF(char* p, int space) {
  __CPROVER_assert(space > 0 && __CPROVER_w_ok(p, space), "vsnprintf is told no more room than the buffer it is given has");
  int w = g_L < space ? g_L : space - 1;
  if (g_k < w) p[g_k] = g_ch;
  p[w] = 0;
  g_calls++; g_complete = (g_L < space);
  return g_L;
}
void String_ctor_fmt(String* self, int n, const char* fmt)
__CPROVER_requires(__CPROVER_is_fresh(self, sizeof(String)) && 0 <= n && n <= NMAX)
__CPROVER_requires(1 <= g_L && g_L <= NMAX && 0 <= g_k && g_k < g_L && g_ch != 0 && g_calls == 0)
/* whatever capacity hint the caller gives: length = formatted length, NUL there, no NUL before, capacity above the length */
__CPROVER_ensures(self->_len == g_L && STRP(self)[g_L] == 0 && STRP(self)[g_k] == g_ch && g_complete)
__CPROVER_ensures((self->_size == 0 && self->_len < ASL_STR_SPACE) || self->_size > self->_len)
__CPROVER_assigns(*self, g_calls, g_complete)
@@body@@
void vf_harness(void) { String* s; int n; const char* fmt; int L; g_L = L; String_ctor_fmt(s, n, fmt); VF_CANARY(); }
""",
    entry='String_ctor_fmt', unwind=3, variants={'': [NMAX]},
    replay=replay.from_trace('C03/driver.cpp', ['g_L'], lambda v: ['fmt', v['g_L']]),
    desc='String(int n, fmt, ...) for EVERY capacity hint n and EVERY output length 1..100000: vsnprintf is never told more room than the buffer has, the result has length = the formatted length with its NUL there',
    functions=['String::String(int, const char*, ...)', 'String::resize', 'String::alloc'],
    trusted=['vsnprintf modelled by its C99 contract (returns the untruncated length; stores min(L, space-1) bytes + NUL)'],
    planted=[('body', r'n >= space\) && \+\+i', 'n > space) && ++i')],
)
UNITS += [ctor_fmt]

# ---- operator<(const String&): the order used by Array<String>::sort and by generic code - byte-wise lexicographic, a proper prefix is smaller
lt_unit = Unit(
    'String_less', 'C03',
    cuts=[Cut('lt', H, r'^\tbool operator<\(const String& s\) const ', rules=[(r'\bs\.str\(\)', 'b', None), (r'(?<![\w.>])str\(\)', 'a', None), (r'\bs\._len\b', 'b_len', None), (r'\b_len\b', 'a_len', None), (r'\bs\.length\(\)', 'b_len', None), (r'(?<![\w.>])length\(\)', 'a_len', None)])],
    text=r'''
#include "vf_base.h"
#define NS 4
#define min(x, y) ((x) < (y) ? (x) : (y))
int a_len, b_len;
static int strcmp(const char* x, const char* y) { for (int i = 0; i <= NS; i++) { unsigned char c = (unsigned char)x[i], d = (unsigned char)y[i]; if (c != d) return c < d ? -1 : 1; if (c == 0) return 0; } return 0; }
static int memcmp(const void* x, const void* y, unsigned long n) { const unsigned char *u = x, *v = y; for (unsigned long i = 0; i < n && i <= NS; i++) if (u[i] != v[i]) return u[i] < v[i] ? -1 : 1; return 0; }
static bool String_less(const char* a, const char* b) @@lt@@
int nondet_int(void); char nondet_char(void);
void vf_harness(void) {
  char a[NS + 1], b[NS + 1]; a_len = nondet_int(); b_len = nondet_int(); __CPROVER_assume(0 <= a_len && a_len <= NS && 0 <= b_len && b_len <= NS);
  for (int i = 0; i <= NS; i++) { a[i] = i < a_len ? nondet_char() : 0; b[i] = i < b_len ? nondet_char() : 0; __CPROVER_assume(i >= a_len || a[i] != 0); __CPROVER_assume(i >= b_len || b[i] != 0); }
  int same = a_len == b_len; for (int i = 0; i < NS; i++) if (a[i] != b[i]) same = 0;
  bool ab = String_less(a, b), ba = String_less(b, a);
  __CPROVER_assert(!(ab && ba), "asymmetric");
  __CPROVER_assert(same || ab || ba, "total: two different strings (a proper prefix and the empty string included) are ordered one way");
  __CPROVER_assert(ab == (strcmp(a, b) < 0), "byte-wise lexicographic order");
  VF_CANARY();
}
''',
    entry=None, unwind=8, floor=3, expect=['assertion'], kind='bounded', bound='strings of 0..4 bytes',
    desc='String::operator<: a strict total order on strings (proper prefixes and the empty string included), byte-wise lexicographic',
    functions=['String::operator<(const String&)'],
)
UNITS += [lt_unit]

# replay: where the trace recipe of a unit does not reproduce (or there is none) the driver's battery runs on the real library: asl::String against std::string for lengths
# straddling 15/16, 20/24, 255/256 and 1 KiB - construction, +=, append/assign (also of own pieces), substring/substr, resize, formatting, search, split/join, replace, trim, integers
_bat = replay.battery('C03/driver.cpp', ['battery'])
for _u in UNITS:
    _u.replay = replay.first_of(_u.replay, _bat) if _u.replay else _bat

# planted one-token breaks for the newer units (thorough tier: each must make an obligation fail)
trim_unit.planted = [('body', r'_len = j - i \+ 1', '_len = j - i')]   # (j >= i -> j > i is equivalent: s[i] is known not to be white space)
replace_turn.planted = [('rp', r'i=j\+m; \}', 'i=j+1; }')]
