"""C02 - Map, Dic, HashMap, HashDic, Set (include/asl/Map.h, HashMap.h, Set.h)"""
from vf.core import Unit, Cut
from vf import replay

M, HM, ST = 'include/asl/Map.h', 'include/asl/HashMap.h', 'include/asl/Set.h'
LEVEL = 'other'
EXPLANATION = ('nextPoT is proved for all 32-bit n. Map::indexOf needs a sortedness hypothesis quantified over the array: CBMC cannot take a quantified '
               'precondition over a symbolic range (DESIGN 2), so it is checked for every sorted array of up to 8 keys (constant-bound), symbolic keys. '
               'HashMap bucket-chain operations are checked on chains of up to 3 colliding nodes (collisions are the only interesting case).')

PRE = r'''
#include "vf_base.h"
int g_k;
'''
# ---- nextPoT: full domain, loop-free
nextPoT = Unit(
    'nextPoT', 'C02',
    cuts=[Cut('npt', HM, r'^inline int nextPoT\(int n\)\s*$')],
    text=PRE + r'''
int nextPoT(int n)
__CPROVER_requires(1 <= n && n <= (1 << 30))
/* a power of two, >= n, < 2n: hence (hash & (nextPoT(n) - 1)) is a valid bucket offset for every hash value */
__CPROVER_ensures(__CPROVER_return_value >= n && (__CPROVER_return_value & (__CPROVER_return_value - 1)) == 0 && __CPROVER_return_value / 2 < n)
__CPROVER_assigns()
@@npt@@
void vf_harness(void) { int n; nextPoT(n); VF_CANARY(); }
''',
    entry='nextPoT', desc='nextPoT(n) for every n in 1..2^30: smallest power of two >= n', functions=['nextPoT'],
    planted=[('npt', r'n \|= n >> 8;', '')],
)

# ---- Map<int,int>::indexOf on a sorted array of up to 8 keys
MAPDEF = r'''
typedef struct KeyVal { int key; int value; } KeyVal;
#define ELEM KeyVal
#include "vf_array.h"
char* g_block; int g_ctor, g_dtor;
typedef struct Map { Array a; } Map;
#define BLK ((Data*)g_block)
#define KV ((KeyVal*)(g_block + sizeof(Data)))
static int compare(int a, int b) @@cmp@@
#ifndef NMAXK
#define NMAXK 8
#endif
/* keys strictly ascending (the representation invariant of Map): constant bound, expanded by the SAT back end */
#define SORTED (BLK->n < 2 || KV[0].key < KV[1].key) && (BLK->n < 3 || KV[1].key < KV[2].key) && (BLK->n < 4 || KV[2].key < KV[3].key) && (BLK->n < 5 || KV[3].key < KV[4].key) \
            && (BLK->n < 6 || KV[4].key < KV[5].key) && (BLK->n < 7 || KV[5].key < KV[6].key) && (BLK->n < 8 || KV[6].key < KV[7].key)
#define MAP_REQ __CPROVER_requires(__CPROVER_is_fresh(self, sizeof(Map)) && __CPROVER_is_fresh(g_block, sizeof(Data) + NMAXK * sizeof(KeyVal))) \
                __CPROVER_requires(self->a._a == KV && BLK->s == NMAXK && 0 <= BLK->n && BLK->n <= NMAXK && BLK->rc >= 1 && SORTED)
#define VF_ANCHOR __CPROVER_assert(self->a._a == KV && BLK->s == NMAXK, "anchor"); self->a._a = KV; BLK->s = NMAXK;
'''
CMP = lambda: Cut('cmp', M, r'^inline int compare\(const T& a, const T& b\) ')
MAP_RULES = [(r'(?<![\w.>])a\[(\w+)\]', r'self->a._a[\1]', None), (r'(?<![\w.>])length\(\)', 'HDR(&self->a)->n', None)]

indexOf = Unit(
    'Map_indexOf', 'C02',
    cuts=[CMP(), Cut('io', M, r'^int Map<K,T>::indexOf\(const K& key\) const\s*$', rules=MAP_RULES, post=[(r'\A\{', '{ VF_ANCHOR ', 1)])],
    text=PRE + MAPDEF + r'''
int Map_indexOf(Map* self, int key)
MAP_REQ
__CPROVER_requires(0 <= g_k && g_k < BLK->n)
/* found: the index of that key; not found: -(insertion point)-1 with every smaller key before it and every larger one from it on */
__CPROVER_ensures(__CPROVER_return_value >= -BLK->n - 1 && __CPROVER_return_value < BLK->n)
__CPROVER_ensures(__CPROVER_return_value >= 0 ==> KV[__CPROVER_return_value >= 0 ? __CPROVER_return_value : 0].key == key)
__CPROVER_ensures(__CPROVER_return_value < 0 ==> (g_k < -__CPROVER_return_value - 1 ? KV[g_k].key < key : KV[g_k].key > key))
__CPROVER_assigns(self->a._a, BLK->s)
@@io@@
void vf_harness(void) { Map* m; int key; Map_indexOf(m, key); VF_CANARY(); }
''',
    entry='Map_indexOf', kind='bounded', bound='at most 8 keys; keys and the searched key symbolic', unwind=6,
    desc='Map::indexOf (binary search) on every strictly sorted array of 0..8 int keys: finds the key iff present, else returns the sorted insertion point; all accesses in bounds',
    functions=['Map::indexOf', 'compare'],
    planted=[('io', r'return -max-1;', 'return -max-2;')],
)

A = 'include/asl/Array.h'
from units.C01 import D_RULE, LIFE, RET_THIS, AM
ARR_INSERT = lambda: Cut('insert', A, r'^Array<T>& Array<T>::insert\(int k, const T& x\)\s*$', **AM, rules=[D_RULE, RET_THIS] + LIFE)
ARR_REMOVE = lambda: [Cut('reserve_b', A, r'^Array<T>& Array<T>::reserve\(int m\)\s*$', **AM, rules=[D_RULE, RET_THIS]),
                      Cut('resize_b', A, r'^\tArray& resize\(int m\)\s*$', **AM, rules=[D_RULE, RET_THIS] + LIFE),
                      Cut('remove_b', A, r'^\tArray& remove\(int i, int n = 1\)\s*$', **AM, rules=[D_RULE, RET_THIS] + LIFE)]
IO_INLINE = lambda: Cut('io', M, r'^int Map<K,T>::indexOf\(const K& key\) const\s*$', rules=MAP_RULES)

map_set = Unit(
    'Map_set', 'C02',
    cuts=[CMP(), IO_INLINE(), ARR_INSERT(),
          Cut('set', M, r'^\tMap& set\(const K& key, const T& value\)\s*$',
              rules=MAP_RULES + [(r'(?<![\w.>])indexOf\(', 'Map_indexOf(self, ', None), (r'\ba\.insert\(([^,]+), KeyVal\(key, value\)\);', r'{ KeyVal vf_kv = { key, value }; Array_insert(&self->a, \1, &vf_kv); }', 1),
                               (r'(int i=Map_indexOf\(self, key\);)', r'\1 g_pos = i >= 0 ? i : -i-1; g_found = i >= 0;', 1), RET_THIS],
              post=[(r'\A\{', '{ VF_ANCHOR ', 1)])],
    text=PRE + MAPDEF + r"""
int g_pos, g_found;
static int Map_indexOf(Map* self, int key) @@io@@
static void Array_insert(Array* self, int k, const KeyVal* x_p) @@insert@@
void Map_set(Map* self, int key, int value)
MAP_REQ
__CPROVER_requires(0 <= g_k && g_k < NMAXK && 0 <= g_ctor && g_ctor < 1000)
/* view' = view[key -> value]: the key is present with that value, every other pair is kept, the keys stay strictly ascending,
   and the length grows by one exactly when the key was absent */
__CPROVER_ensures(HDR(&self->a)->n == __CPROVER_old(BLK->n) + (g_found ? 0 : 1))
__CPROVER_ensures(0 <= g_pos && g_pos < HDR(&self->a)->n && self->a._a[g_pos].key == key && self->a._a[g_pos].value == value)
__CPROVER_ensures(g_k + 1 < HDR(&self->a)->n ==> self->a._a[g_k].key < self->a._a[g_k + 1].key)
__CPROVER_ensures((g_k < __CPROVER_old(BLK->n) && !(g_found && g_k == g_pos)) ==>
   (self->a._a[(g_found || g_k < g_pos) ? g_k : g_k + 1].key == __CPROVER_old(KV[g_k].key) && self->a._a[(g_found || g_k < g_pos) ? g_k : g_k + 1].value == __CPROVER_old(KV[g_k].value)))
__CPROVER_assigns(*self, __CPROVER_object_whole(g_block), g_ctor, g_pos, g_found)
__CPROVER_frees(g_block)
@@set@@
void vf_harness(void) { Map* m; int k, v; Map_set(m, k, v); VF_CANARY(); }
""",
    entry='Map_set', kind='bounded', bound='at most 4 keys before the call (capacity 4: the 5th insertion reallocates)', unwind=40, timeout=600, variants={'': ['-DNMAXK=4']},
    desc='Map::set / operator(): finite-map update on every sorted map of 0..8 int keys: overwrite or sorted insertion, all other pairs kept, keys stay strictly ascending (= ascending enumeration)',
    functions=['Map::set', 'Map::indexOf', 'Array::insert'],
)

map_remove = Unit(
    'Map_remove', 'C02',
    cuts=[CMP(), IO_INLINE()] + ARR_REMOVE() + [
          Cut('rm', M, r'^\tbool remove\(const K& key\)\s*$',
              rules=MAP_RULES + [(r'(?<![\w.>])indexOf\(', 'Map_indexOf(self, ', None), (r'\ba\.remove\(i\);', 'Array_remove(&self->a, i, 1);', 1),
                                 (r'(int i = Map_indexOf\(self, key\);)', r'\1 g_pos = i;', 1)],
              post=[(r'\A\{', '{ VF_ANCHOR ', 1)])],
    text=PRE + MAPDEF + r"""
int g_pos;
static int Map_indexOf(Map* self, int key) @@io@@
static void Array_reserve(Array* self, int m) @@reserve_b@@
static void Array_resize(Array* self, int m) @@resize_b@@
static void Array_remove(Array* self, int i, int n) @@remove_b@@
bool Map_remove(Map* self, int key)
MAP_REQ
__CPROVER_requires(0 <= g_k && g_k < BLK->n && 0 <= g_dtor && g_dtor < 1000 && 0 <= g_ctor && g_ctor < 1000)
/* view' = view \ {key}: returns whether it was present; all other pairs kept in order */
__CPROVER_ensures(__CPROVER_return_value == (g_pos >= 0))
__CPROVER_ensures(HDR(&self->a)->n == __CPROVER_old(BLK->n) - (g_pos >= 0 ? 1 : 0))
__CPROVER_ensures((g_pos >= 0 && g_k == g_pos) ==> __CPROVER_old(KV[g_k].key) == key)
__CPROVER_ensures(g_pos < 0 ==> __CPROVER_old(KV[g_k].key) != key)
__CPROVER_ensures((g_pos < 0 || g_k != g_pos) ==>
   (self->a._a[(g_pos < 0 || g_k < g_pos) ? g_k : g_k - 1].key == __CPROVER_old(KV[g_k].key) && self->a._a[(g_pos < 0 || g_k < g_pos) ? g_k : g_k - 1].value == __CPROVER_old(KV[g_k].value)))
__CPROVER_assigns(*self, __CPROVER_object_whole(g_block), g_ctor, g_dtor, g_pos)
__CPROVER_frees(g_block)
@@rm@@
void vf_harness(void) { Map* m; int k; Map_remove(m, k); VF_CANARY(); }
""",
    entry='Map_remove', kind='bounded', bound='at most 8 keys', unwind=40, timeout=600,
    desc='Map::remove(key): removes exactly that pair iff present, keeps the others in order',
    functions=['Map::remove', 'Map::indexOf', 'Array::remove'],
)
UNITS = [nextPoT, indexOf, map_set, map_remove]

# ---- Map::operator==
map_eq = Unit(
    'Map_eq', 'C02',
    cuts=[CMP(), Cut('eq', M, r'^\tbool operator==\(const Map& b\) const\s*$',
              rules=[(r'\bb\.a\[(\w+)\]', r'b_p->a._a[\1]', None), (r'\bb\.length\(\)', 'HDR(&b_p->a)->n', None), (r'(?<![\w.>])a\.length\(\)', 'HDR(&self->a)->n', None)] + MAP_RULES,
              post=[(r'\A\{', '{ VF_ANCHOR __CPROVER_assert(b_p->a._a == KV2, "anchor b"); ((Map*)b_p)->a._a = KV2; ', 1)])],
    text=PRE + MAPDEF + r"""
char* g_block2;
#define BLK2 ((Data*)g_block2)
#define KV2 ((KeyVal*)(g_block2 + sizeof(Data)))
#define PAIR_EQ(i) (KV[i].key == KV2[i].key && KV[i].value == KV2[i].value)
#define ALL_EQ ((BLK->n < 1 || PAIR_EQ(0)) && (BLK->n < 2 || PAIR_EQ(1)) && (BLK->n < 3 || PAIR_EQ(2)) && (BLK->n < 4 || PAIR_EQ(3)) && (BLK->n < 5 || PAIR_EQ(4)) && (BLK->n < 6 || PAIR_EQ(5)) && (BLK->n < 7 || PAIR_EQ(6)) && (BLK->n < 8 || PAIR_EQ(7)))
bool Map_eq(Map* self, const Map* b_p)
MAP_REQ
__CPROVER_requires(__CPROVER_is_fresh(b_p, sizeof(Map)) && __CPROVER_is_fresh(g_block2, sizeof(Data) + NMAXK * sizeof(KeyVal)) && b_p->a._a == KV2 && 0 <= BLK2->n && BLK2->n <= NMAXK)
/* equal exactly when both hold the same pairs (both are sorted, so position by position) */
__CPROVER_ensures(__CPROVER_return_value == (BLK->n == BLK2->n && ALL_EQ))
__CPROVER_assigns(self->a._a, BLK->s, b_p->a._a)
@@eq@@
void vf_harness(void) { Map* m; const Map* b; Map_eq(m, b); VF_CANARY(); }
""",
    entry='Map_eq', kind='bounded', bound='at most 8 keys', unwind=10,
    desc='Map::operator==: true exactly when lengths agree and every pair (key and value) agrees', functions=['Map::operator=='],
)

# ---- HashMap<int,int>: operations on ONE bucket chain of up to 3 colliding nodes
CHAIN = r'''
typedef struct KeyValN { int key; int value; struct KeyValN* next; } KeyValN;
KeyValN *g_n0, *g_n1, *g_n2; int g_L;             /* the chain: g_L nodes, in order */
KeyValN** vf_bucket; int* vf_n;                   /* a[bin] and _n() */
int g_new; KeyValN* g_newnode;
static void vf_delete(KeyValN* p) { free(p); }    /* delete p */
/* rehash() may rebuild the table: a bucket index or chain pointer taken BEFORE it belongs to the old table */
int g_bin_taken;
static void VF_BIN(void) { g_bin_taken = 1; }
static void VF_REHASH(void) { __CPROVER_assert(!g_bin_taken, "the table is grown before the bucket of the key is chosen (an index computed for the old table must not be used in the new one)"); }
static KeyValN* vf_new(int key) { KeyValN* p = malloc(sizeof(KeyValN)); __CPROVER_assume(p != 0); p->key = key; p->value = 0; p->next = 0; g_new++; g_newnode = p; return p; }
#define NODE(i) ((i) == 0 ? g_n0 : (i) == 1 ? g_n1 : g_n2)
#define CHAIN_REQ __CPROVER_requires(g_bin_taken == 0) __CPROVER_requires(__CPROVER_is_fresh(vf_bucket, sizeof(KeyValN*)) && __CPROVER_is_fresh(vf_n, sizeof(int)) && 0 <= g_L && g_L <= 3 && *vf_n >= g_L && *vf_n < 1000000) \
   __CPROVER_requires(__CPROVER_is_fresh(g_n0, sizeof(KeyValN)) && __CPROVER_is_fresh(g_n1, sizeof(KeyValN)) && __CPROVER_is_fresh(g_n2, sizeof(KeyValN))) \
   __CPROVER_requires(*vf_bucket == (g_L >= 1 ? g_n0 : (KeyValN*)0) && g_n0->next == (g_L >= 2 ? g_n1 : (KeyValN*)0) && g_n1->next == (g_L >= 3 ? g_n2 : (KeyValN*)0) && g_n2->next == (KeyValN*)0) \
   __CPROVER_requires(g_n0->key != g_n1->key && g_n0->key != g_n2->key && g_n1->key != g_n2->key)     /* keys of a map are distinct */
/* the links are assumed equalities between nondeterministic pointers: re-assign them so that CBMC knows where they point */
#define VF_ANCHOR_CHAIN __CPROVER_assert(*vf_bucket == (g_L >= 1 ? g_n0 : (KeyValN*)0) && g_n0->next == (g_L >= 2 ? g_n1 : (KeyValN*)0) && g_n1->next == (g_L >= 3 ? g_n2 : (KeyValN*)0), "anchor chain"); \
   *vf_bucket = (g_L >= 1 ? g_n0 : (KeyValN*)0); g_n0->next = (g_L >= 2 ? g_n1 : (KeyValN*)0); g_n1->next = (g_L >= 3 ? g_n2 : (KeyValN*)0); g_n2->next = 0;
/* index of the node holding key, or -1 (pre-state keys) */
#define K0 __CPROVER_old(g_n0->key)
#define K1 __CPROVER_old(g_n1->key)
#define K2 __CPROVER_old(g_n2->key)
#define J ((g_L >= 1 && K0 == key) ? 0 : (g_L >= 2 && K1 == key) ? 1 : (g_L >= 3 && K2 == key) ? 2 : -1)
'''
HM_RULES = [(r'\ba\[bin\]', '(*vf_bucket)', None), (r'\ba\[binOf\(key\)\]', '(*vf_bucket)', None), (r'int bin = binOf\(key\);', 'VF_BIN();', None), (r'(?<![\w.>])_n\(\)', '(*vf_n)', None),
            (r'\bdelete p;', 'vf_delete(p);', None), (r'new KeyValN\(key, T\(\)\)', 'vf_new(key)', None), (r'(?<![\w.>])rehash\(\);', 'VF_REHASH();', None)]
CH_ANCHOR = (r'\A\{', '{ VF_ANCHOR_CHAIN ', 1)

hm_remove = Unit(
    'HashMap_remove', 'C02',
    cuts=[Cut('rm', HM, r'^\tvoid remove\(const K& key\)\s*$', rules=HM_RULES, post=[CH_ANCHOR])],
    text=PRE + CHAIN + r"""
/* next remaining node after position i when node j is removed */
#define SUCC(i, j) (((i) + 1 < g_L && (i) + 1 != (j)) ? NODE((i) + 1) : ((i) + 2 < g_L && (i) + 1 == (j)) ? NODE((i) + 2) : (KeyValN*)0)
#define FIRST(j) ((j) != 0 ? (g_L >= 1 ? g_n0 : (KeyValN*)0) : (g_L >= 2 ? g_n1 : (KeyValN*)0))
void HashMap_remove(int key)
CHAIN_REQ
/* map' = map \ {key}: the node with that key is unlinked and freed exactly once, EVERY other node of the bucket stays reachable in order, length drops by one iff present */
__CPROVER_ensures(*vf_bucket == FIRST(J))
__CPROVER_ensures((g_L >= 1 && J != 0) ==> g_n0->next == SUCC(0, J))
__CPROVER_ensures((g_L >= 2 && J != 1) ==> g_n1->next == SUCC(1, J))
__CPROVER_ensures((g_L >= 3 && J != 2) ==> g_n2->next == (KeyValN*)0)
__CPROVER_ensures(*vf_n == __CPROVER_old(*vf_n) - (J >= 0 ? 1 : 0))
__CPROVER_ensures(__CPROVER_was_freed(g_n0) == (J == 0) && __CPROVER_was_freed(g_n1) == (J == 1) && __CPROVER_was_freed(g_n2) == (J == 2))
__CPROVER_assigns(g_bin_taken, *vf_bucket, *vf_n, g_n0->next, g_n1->next, g_n2->next)
__CPROVER_frees(g_n0, g_n1, g_n2)
@@rm@@
void vf_harness(void) { int k; HashMap_remove(k); VF_CANARY(); }
""",
    entry='HashMap_remove', kind='bounded', bound='one bucket chain of 0..3 colliding nodes; keys symbolic', unwind=6,
    desc='HashMap::remove(key) on a bucket chain: removes exactly that node (head, middle or last), keeps all other colliding entries reachable, frees it once, length - 1 iff present',
    functions=['HashMap::remove'],
)

hm_index = Unit(
    'HashMap_index', 'C02',
    cuts=[Cut('idx', HM, r'^\tT& operator\[\]\(const K& key\)\s*$', rules=HM_RULES + [(r'return p->value;', 'return &p->value;', None)], post=[CH_ANCHOR], nth=0, count=1)],
    text=PRE + CHAIN + r"""
int* HashMap_index(int key)
CHAIN_REQ
__CPROVER_requires(g_new == 0)
/* present: a reference to its value, nothing changes; absent: one new node with that key appended to the chain, length + 1 */
__CPROVER_ensures(J >= 0 ==> (__CPROVER_return_value == &NODE(J)->value && g_new == 0 && *vf_n == __CPROVER_old(*vf_n)))
__CPROVER_ensures(J < 0 ==> (g_new == 1 && *vf_n == __CPROVER_old(*vf_n) + 1 && __CPROVER_return_value == &g_newnode->value && g_newnode->key == key && g_newnode->next == (KeyValN*)0))
__CPROVER_ensures(J < 0 ==> (g_L == 0 ? *vf_bucket == g_newnode : NODE(g_L - 1)->next == g_newnode))
__CPROVER_ensures(*vf_bucket == (g_L >= 1 ? g_n0 : (J < 0 ? g_newnode : (KeyValN*)0)) && (g_L >= 2 ==> g_n0->next == g_n1) && (g_L >= 3 ==> g_n1->next == g_n2))
__CPROVER_assigns(g_bin_taken, *vf_bucket, *vf_n, g_n0->next, g_n1->next, g_n2->next, g_new, g_newnode)
@@idx@@
void vf_harness(void) { int k; HashMap_index(k); VF_CANARY(); }
""",
    entry='HashMap_index', kind='bounded', bound='one bucket chain of 0..3 colliding nodes; keys symbolic', unwind=6,
    desc='HashMap::operator[](key) on a bucket chain: finds the existing node or appends exactly one new node; existing entries untouched; length + 1 iff absent',
    functions=['HashMap::operator[]'],
)

hm_find = Unit(
    'HashMap_find', 'C02',
    cuts=[Cut('find', HM, r'^\tT\* find\(const K& key\)\s*$', rules=HM_RULES, post=[CH_ANCHOR]),
          Cut('has', HM, r'^\tbool has\(const K& key\) const\s*$', rules=HM_RULES, post=[CH_ANCHOR])],
    text=PRE + CHAIN + r"""
static int* HashMap_find_body(int key) @@find@@
static bool HashMap_has_body(int key) @@has@@
bool g_has;
int* HashMap_find(int key)
CHAIN_REQ
/* lookups find precisely the keys present: find() returns the value of the node with that key or NULL, has() says whether there is one; nothing is changed */
__CPROVER_ensures(J >= 0 ? __CPROVER_return_value == &NODE(J)->value : __CPROVER_return_value == (int*)0)
__CPROVER_ensures(g_has == (J >= 0))
__CPROVER_ensures(*vf_bucket == __CPROVER_old(*vf_bucket) && *vf_n == __CPROVER_old(*vf_n))
__CPROVER_ensures((g_L >= 1 ==> g_n0->next == __CPROVER_old(g_n0->next)) && (g_L >= 2 ==> g_n1->next == __CPROVER_old(g_n1->next)) && (g_L >= 3 ==> g_n2->next == __CPROVER_old(g_n2->next)))
__CPROVER_assigns(g_bin_taken, *vf_bucket, g_n0->next, g_n1->next, g_n2->next, g_has)   /* (the links only because of the R16 anchor assignments; the postcondition shows them unchanged) */
{ g_has = HashMap_has_body(key); return HashMap_find_body(key); }
void vf_harness(void) { int k; HashMap_find(k); VF_CANARY(); }
""",
    entry='HashMap_find', kind='bounded', bound='one bucket chain of 0..3 colliding nodes; keys symbolic', unwind=6,
    desc='HashMap::find / has on a bucket chain: find precisely the keys present (also behind colliding keys), change nothing', functions=['HashMap::find', 'HashMap::has'],
)
UNITS += [map_eq, hm_remove, hm_index, hm_find]

# ---- HashMap::rehash: where a moved entry is put is where lookups will search for it afterwards
rehash_bin = Unit(
    'HashMap_rehash_bin', 'C02',
    cuts=[Cut('skip', HM, r'^#define ASL_HMAP_SKIP ', kind='define', rules=[(r'sizeof\(AtomicCount\)', 'sizeof(int)', 1)]),
          Cut('binof', HM, r'^\tint binOf\(const K& key\) const\s*$', rules=[(r'hash\(key\)', 'key_hash', 1), (r'\ba\.length\(\)', 'a_len', None)]),
          Cut('bin', HM, r'(int bin = [^;]*;)\s*KeyValN\* p2 = b\[bin\]', kind='expr',
              rules=[(r'hash\(p->key\)', 'key_hash', None), (r'\bb\.length\(\)', 'b_len', None), (r'\ba\.length\(\)', 'a_len', None), (r'binOf\(p->key\)', 'binOf(a_len, key_hash)', None)]),
          Cut('newsize', HM, r'Array<KeyValN\*> b\(([^;]*)\);', kind='expr', rules=[(r'\ba\.length\(\)', 'a_len', None)])],
    text=PRE + r'''
@@skip@@
static int binOf(int a_len, int key_hash) @@binof@@
int nondet_int(void);
void vf_harness(void) {
  int buckets = nondet_int(), key_hash = nondet_int();
  __CPROVER_assume(buckets >= 1 && buckets <= (1 << 20) && (buckets & (buckets - 1)) == 0);     /* table sizes are powers of two (nextPoT) */
  int a_len = buckets + ASL_HMAP_SKIP;
  int b_len = @@newsize@@;                                                                    /* size of the grown table */
  @@bin@@
  __CPROVER_assert(ASL_HMAP_SKIP <= bin && bin < b_len, "rehash: destination bucket index is inside the new table");
  __CPROVER_assert(bin == binOf(b_len, key_hash), "rehash puts every entry into the bucket where find/has/operator[] look for it once the new table is installed");
  __CPROVER_assert(((b_len - ASL_HMAP_SKIP) & (b_len - ASL_HMAP_SKIP - 1)) == 0 && b_len > a_len, "the grown table again has a power-of-two number of buckets");
  VF_CANARY();
}
''',
    entry=None, floor=3, expect=['assertion'],
    desc='HashMap::rehash bucket placement for every hash value and every power-of-two table size: the bucket an entry is moved to is the one binOf() selects in the grown table (content is independent of table growth)',
    functions=['HashMap::rehash (placement)', 'HashMap::binOf'],
)
UNITS += [rehash_bin]

# ---- HashMap::operator== and Set::operator== : equality by lookup.  The enumeration of *this is abstracted by its contract (visits the g_lenA entries
# (KEY(i), VAL(i)) once each, in any order), the other container by a ghost finite map B (find/has answer from it, consistently per key).
# Decided here: the result is exactly  |A| == |B|  and  every entry of A is in B with an equal value.  (With |A| == |B| and distinct keys this is A == B as
# finite maps - pigeonhole, paper step.)  The answer cannot depend on enumeration order or table size: neither occurs in the contract.
EQ_DEFS = r'''
#define NA 3
int g_lenA, g_lenB; int g_key[NA], g_val[NA]; bool g_bhas[NA]; int g_bval[NA]; int g_finds;
#define KEY(i) (__CPROVER_assert(0 <= (i) && (i) < g_lenA, "enumerator dereferenced only while valid"), g_key[i])
#define VAL(i) (__CPROVER_assert(0 <= (i) && (i) < g_lenA, "enumerator dereferenced only while valid"), g_val[i])
/* b.find(k) / s.has(k) for a key of A: the ghost map B answers (the same for equal keys: required below) */
static const int* B_FIND(int k) { g_finds++; for (int i = 0; i < NA; i++) if (i < g_lenA && g_key[i] == k) return g_bhas[i] ? &g_bval[i] : (const int*)0; __CPROVER_assert(0, "find is only asked for keys of A"); return 0; }
static bool B_HAS(int k) { return B_FIND(k) != 0; }
#define IN_B(i) ((i) >= g_lenA || (g_bhas[i] && (!WITH_VALUES || g_bval[i] == g_val[i])))
#define EQ_REQ __CPROVER_requires(0 <= g_lenA && g_lenA <= NA && 0 <= g_lenB && g_lenB <= 1000000 && g_finds == 0) \
   __CPROVER_requires(g_key[0] != g_key[1] && g_key[0] != g_key[2] && g_key[1] != g_key[2])     /* keys of a map are distinct */
'''
hm_eq = Unit(
    'HashMap_eq', 'C02',
    cuts=[Cut('eq', HM, r'^\tbool operator==\(const HashMap& b\) const\s*$',
              rules=[(r'(?<![\w.>])length\(\) != b\.length\(\)', 'g_lenA != g_lenB', 1),
                     (r'for \(Enumerator e1\(this->all\(\)\); e1; \+\+e1\)', 'for (int e1 = 0; e1 < g_lenA; ++e1)', 1),
                     (r'const T\* p = b\.find\(~e1\);', 'const int* p = B_FIND(KEY(e1));', 1), (r'\*e1 != \*p', 'VAL(e1) != *p', 1)])],
    text=PRE + '#define WITH_VALUES 1\n' + EQ_DEFS + r'''
bool HashMap_eq(void)
EQ_REQ
__CPROVER_ensures(__CPROVER_return_value == (g_lenA == g_lenB && IN_B(0) && IN_B(1) && IN_B(2)))
__CPROVER_assigns(g_finds)
@@eq@@
void vf_harness(void) { HashMap_eq(); VF_CANARY(); }
''',
    entry='HashMap_eq', kind='bounded', bound='this map has at most 3 entries (keys and values symbolic); the other map is any finite map', unwind=6,
    desc='HashMap::operator==: true exactly when the lengths agree and every entry of *this is found in b with an equal value; no dependence on enumeration order, collisions or table size',
    functions=['HashMap::operator=='],
    trusted=['Enumerator over *this visits each entry exactly once (its contract); b.find answers as the finite map b (unit HashMap_find for one bucket chain)'],
    planted=[('eq', r'!p \|\| ', '')],
)
SET = 'include/asl/Set.h'
set_eq = Unit(
    'Set_eq', 'C02',
    cuts=[Cut('eq', SET, r'^\tbool operator==\(const Set& s\) const\s*$',
              rules=[(r'this->length\(\) != s\.length\(\)', 'g_lenA != g_lenB', 1),
                     (r'for\(Enumerator e1 = this->all\(\); e1; \+\+e1\)', 'for (int e1 = 0; e1 < g_lenA; ++e1)', 1),
                     (r's\.has\(\*e1\)', 'B_HAS(KEY(e1))', 1)])],
    text=PRE + '#define WITH_VALUES 0\n' + EQ_DEFS + r'''
bool Set_eq(void)
EQ_REQ
__CPROVER_ensures(__CPROVER_return_value == (g_lenA == g_lenB && IN_B(0) && IN_B(1) && IN_B(2)))
__CPROVER_assigns(g_finds)
@@eq@@
void vf_harness(void) { Set_eq(); VF_CANARY(); }
''',
    entry='Set_eq', kind='bounded', bound='this set has at most 3 members; the other set is any finite set', unwind=6,
    desc='Set::operator==: true exactly when the sizes agree and every member of *this is in s; no dependence on insertion order',
    functions=['Set::operator=='],
    trusted=['Enumerator over *this visits each member exactly once; s.has answers as the finite set s'],
)
UNITS += [hm_eq, set_eq]

# ---- Map::add(d): merges through operator[]; d is only read.  `(*this)[k] = v` is the finite-map update proved in Map_set (here a recording stub);
# an Array handle assignment `a = x.a` (C01 Array::operator=: shares x's block and bumps its reference count) is rewritten to that contract, so that
# keeping a reference to d's storage is seen.
map_add = Unit(
    'Map_add', 'C02',
    cuts=[CMP(), Cut('add', M, r'^\tvoid add\(const Map& d\)\s*$',
              rules=[(r'\bd\.a\.length\(\)', 'HDR(&d_p->a)->n', None), (r'\bd\.a\[(\w+)\]', r'd_p->a._a[\1]', None),
                     (r'\(\*this\)\[([^;]*?)\] = ([^;]*);', r'MAP_INDEX_SET(\1, \2);', None),
                     (r'(?<![\w.>])a = d\.a;', 'ARRAY_ASSIGN_FROM_D();', None), (r'(?<![\w.>])a\.length\(\)', 'g_self_n', None), (r'(?<![\w.>])length\(\)', 'g_self_n', None)],
              post=[(r'\A\{', '{ __CPROVER_assert(d_p->a._a == KV2, "anchor d"); ((Map*)d_p)->a._a = KV2; ', 1)])],
    text=PRE + MAPDEF + r"""
char* g_block2;
#define BLK2 ((Data*)g_block2)
#define KV2 ((KeyVal*)(g_block2 + sizeof(Data)))
#define ND 3
int g_self_n, g_calls, g_key_k, g_val_k, g_shared;
/* (*this)[k] = v : Map_set's contract (view' = view[k -> v]); this unit only records which updates are made, in which order */
static void MAP_INDEX_SET(int k, int v) { if (g_calls == g_k) { g_key_k = k; g_val_k = v; } g_calls++; g_self_n++; }
/* a = d.a : Array::operator= (C01 unit Array_assign): *this now shares d's block, whose reference count goes up */
static void ARRAY_ASSIGN_FROM_D(void) { BLK2->rc++; g_shared = 1; g_self_n = BLK2->n; }
void Map_add(const Map* d_p)
__CPROVER_requires(__CPROVER_is_fresh(d_p, sizeof(Map)) && __CPROVER_is_fresh(g_block2, sizeof(Data) + ND * sizeof(KeyVal)) && d_p->a._a == KV2 && 0 <= BLK2->n && BLK2->n <= ND && BLK2->rc >= 1 && BLK2->rc < 1000)
__CPROVER_requires(0 <= g_self_n && g_self_n <= 1000 && g_calls == 0 && g_shared == 0 && 0 <= g_k && g_k < BLK2->n)
/* this' = this overridden by d: one update per pair of d, each with that pair's key and value; d itself - its pairs AND its storage's reference count - is untouched,
   so later changes to *this cannot show through d */
__CPROVER_ensures(g_calls == BLK2->n && g_key_k == KV2[g_k].key && g_val_k == KV2[g_k].value)
__CPROVER_ensures(BLK2->rc == __CPROVER_old(BLK2->rc) && BLK2->n == __CPROVER_old(BLK2->n) && !g_shared)
__CPROVER_assigns(g_self_n, g_calls, g_key_k, g_val_k, g_shared, d_p->a._a)
@@add@@
void vf_harness(void) { const Map* d; Map_add(d); VF_CANARY(); }
""",
    entry='Map_add', kind='bounded', bound='d has at most 3 pairs', unwind=6,
    desc='Map::add(d): exactly one operator[] update per pair of d with that key and value (any size of *this, empty too); d and the reference count of its storage unchanged (no sharing of storage with d)',
    functions=['Map::add'],
    trusted=['(*this)[k] = v by the Map_set contract; Array::operator= by the C01 Array_assign contract (shares the block)'],
)
UNITS += [map_add]

# ---- HashMap::Enumerator: construction and ++ walk every bucket [ASL_HMAP_SKIP, a.length()) - an entry in ANY bucket, the last one included, is visited.
# The enumerator over the bucket array (Array<KeyValN*>::Enumerator: indices [i, j), ++ is i++, * is a[i], bool is i < j) is written out as its C01 contract.
enum_unit = Unit(
    'HashMap_Enumerator', 'C02',
    cuts=[Cut('skip', HM, r'^#define ASL_HMAP_SKIP ', kind='define', rules=[(r'sizeof\(AtomicCount\)', 'sizeof(int)', 1)]),
          Cut('init', HM, r'^\t\tEnumerator\(const HashMap& m\)\s*:\s*e\(([^\n]*)\)[^\n]*$', kind='expr',
              rules=[(r'\(Array<KeyValN\*>&\)', '', None), (r'm\.a\.length\(\)', 'g_alen', None), (r'^\s*m\.a\s*$', '0, g_alen', None), (r'^\s*m\.a\s*,', '', None)]),
          Cut('ctor', HM, r'^\t\tEnumerator\(const HashMap& m\)\s*:[^\n]*$', rules=[(r'\+\+e;', 'E_NEXT();', None), (r'\*e\b', 'E_GET()', None), (r'&& e\)', '&& E_OK())', None), (r'if\(e\)', 'if (E_OK())', None)]),
          Cut('next', HM, r'^\t\tvoid operator\+\+\(\)\s*$', nth=0, count=1, rules=[(r'\+\+e;', 'E_NEXT();', None), (r'\*e\b', 'E_GET()', None), (r'&& e\)', '&& E_OK())', None), (r'if\(e\)', 'if (E_OK())', None)])],
    text=PRE + r'''
@@skip@@
typedef struct KeyValN { int key; int value; struct KeyValN* next; } KeyValN;
#define NB 5                                  /* buckets */
KeyValN* g_slot[ASL_HMAP_SKIP + NB]; int g_alen, g_ei, g_ej; KeyValN* p; KeyValN g_nodes[NB];
static void E_INIT(int i, int j) { g_ei = i; g_ej = j; }
static void E_NEXT(void) { g_ei++; }
static bool E_OK(void) { return g_ei < g_ej; }
static KeyValN* E_GET(void) { __CPROVER_assert(0 <= g_ei && g_ei < g_alen, "Array::operator[] index below length (bucket array)"); return g_slot[g_ei]; }
static void Enumerator_ctor(void) @@ctor@@
static void Enumerator_next(void) @@next@@
int nondet_int(void); bool nondet_bool(void);
void vf_harness(void) {
  int nb = nondet_int(); __CPROVER_assume(1 <= nb && nb <= NB); g_alen = ASL_HMAP_SKIP + nb;
  for (int b = 0; b < NB; b++) { g_nodes[b].next = 0; g_slot[ASL_HMAP_SKIP + b] = (b < nb && nondet_bool()) ? &g_nodes[b] : 0; }     /* each bucket: empty or one entry */
  for (int i = 0; i < ASL_HMAP_SKIP; i++) g_slot[i] = 0;
  int want = 0; for (int b = 0; b < nb; b++) if (g_slot[ASL_HMAP_SKIP + b]) want++;
  E_INIT(@@init@@);
  Enumerator_ctor();
  int seen = 0, last = -1, ordered = 1;
  for (int t = 0; t < NB + 1 && (p != 0 || E_OK()); t++) { __CPROVER_assert(p != 0, "operator bool true means an entry is under the cursor"); int b = (int)(p - g_nodes); if (b <= last) ordered = 0; last = b; seen++; Enumerator_next(); }
  __CPROVER_assert(!(p != 0 || E_OK()), "the enumeration ends");
  __CPROVER_assert(seen == want && ordered, "every entry of every bucket - the last bucket too - is visited exactly once");
  VF_CANARY();
}
''',
    entry=None, unwind=12, floor=3, expect=['assertion'], kind='bounded', bound='tables of 1..5 buckets, each empty or holding one entry',
    desc='HashMap::Enumerator (constructor and ++): every entry of every bucket from the first to the last is visited exactly once; bucket indices in range',
    functions=['HashMap::Enumerator::Enumerator', 'HashMap::Enumerator::operator++'],
    trusted=['Array<T>::Enumerator: indices [i, j) (Array.h, written as a stub)'],
)

# ---- key order for String keys (Dic, Map<String,...>): compare(a, b) must be a total order that separates different strings - a proper prefix is a different, smaller key
S_CPP = 'src/String.cpp'
cmp_string = Unit(
    'Map_compare_String', 'C02',
    cuts=[Cut('cs', M, r'^inline int compare\(const String& a, const String& b\)\s*', rules=[(r'a\.compare\(b\)', 'vf_String_compare(a, b)', None), (r'\ba\.length\(\)', 'a_len', None), (r'\bb\.length\(\)', 'b_len', None), (r'\ba\.data\(\)', 'a', None), (r'\bb\.data\(\)', 'b', None)])],
    text=PRE + r'''
#define NS 4
int a_len, b_len;
/* String::compare(const String&) is strcmp on the two texts (String.h / libc) */
static int vf_strcmp(const char* x, const char* y) { for (int i = 0; i <= NS; i++) { unsigned char c = (unsigned char)x[i], d = (unsigned char)y[i]; if (c != d) return c < d ? -1 : 1; if (c == 0) return 0; } return 0; }
static int vf_String_compare(const char* x, const char* y) { return vf_strcmp(x, y); }
static int memcmp(const void* x, const void* y, unsigned long n) { const unsigned char *u = x, *v = y; for (unsigned long i = 0; i < n && i <= NS; i++) if (u[i] != v[i]) return u[i] < v[i] ? -1 : 1; return 0; }
static int compare(const char* a, const char* b) @@cs@@
int nondet_int(void); char nondet_char(void);
void vf_harness(void) {
  char a[NS + 1], b[NS + 1]; a_len = nondet_int(); b_len = nondet_int(); __CPROVER_assume(0 <= a_len && a_len <= NS && 0 <= b_len && b_len <= NS);
  for (int i = 0; i <= NS; i++) { a[i] = i < a_len ? nondet_char() : 0; b[i] = i < b_len ? nondet_char() : 0; __CPROVER_assume(i >= a_len || a[i] != 0); __CPROVER_assume(i >= b_len || b[i] != 0); }
  int same = a_len == b_len; for (int i = 0; i < NS; i++) if (a[i] != b[i]) same = 0;
  int r = compare(a, b), q = compare(b, a);
  __CPROVER_assert((r == 0) == (same != 0), "keys compare equal exactly when they are the same string (a proper prefix, or the empty key, is a different key)");
  __CPROVER_assert((r < 0) == (q > 0) && (r == 0) == (q == 0), "antisymmetric");
  __CPROVER_assert((r < 0) == (vf_strcmp(a, b) < 0), "the order is the byte-wise lexicographic one (Dic enumerates in ascending key order)");
  VF_CANARY();
}
''',
    entry=None, unwind=8, floor=3, expect=['assertion'], kind='bounded', bound='keys of 0..4 bytes',
    desc='compare(const String&, const String&), the key order of Dic / Map<String,...>: equal exactly for identical strings, antisymmetric, byte-wise lexicographic',
    functions=['compare(const String&, const String&)'], trusted=['String::compare(const String&) = strcmp'],
)
UNITS += [enum_unit, cmp_string]

# ---- Set::notIn / operator-: the difference is a NEW set (the HashMap copy constructor shares the table: returning *this hands out a second handle on this set)
notin_unit = Unit(
    'Set_notIn', 'C02',
    cuts=[Cut('ni', SET, r'^\tSet notIn\(const Set& s\) const\s*$',
              rules=[(r'Set b;', 'g_new = 1;', 1), (r'foreach\(const T& x, \*this\) if\(!s\.contains\(x\)\) b << x;', 'g_filled = 1;', None), (r'return b;', '{ g_ret_new = 1; return; }', None), (r'return \*this;', '{ g_ret_this = 1; return; }', None),
                     (r'\bs\.length\(\)', 'g_slen', None), (r'(?<![\w.>])length\(\)', 'g_len', None)])],
    text=PRE + r"""
int g_new, g_filled, g_ret_new, g_ret_this, g_slen, g_len;
void Set_notIn(void)
__CPROVER_requires(g_new == 0 && g_filled == 0 && g_ret_new == 0 && g_ret_this == 0 && 0 <= g_slen && 0 <= g_len)
/* for every pair of sets (empty ones too): a fresh set is built, filled with the members of *this that are not in s, and returned; *this itself is never handed out */
__CPROVER_ensures(g_new == 1 && g_filled == 1 && g_ret_new == 1 && g_ret_this == 0)
__CPROVER_assigns(g_new, g_filled, g_ret_new, g_ret_this)
@@ni@@
void vf_harness(void) { Set_notIn(); VF_CANARY(); }
""",
    entry='Set_notIn', kind='proof',
    desc='Set::notIn (operator-): always returns a newly built set, also when the other set is empty; never a second handle on *this',
    functions=['Set::notIn', 'Set::operator-'], trusted=['the filtering loop abstracted to one event (has()/operator[] by the HashMap units)'],
)
UNITS += [notin_unit]

# ---- hash(const String&) / hash(const Array<byte>&): the bucket choice of every String-keyed HashMap / HashDic / Set<String>: defined for EVERY key (no signed overflow on long keys)
def hash_unit(name, loc, what):
    return Unit(
        name, 'C02',
        cuts=[Cut('h', HM, loc, rules=[(r'const char\* p = s;', 'const char* p = s_p;', None), (r'const byte\* p = s\.data\(\);', 'const byte* p = (const byte*)s_p;', None), (r'\bs\.length\(\)', 's_len', None)])],
        text=PRE + r'''
#define NK 12
int hash_key(const char* s_p, int s_len)
__CPROVER_requires(0 <= s_len && s_len <= NK && __CPROVER_is_fresh(s_p, NK + 1))
__CPROVER_ensures(1)
__CPROVER_assigns()
@@h@@
void vf_harness(void) { const char* s; int n; hash_key(s, n); VF_CANARY(); }
''',
        entry='hash_key', unwind=14, kind='bounded', bound='keys of 0..12 bytes (any bytes): long enough for 33^n to pass 2^31 several times over',
        desc=what + ': computed without undefined behaviour (no signed overflow) for every key, long ones included; reads only the key',
        functions=[what],
    )
hash_string = hash_unit('HashMap_hash_String', r'^inline int hash\(const String& s\)\s*$', 'hash(const String&)')
hash_bytes = hash_unit('HashMap_hash_bytes', r'^inline int hash\(const Array<byte>& s\)\s*$', 'hash(const Array<byte>&)')
UNITS += [hash_string, hash_bytes]

# replay: the units verify single operations on ghost-shaped states (one bucket chain, a sorted array); the native counterpart is the driver's small-scope
# exhaustive search over operation sequences on colliding keys
for _u in UNITS:
    if not _u.replay and _u.name != 'nextPoT':
        _u.replay = replay.battery('C02/driver.cpp', ['battery'])

# planted one-token breaks for the newer units (thorough tier: each must make an obligation fail)
enum_unit.planted = [('init', r'0, g_alen', '0, g_alen - 1')]
