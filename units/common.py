"""Cuts shared between properties (String helpers etc.)."""
import re
from vf.core import Cut

STRING_FIELDS = ('_size', '_len', '_space', '_str')
STRING_METHODS = {'str': 'String_str', 'alloc': 'String_alloc', 'init': 'String_init', 'cap': 'String_cap',
                  'length': 'String_length', 'resize': 'String_resize', 'free': 'String_free'}


def string_helper_cuts():
    H = 'include/asl/String.h'
    return [
        Cut('String_str', H, r'^\tchar\* str\(\) ', members=STRING_FIELDS),
        Cut('String_alloc', H, r'^\tvoid alloc\(int n\)\s*$', members=STRING_FIELDS),
        Cut('String_init', H, r'^\tvoid init\(int n\) ', members=STRING_FIELDS, methods=STRING_METHODS),
        Cut('String_ctor_cap_n', H, r'^\tASL_EXPLICIT String\(int cap, int n\)\s*$', members=STRING_FIELDS,
            methods=STRING_METHODS),
    ]

STRING_HELPERS_C = r'''
static char* String_str(String* self) @@String_str@@
static void String_alloc(String* self, int n) @@String_alloc@@
static void String_init(String* self, int n) @@String_init@@
static void String_ctor_cap_n(String* self, int cap, int n) @@String_ctor_cap_n@@
'''


def string_local_rules(text):
    """R9/R10 for local String objects:  'String v(a, b);' -> declaration + constructor call;  v[i] -> String_str(&v)[i]"""
    fired = 0
    names = re.findall(r'\bString (\w+)\(([^;]*)\);', text)
    for name, args in names:
        text, n = re.subn(r'\bString %s\(([^;]*)\);' % name, r'String %s; String_ctor_cap_n(&%s, \1);' % (name, name), text)
        fired += n
        text, n = re.subn(r'(?<![\w.>])%s\[' % name, 'String_str(&%s)[' % name, text)
        fired += n
    return text, fired
