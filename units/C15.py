"""C15 - Base64, hex, percent-encoding, SHA-1 (src/util.cpp, src/Http.cpp, src/SHA1.cpp)"""
from vf.core import Unit, Cut
from units.common import *

U = 'src/util.cpp'
NMAX_Q, NMAX_T = 4096, 1000000

encodeBase64 = Unit(
    'encodeBase64', 'C15',
    cuts=string_helper_cuts() + [
        Cut('b64chars', U, r'^static const char base64_chars\[\] =', kind='stmt'),
        Cut('enc', U, r'^String encodeBase64\(const byte\* data, int n\)\s*$',
            rules=[string_local_rules,
                   (r'(String_ctor_cap_n\(&output,[^;]*;)', r'\1 char* vf_buf = String_str(&output);', 1)],
            loops=[(r'for\s*\(', 0, '''
  __CPROVER_assigns(i, dest, __CPROVER_object_from(vf_buf))
  __CPROVER_loop_invariant(0 <= i && i <= n + 2 && i % 3 == 0)
  __CPROVER_loop_invariant(g_k < 4 * (i / 3) ==> vf_buf[g_k] == SPEC_B64_RAW(data, n, g_k))
  __CPROVER_decreases(n - i)
''', [('dest', 'vf_buf + 4 * (i / 3)')])]),
    ],
    text=r'''
#include "vf_string.h"
#include "b64.h"
int g_k;
''' + STRING_HELPERS_C + r'''
@@b64chars@@
String encodeBase64(const byte* data, int n)
__CPROVER_requires(0 <= n && n <= NMAX && __CPROVER_is_fresh(data, n > 0 ? n : 1))
__CPROVER_requires(0 <= g_k && g_k < SPEC_B64_LEN(n))
__CPROVER_ensures(__CPROVER_return_value._len == SPEC_B64_LEN(n))
__CPROVER_ensures(__CPROVER_return_value._size == 0 ? __CPROVER_return_value._len < ASL_STR_SPACE : __CPROVER_return_value._size > __CPROVER_return_value._len)
__CPROVER_ensures(STR(__CPROVER_return_value)[__CPROVER_return_value._len] == 0)
__CPROVER_ensures(STR(__CPROVER_return_value)[g_k] == SPEC_B64(data, n, g_k))
__CPROVER_assigns()
@@enc@@
void vf_harness(void) { const byte* d; int n; String r = encodeBase64(d, n); VF_CANARY(); }
''',
    entry='encodeBase64',
    variants={'': ['-DNMAX=%d' % NMAX_Q]},
    timeout=600,
    desc='RFC 4648 encoder: length, NUL, every output character, padding; all n <= NMAX',
    trusted=['CBMC malloc model'],
    planted=[('enc', r'\(u >> 12\)', '(u >> 10)'), ('enc', r'n % 3 == 1', 'n % 3 == 2'), ('enc', r'i \+ 2 < n', 'i + 2 <= n')],
)

UNITS = [encodeBase64]
