"""C15 - Base64, hex, percent-encoding, SHA-1 (src/util.cpp, src/Http.cpp, src/SHA1.cpp)"""
from vf.core import Unit, Cut
from units.common import *
from vf import replay

U = 'src/util.cpp'
NMAX_Q, NMAX_T = 4096, 1000000

encodeBase64 = Unit(
    'encodeBase64', 'C15',
    cuts=string_helper_cuts() + [
        Cut('b64chars', U, r'^static const char base64_chars\[\] =', kind='stmt'),
        Cut('enc', U, r'^String encodeBase64\(const byte\* data, int n\)\s*$',
            rules=[string_local_rules,
                   (r'(String_ctor_cap_n\(&output,[^;]*;)', r'\1 char* vf_buf = String_str(&output);', 1)],
            loops=[(r'for\s*\(', 0, '''
  __CPROVER_assigns(i, dest, __CPROVER_object_from(vf_buf))
  __CPROVER_loop_invariant(0 <= i && i <= n + 2 && i % 3 == 0)
  __CPROVER_loop_invariant(g_k < 4 * (i / 3) ==> vf_buf[g_k] == SPEC_B64_RAW(data, n, g_k))
  __CPROVER_decreases(n - i)
''', [('dest', 'vf_buf + 4 * (i / 3)')])]),
    ],
    text=r'''
#include "vf_string.h"
#include "b64.h"
int g_k;
''' + STRING_HELPERS_C + r'''
@@b64chars@@
String encodeBase64(const byte* data, int n)
__CPROVER_requires(0 <= n && n <= NMAX && __CPROVER_is_fresh(data, n > 0 ? n : 1))
__CPROVER_requires(0 <= g_k && g_k < SPEC_B64_LEN(n))
__CPROVER_ensures(__CPROVER_return_value._len == SPEC_B64_LEN(n))
__CPROVER_ensures(__CPROVER_return_value._size == 0 ? __CPROVER_return_value._len < ASL_STR_SPACE : __CPROVER_return_value._size > __CPROVER_return_value._len)
__CPROVER_ensures(STR(__CPROVER_return_value)[__CPROVER_return_value._len] == 0)
__CPROVER_ensures(STR(__CPROVER_return_value)[g_k] == SPEC_B64(data, n, g_k))
__CPROVER_assigns()
@@enc@@
void vf_harness(void) { const byte* d; int n; String r = encodeBase64(d, n); VF_CANARY(); }
''',
    entry='encodeBase64', replay=replay.from_trace('C15/driver.cpp', ['n'], lambda v: ['b64len', v['n']]),
    variants={'': ['-DNMAX=%d' % NMAX_Q]},
    timeout=600,
    desc='RFC 4648 encoder: length, NUL, every output character, padding; all n <= NMAX',
    trusted=['CBMC malloc model'],
    planted=[('enc', r'\(u >> 12\)', '(u >> 10)'), ('enc', r'n % 3 == 1', 'n % 3 == 2'), ('enc', r'i \+ 2 < n', 'i + 2 <= n')],
)

UNITS = [encodeBase64]

# ---------------------------------------------------------------------------------------------
# SHA-1 (src/SHA1.cpp).  transform() as a whole is beyond CBMC (DESIGN 2): the round macros are proved against one
# FIPS 180-4 step each, the order of the 80 macro invocations is checked syntactically, update() is proved against a
# byte-stream specification with transform() as a logging stub.
SH = 'src/SHA1.cpp'
import re as _re
from vf import core as _core

sha_macros = Unit(
    'SHA1_round_macros', 'C15',
    cuts=[Cut('rol', SH, r'^#define rol\(value, bits\)', kind='define'), Cut('blk0', SH, r'^#define blk0\(i\) \(block->l\[i\] = \(rol', kind='define'),
          Cut('blk', SH, r'^#define blk\(i\)', kind='define'),
          Cut('R0', SH, r'^#define R0\(', kind='define'), Cut('R1', SH, r'^#define R1\(', kind='define'), Cut('R2', SH, r'^#define R2\(', kind='define'),
          Cut('R3', SH, r'^#define R3\(', kind='define'), Cut('R4', SH, r'^#define R4\(', kind='define')],
    text=r'''
#include "vf_base.h"
#include "sha1.h"
@@rol@@
@@blk0@@
@@blk@@
@@R0@@
@@R1@@
@@R2@@
@@R3@@
@@R4@@
union Char64Int16 { byte c[64]; uint32_t l[16]; };
uint32_t nondet_u32(void); int nondet_int(void);
void vf_harness(void) {
  union Char64Int16 blockv, old; union Char64Int16* block = &blockv;
  for (int i = 0; i < 16; i++) blockv.l[i] = nondet_u32();
  old = blockv;
  uint32_t a = nondet_u32(), b = nondet_u32(), c = nondet_u32(), d = nondet_u32(), e = nondet_u32();
  uint32_t a0 = a, b0 = b, c0 = c, d0 = d, e0 = e;
  int t = nondet_int(); __CPROVER_assume(0 <= t && t < 80);
  uint32_t w;   /* W_t of FIPS 6.1.2 step 1, with the 16-word circular buffer of 6.1.3 */
  if (t < 16) w = SPEC_BE32(old.c, t);                                     /* M_t: big-endian word t of the block */
  else w = SPEC_ROTL(old.l[(t + 13) & 15] ^ old.l[(t + 8) & 15] ^ old.l[(t + 2) & 15] ^ old.l[t & 15], 1);   /* ROTL1(W[t-3]^W[t-8]^W[t-14]^W[t-16]) */
  if (t < 16) { R0(a, b, c, d, e, t); } else if (t < 20) { R1(a, b, c, d, e, t); } else if (t < 40) { R2(a, b, c, d, e, t); }
  else if (t < 60) { R3(a, b, c, d, e, t); } else { R4(a, b, c, d, e, t); }
  /* the macro updates (v,w,x,y,z) in place: z becomes T, w becomes ROTL30(w); the rotation of roles is done by the caller's argument order */
  __CPROVER_assert(e == SPEC_T(t, a0, b0, c0, d0, e0, w), "round macro computes T = ROTL5(a) + f_t(b,c,d) + e + K_t + W_t (FIPS 180-4 6.1.2 step 3)");
  __CPROVER_assert(b == SPEC_ROTL(b0, 30) && a == a0 && c == c0 && d == d0, "round macro: b becomes ROTL30(b), a, c, d unchanged");
  __CPROVER_assert(blockv.l[t & 15] == w, "message schedule word W_t is stored in the circular buffer");
  VF_CANARY();
}
''',
    entry=None, unwind=17, floor=3, expect=['assertion'],
    desc='each SHA-1 round macro R0..R4 (+ blk0, blk, rol) for EVERY state, block and step t in 0..79 is one step of FIPS 180-4 6.1.2 (Ch/Parity/Maj, K_t, W_t schedule, big-endian word load)',
    functions=['SHA1 R0..R4, blk0, blk, rol'],
    planted=[('R3', r'\(\(\(w\|x\)&y\)\|\(w&x\)\)', '(((w|x)&y)|(w&y))'), ('blk', r'\(i\+8\)&15', '(i+7)&15')],
)

SHA_STATE = r'''
typedef struct SHA1 { uint32_t state[5]; int count[2]; byte buffer[64]; } SHA1;
'''
sha_update = Unit(
    'SHA1_update', 'C15',
    cuts=[Cut('upd', SH, r'^void SHA1::update\(const byte\* data, int len\)\s*$', members=('count', 'buffer'), methods={'transform': 'SHA1_transform'},
              post=[(r'\A\{', '{ __CPROVER_assert(self->count[0] == FIX_COUNT, "anchor count"); self->count[0] = FIX_COUNT; byte vf_oldb = self->buffer[g_b];', 1)],
              loops=[(r'for\s*\(\s*;', 0, '''
  __CPROVER_assigns(i, g_calls, g_logged)
  __CPROVER_loop_invariant(64 - J0 <= i && i <= len && (i - (64 - J0)) % 64 == 0 && g_calls == 1 + (i - (64 - J0)) / 64)
  __CPROVER_loop_invariant(g_blk < g_calls ==> g_logged == STREAM(64 * g_blk + g_b, vf_oldb))
  __CPROVER_decreases(len - i)
''')])],
    text=r'''
#include "vf_base.h"
#include <stdint.h>
''' + SHA_STATE + r'''
/* ghost: transform() is a stub that logs byte g_b of its g_blk-th 64-byte argument */
int g_calls, g_blk, g_b; byte g_logged;
#define J0 ((FIX_COUNT >> 3) & 63)      /* bytes already buffered */
/* byte k of the stream seen by this call: the J0 buffered bytes, then data (k = 64*g_blk+g_b: below J0 only in block 0) */
#define STREAM(k, oldb) ((k) < J0 ? (oldb) : data[(k) - J0])
static void SHA1_transform(SHA1* self, const byte* buf) {
  __CPROVER_assert(__CPROVER_r_ok(buf, 64), "transform reads 64 bytes");
  if (g_calls == g_blk) g_logged = buf[g_b];
  g_calls++;
}
void SHA1_update(SHA1* self, const byte* data, int len)
__CPROVER_requires(__CPROVER_is_fresh(self, sizeof(SHA1)) && 0 <= len && len <= NMAX && __CPROVER_is_fresh(data, len > 0 ? len : 1))
__CPROVER_requires(self->count[0] == FIX_COUNT && self->count[1] >= 0 && self->count[1] < 1000)
__CPROVER_requires(g_calls == 0 && 0 <= g_blk && 0 <= g_b && g_b < 64)
/* FIPS 180-4 5.2.1 / 6.1.2: the message is consumed in consecutive 64-byte blocks */
__CPROVER_ensures(g_calls == (J0 + len) / 64)
__CPROVER_ensures(g_blk < g_calls ==> g_logged == STREAM(64 * g_blk + g_b, __CPROVER_old(self->buffer[g_b])))
__CPROVER_ensures(g_b < (J0 + len) % 64 ==> self->buffer[g_b] == STREAM(64 * ((J0 + len) / 64) + g_b, __CPROVER_old(self->buffer[g_b])))
__CPROVER_ensures(self->count[0] == FIX_COUNT + 8 * len && self->count[1] == __CPROVER_old(self->count[1]))
__CPROVER_assigns(self->count, self->buffer, g_calls, g_logged)
@@upd@@
void vf_harness(void) { SHA1* s; const byte* d; int n; SHA1_update(s, d, n); VF_CANARY(); }
''',
    entry='SHA1_update', replay=replay.from_trace('C15/driver.cpp', ['len'], lambda v: ['sha1', ((v['len'] + 63) // 64) * 64]),
    variants={'J0': ['-DNMAX=100000', '-DFIX_COUNT=0'], 'J3': ['-DNMAX=100000', '-DFIX_COUNT=24'], 'J63': ['-DNMAX=100000', '-DFIX_COUNT=1016'], 'J56': ['-DNMAX=100000', '-DFIX_COUNT=448']},
    kind='bounded', bound='number of bytes already buffered fixed per variant (0, 3, 56, 63); len <= 100000 and all contents symbolic', timeout=600,
    desc='SHA1::update(data,len) with transform() as a logging stub: exactly floor((buffered+len)/64) blocks are transformed, the k-th is bytes [64k,64k+64) of '
         '(buffered bytes ++ data), the rest stays in the buffer, bit count advances by 8*len; no access outside data[0..len) / buffer[0..64)',
    functions=['SHA1::update'],
    trusted=['SHA1::transform replaced by a logging stub (its rounds: unit SHA1_round_macros + schedule pattern check)'],
    assumes=['SHA-1 bit counter: fewer than 128 MiB hashed (count[0] is a signed int; larger totals overflow it)'],
    planted=[('upd', r'i \+ 63 < len', 'i + 64 < len')],
)
UNITS += [sha_macros, sha_update]


def extra_checks(work, tier):
    """syntactic composition check: the 80 statements of transform() are R?(v,w,x,y,z,t) with the roles rotating as FIPS 6.1.2 step 3 prescribes"""
    import time
    t0 = time.time()
    out = {'name': 'SHA1_transform_schedule_pattern', 'kind': 'proof', 'back_end': 'syntactic pattern (not solver-discharged)', 'functions': ['SHA1::transform (composition)'],
           'obligations': 0, 'discharged': 0, 'failures': [], 'detail': '80 round-macro invocations in transform(): macro by range of t, arguments rotate (a,b,c,d,e)->(e,a,b,c,d), '
           'state load before, state[i] += after; the composition of 80 proved steps is by this pattern, not by the solver'}
    try:
        body = _core.strip_comments(Cut('tr', SH, r'^void SHA1::transform\(const byte buf\[64\]\)\s*$').raw())
    except _core.Undecided as e:
        out['undecided'] = str(e)
        return [out]
    calls = _re.findall(r'\b(R[0-4])\(\s*(\w)\s*,\s*(\w)\s*,\s*(\w)\s*,\s*(\w)\s*,\s*(\w)\s*,\s*(\d+)\s*\)\s*;', body)
    names = 'abcde'
    checks = []
    checks.append(('80 round invocations', len(calls) == 80))
    okseq = True
    for t, c in enumerate(calls[:80]):
        macro = 'R0' if t < 16 else 'R1' if t < 20 else 'R2' if t < 40 else 'R3' if t < 60 else 'R4'
        rot = [names[(k - t) % 5] for k in range(5)]
        if c[0] != macro or list(c[1:6]) != rot or int(c[6]) != t:
            okseq = False
            checks.append(('step %d is %s(%s,%d)' % (t, macro, ','.join(rot), t), False))
            break
    checks.append(('macro and argument rotation of every step', okseq))
    checks.append(('state loaded into a..e', all(_re.search(r'\b%s = self->state\[%d\]|\b%s = state\[%d\]' % (n, i, n, i), body) for i, n in enumerate(names))))
    checks.append(('state[i] += a..e', all(_re.search(r'state\[%d\] \+= %s;' % (i, n), body) for i, n in enumerate(names))))
    checks.append(('block copied from the argument', bool(_re.search(r'memcpy\(block, buf, 64\)', body))))
    # nothing else touches a..e / block between the rounds
    inner = body[body.find('R0('):body.rfind(');', 0, body.find('state[0] +=')) + 2]
    residue = _re.sub(r'\bR[0-4]\([^;]*\);', '', inner).strip()
    checks.append(('no other statement among the 80 rounds', residue == ''))
    out['obligations'] = len(checks)
    out['discharged'] = len([c for c in checks if c[1]])
    for name, ok in checks:
        if not ok:
            out['failures'].append({'id': 'SHA1_transform.schedule_pattern: ' + name, 'detail': 'pattern check failed on the text of SHA1::transform'})
    out['samples'] = [{'unit': 'SHA1_transform_schedule_pattern', 'checks': [c[0] for c in checks]}]
    out['wall_s'] = time.time() - t0
    return [out]

# ---------------------------------------------------------------------------------------------
# decoders on arbitrary text.  ByteArray is modelled by (vf_res, capacity, length) with the contracts of C01:
#   ByteArray result(m): capacity max(m,3), length m;  resize(m) needs m >= 0 (and here never grows);  data() = vf_res
DOFFM = '#define DOFF(a, b) ((long)__CPROVER_POINTER_OFFSET(a) - (long)__CPROVER_POINTER_OFFSET(b))\n'
DEFS_H = 'include/asl/defs.h'
decodeBase64 = Unit(
    'decodeBase64', 'C15',
    cuts=[Cut('isspace', DEFS_H, r'^inline bool myisspace\(char c\)\s*$'), Cut('isalnum', DEFS_H, r'^inline bool myisalnum\(char c\)\s*$'),
          Cut('inv', U, r'^static const byte base64_chars_inv\[\] =', kind='stmt'),
          Cut('dec', U, r'^ByteArray decodeBase64\(const char\* src0, int n\)\s*$', nth=1, count=2,
              rules=[(r'ByteArray result\(len2\);', 'VF_ARRAY_CTOR(len2);', 1), (r'result\.clear\(\);', 'vf_reslen = 0;', 1), (r'return result;', 'return;', None),
                     (r'result\.data\(\)', 'vf_res', None), (r'result\.resize\(([^;]*)\);', r'VF_ARRAY_RESIZE(\1);', 1),
                     (r'(const byte\* src = \(const byte\*\)src0;)', r'\1 const byte* vf_s0 = src;', 1)],
              loops=[(r'while\s*\(p > src', 0, '''
  __CPROVER_assigns(p, e)
  __CPROVER_loop_invariant(__CPROVER_same_object(p, vf_s0) && 0 <= DOFF(p, vf_s0) && DOFF(p, vf_s0) <= len - 1 && 0 <= e && e <= len - 1 - DOFF(p, vf_s0))
  __CPROVER_decreases(DOFF(p, vf_s0))
''', [('p', 'vf_s0 + (p - vf_s0)')]),
                     (r'while\s*\(\*src\)', 0, '''
  __CPROVER_assigns(src, dest, i, __CPROVER_object_whole(k), __CPROVER_object_whole(vf_res))
  __CPROVER_loop_invariant(__CPROVER_same_object(src, vf_s0) && 0 <= DOFF(src, vf_s0) && DOFF(src, vf_s0) <= len && 0 <= i && i < 4)
  __CPROVER_loop_invariant(__CPROVER_same_object(dest, vf_res) && 0 <= DOFF(dest, vf_res) && DOFF(dest, vf_res) % 3 == 0 && 4 * (DOFF(dest, vf_res) / 3) + i <= DOFF(src, vf_s0))
  __CPROVER_decreases(len - DOFF(src, vf_s0))
''', [('src', 'vf_s0 + (src - vf_s0)'), ('dest', 'vf_res + (dest - vf_res)')])])],
    text=r'''
#include "vf_base.h"
''' + DOFFM + r'''
static bool myisspace(char c) @@isspace@@
static bool myisalnum(char c) @@isalnum@@
@@inv@@
byte* vf_res; int vf_rescap, vf_reslen, g_len;
#define VF_ARRAY_CTOR(m) { vf_rescap = (m) > 3 ? (m) : 3; vf_res = malloc(vf_rescap); __CPROVER_assume(vf_res != 0); vf_reslen = (m); }
#define VF_ARRAY_RESIZE(m) { __CPROVER_assert((m) >= 0, "Array::resize: new length is non-negative"); __CPROVER_assert((m) <= vf_rescap, "resize within capacity"); vf_reslen = (m); }
void decodeBase64(const char* src0, int n)
__CPROVER_requires(0 <= g_len && g_len <= NMAX && __CPROVER_is_fresh(src0, g_len + 1) && src0[g_len] == 0 && (n == g_len || n == -1))
/* for ANY text (junk, odd lengths, padding-only): terminates, stays inside the text and the result's capacity, and the result length is >= 0 */
__CPROVER_ensures(0 <= vf_reslen && vf_reslen <= g_len / 4 * 3)
__CPROVER_assigns(vf_res, vf_rescap, vf_reslen)
@@dec@@
void vf_harness(void) { const char* s; int n; decodeBase64(s, n); VF_CANARY(); }
''',
    entry='decodeBase64', variants={'': ['-DNMAX=64']}, timeout=900,
    desc='decodeBase64 on ANY NUL-terminated text: table index in range, every write below capacity, trailing-padding scan stays in the text, terminates, result length non-negative',
    functions=['decodeBase64'], trusted=['strlen (libc) returns the offset of the NUL; ByteArray modelled by the C01 contracts of ctor/clear/data/resize'],
)

b64_group = Unit(
    'decodeBase64_group', 'C15',
    cuts=[Cut('inv', U, r'^static const byte base64_chars_inv\[\] =', kind='stmt'),
          Cut('blk', U, r'^\t\tif \(i == 4\)\s*$', kind='body')],
    text=r'''
#include "vf_base.h"
#include "b64.h"
@@inv@@
byte nondet_u8(void); int nondet_int(void);
void vf_harness(void) {
  byte a = nondet_u8(), b = nondet_u8(), c = nondet_u8(); int npad = nondet_int(); __CPROVER_assume(0 <= npad && npad <= 2);
  byte d[3] = { a, b, c }; int n = 3 - npad;                       /* a final group may carry 1 or 2 bytes (RFC 4648 padding) */
  byte k[4]; byte out[3]; byte* dest = out; int i = 4;
  for (int j = 0; j < 4; j++) k[j] = base64_chars_inv[(byte)SPEC_B64(d, n, j)];   /* what the loop stores for the 4 characters of the group */
  @@blk@@
  __CPROVER_assert(out[0] == a && (n < 2 || out[1] == b) && (n < 3 || out[2] == c), "decoding the RFC 4648 encoding of a group returns its bytes (the padded ones are cut off by the caller)");
  __CPROVER_assert(dest == out + 3 && i == 0, "a group produces 3 bytes");
  VF_CANARY();
}
''',
    entry=None, unwind=6, floor=5, expect=['assertion'],
    desc='one Base64 group, all 2^24 byte triples and both padding forms: the decoder\'s table lookup and bit assembly invert RFC 4648 encoding',
    functions=['decodeBase64 (group decoding)', 'base64_chars_inv'],
    planted=[('blk', r'\(k\[1\] << 12\)', '(k[1] << 11)')],
)
UNITS += [b64_group]   # decodeBase64 (loop contracts): not finishing yet, see below

# one iteration of the decoding loop `while (*src) { ... }` on ANY next character and ANY loop state (i filled sextets, k[], dest):
#  - the four whitespace characters are skipped: nothing but src changes ("also when the Base64 text is interleaved with whitespace")
#  - a character of the RFC 4648 alphabet contributes exactly its 6-bit value, in order; the 4th completes a group of 3 bytes
#  - every character advances src by one (the loop terminates at the NUL) and dest moves by 0 or 3
b64_step = Unit(
    'decodeBase64_step', 'C15',
    cuts=[Cut('isspace', DEFS_H, r'^inline bool myisspace\(char c\)\s*$'),
          Cut('inv', U, r'^static const byte base64_chars_inv\[\] =', kind='stmt'),
          Cut('step', U, r'^\twhile \(\*src\)\s*', kind='body', nth=1, count=2)],
    text=r'''
#include "vf_base.h"
#include "b64.h"
static bool myisspace(char c) @@isspace@@
@@inv@@
byte nondet_u8(void); int nondet_int(void);
void vf_harness(void) {
  byte text[2]; text[0] = nondet_u8(); text[1] = 0; __CPROVER_assume(text[0] != 0);
  byte c = text[0]; const byte* src = text;
  byte k[4], k0[4]; for (int j = 0; j < 4; j++) { k[j] = nondet_u8(); __CPROVER_assume(k[j] < 64); k0[j] = k[j]; }
  int i = nondet_int(); __CPROVER_assume(0 <= i && i <= 3); int i0 = i;
  byte out[3]; byte* dest = out;
  int v = nondet_int(); __CPROVER_assume(0 <= v && v < 64);
  int once = 0;
  while (!once++) @@step@@              /* (`continue` in the body ends the iteration) */
  __CPROVER_assert(src == text + 1, "every character is consumed exactly once");
  __CPROVER_assert(dest == out || dest == out + 3, "0 or 3 bytes per character");
  if (c == ' ' || c == '\t' || c == '\n' || c == '\r')
    __CPROVER_assert(i == i0 && dest == out && k[0] == k0[0] && k[1] == k0[1] && k[2] == k0[2] && k[3] == k0[3], "space, tab, LF and CR between the symbols are skipped: the decoding state does not change");
  if (c == (byte)SPEC_B64_ALPHA(v)) {
    if (i0 < 3) __CPROVER_assert(i == i0 + 1 && dest == out && k[i0] == v, "an alphabet character stores its RFC 4648 value as the next sextet");
    else {
      unsigned u = ((unsigned)k0[0] << 18) | ((unsigned)k0[1] << 12) | ((unsigned)k0[2] << 6) | (unsigned)v;
      __CPROVER_assert(i == 0 && dest == out + 3 && out[0] == (byte)(u >> 16) && out[1] == (byte)(u >> 8) && out[2] == (byte)u, "the 4th sextet completes the group: 3 bytes, big-endian");
    }
  }
  VF_CANARY();
}
''',
    entry=None, unwind=6, floor=4, expect=['assertion'],
    replay=replay.from_trace('C15/driver.cpp', ['c'], lambda v: ['b64ws', v['c']]),
    desc='one iteration of the decodeBase64 loop for ANY character and loop state: whitespace (space, tab, LF, CR) leaves the decoding state untouched, an alphabet character adds exactly its value, '
         'each character is consumed once (termination at the NUL)',
    functions=['decodeBase64 (loop body)', 'base64_chars_inv', 'myisspace'],
    planted=[('step', r'myisspace\(\*src\)', '(*src == 32)')],
)
UNITS += [b64_step]

# ---------------------------------------------------------------------------------------------
# percent-encoding: Url::decode(Url::encode(c)) == c for every byte, in both modes (whole bodies on a one-character string)
HCPP = 'src/Http.cpp'
url_roundtrip = Unit(
    'Url_encode_decode_byte', 'C15',
    cuts=[Cut('isanyof', HCPP, r'^inline bool isanyof\(char c, const char\* chars\)\s*$'), Cut('hexNibble', HCPP, r'^inline char hexNibble\(int x\)\s*$'),
          Cut('enc', HCPP, r'^String Url::encode\(const String& q0_, bool component\)\s*$',
              rules=[(r'#ifdef ASL_ANSI\s*String q0 = localToUtf8\(q0_\);\s*#else\s*const String& q0 = q0_;\s*#endif', '', 1), (r'String q\(q0\.length\(\), 0\);', 'g_outlen = 0;', 1),
                     (r'q0\.length\(\)', 'in_len', None), (r'\*\(byte\*\)&q0\[i\]', '(byte)in_txt[i]', None), (r'(?<![\w.>])q0\[', 'in_txt[', None),
                     (r"q << '%' << hexNibble\(c >> 4\) << hexNibble\(c & 0x0f\);", "{ OUT('%'); OUT(hexNibble(c >> 4)); OUT(hexNibble(c & 0x0f)); }", None), (r'q << \(char\)c;', 'OUT((char)c);', None), (r'q << c;', 'OUT(c);', None),
                     (r'return q;', 'return;', 1)]),
          Cut('dec', HCPP, r'^String Url::decode\(const String& q0\)\s*$',
              rules=[(r'\bString q;', 'g_declen = 0;', 1), (r'q0\.length\(\)', 'g_outlen', None), (r'(?<![\w.>])q0\[', 'g_out[', None),
                     (r'q << \(char\)strtoul\(b, NULL, 16\);', 'DEC((char)vf_hex2(b));', 1), (r'q << c;', 'DEC(c);', 1),
                     (r'#ifdef ASL_ANSI\s*return utf8ToLocal\(q\);\s*#else\s*return q;\s*#endif', 'return;', 1)])],
    text=r'''
#include "vf_base.h"
/* isalnum in the C locale (ISO C 7.4.1.1), as a stub: glibc implements it with a locale table */
static int isalnum(int c) { return (c >= '0' && c <= '9') || (c >= 'A' && c <= 'Z') || (c >= 'a' && c <= 'z'); }
char g_out[8]; int g_outlen; char g_dec[4]; int g_declen;
static void OUT(char c) { __CPROVER_assert(g_outlen < 7, "emit"); g_out[g_outlen++] = c; g_out[g_outlen] = 0; }
static void DEC(char c) { __CPROVER_assert(g_declen < 3, "decode"); g_dec[g_declen++] = c; }
#define HEXV(x) ((x) >= '0' && (x) <= '9' ? (x) - '0' : (x) >= 'a' && (x) <= 'f' ? (x) - 'a' + 10 : (x) >= 'A' && (x) <= 'F' ? (x) - 'A' + 10 : -1)
static unsigned vf_hex2(const char* t) { int a = HEXV(t[0]), b = HEXV(t[1]); return (a >= 0 && b >= 0) ? (unsigned)(a * 16 + b) : 0u; }   /* strtoul(t, 0, 16) on two hex digits */
static bool isanyof(char c, const char* chars) @@isanyof@@
static char hexNibble(int x) @@hexNibble@@
static void Url_encode(const char* in_txt, int in_len, bool component) @@enc@@
static void Url_decode(void) @@dec@@
char nondet_char(void); bool nondet_bool(void);
void vf_harness(void) {
  char c = nondet_char(); __CPROVER_assume(c != 0);
  bool component = nondet_bool();
  char text[2] = { c, 0 };
  Url_encode(text, 1, component);
  /* RFC 3986: what is not written as itself is written as "%" and two upper-case hex digits */
  __CPROVER_assert(g_outlen == 1 || (g_outlen == 3 && g_out[0] == '%' && HEXV(g_out[1]) >= 0 && HEXV(g_out[2]) >= 0), "one byte is encoded as itself or as %XX");
  __CPROVER_assert((g_outlen == 1) ==> ((unsigned char)c < 0x80 && c != '%' && c != ' '), "bytes >= 0x80, '%' and space are always escaped");
  Url_decode();
  __CPROVER_assert(g_declen == 1 && g_dec[0] == c, "Url::decode(Url::encode(c)) == c");
  VF_CANARY();
}
''',
    entry=None, unwind=26, floor=5, expect=['assertion'],
    desc='for EVERY byte 1..255 and both modes (component / whole URL): Url::encode writes the byte as itself or as %XX, and Url::decode of that text is the byte',
    functions=['Url::encode', 'Url::decode', 'isanyof', 'hexNibble'], trusted=['isalnum as specified for the C locale; strtoul on two hex digits'],
)
UNITS += [url_roundtrip]

decode_hex = Unit(
    'decodeHex', 'C15',
    cuts=[Cut('dh', U, r'^ByteArray decodeHex\(const String& s\)\s*$',
              rules=[(r'ByteArray a\(s\.length\(\) / 2\);', 'int a_len = g_len / 2; int a_cap = a_len > 3 ? a_len : 3;', 1), (r's\.length\(\)', 'g_len', None),
                     (r's\.substring\(([^,]+), ([^)]+)\)\.hexToInt\(\)', r'(SUBSTRING_PRE(g_len, \1, \2), 0)', None), (r'strtoul\((\w+), NULL, 16\)', r'((void)\1[0], 0)', None), (r'const char\* p = \*s;', 'const char* p = g_text;', None),
                     (r'\ba\[([^\]]+)\] = ([^;]*);', r'{ A_AT(\1); (void)(\2); g_writes++; }', 1),   # whatever computes the byte: the index and the reads it makes are what is checked
                     (r'return a;', 'return;', 1)],
              loops=[(r'for\s*\(', 0, '''
  __CPROVER_assigns(i, g_writes)
  __CPROVER_loop_invariant(0 <= i && i <= g_len && i % 2 == 0 && g_writes == i / 2)
  __CPROVER_decreases(g_len + 2 - i)
''')])],
    text=r'''
#include "vf_base.h"
int g_len, g_writes; const char* g_text;
#define A_AT(k) __CPROVER_assert(0 <= (k) && (k) < a_len, "Array::operator[] index below length")
#define SUBSTRING_PRE(len, i, j) __CPROVER_assert(0 <= (i) && (i) <= (j) && (j) <= (len), "String::substring(i, j) needs 0 <= i <= j <= length()")
void decodeHex(void)
__CPROVER_requires(0 <= g_len && g_len <= 1000000 && g_writes == 0 && __CPROVER_is_fresh(g_text, g_len + 1) && g_text[g_len] == 0)
/* any text, even or odd length: every write is inside the result array, every substring inside the text; one byte per complete pair of digits */
__CPROVER_ensures(g_writes == g_len / 2)
__CPROVER_assigns(g_writes)
@@dh@@
void vf_harness(void) { decodeHex(); VF_CANARY(); }
''',
    entry='decodeHex',
    desc='decodeHex for text of ANY length (odd included): array writes below its length, substring arguments inside the text, one byte per digit pair',
    functions=['decodeHex'], trusted=['String::substring / hexToInt (strtoul) contracts'],
)
UNITS += [decode_hex]

# the tail of decodeBase64 (after the decoding loop): the length given to the result is never negative
b64_tail = Unit(
    'decodeBase64_result_length', 'C15',
    cuts=[Cut('tail', U, r'\t\t\ti = 0;\s*\}\s*\}\s*\n((?:.|\n)*?)\treturn result;\s*\}\s*#endif', kind='expr',
              rules=[(r'int\(dest - result\.data\(\)\)', 'g_decoded', None), (r'result\.resize\(([^;]*)\);', r'VF_ARRAY_RESIZE(\1);', None)])],
    text=r'''
#include "vf_base.h"
int g_decoded, g_newlen, g_resized;
#define VF_ARRAY_RESIZE(m) { __CPROVER_assert((m) >= 0, "Array::resize: new length is non-negative"); g_newlen = (m); g_resized = 1; }
void decodeBase64_tail(int e)
/* e = number of '=' among the trailing non-alphabet characters, g_decoded = bytes written by the loop: ANY non-negative values (padding-only text has e > decoded) */
__CPROVER_requires(0 <= e && e <= 1000000 && 0 <= g_decoded && g_decoded <= 1000000 && g_resized == 0)
__CPROVER_ensures(g_resized && 0 <= g_newlen && g_newlen <= g_decoded)
__CPROVER_assigns(g_newlen, g_resized)
{
  @@tail@@
}
void vf_harness(void) { int e; decodeBase64_tail(e); VF_CANARY(); }
''',
    entry='decodeBase64_tail',
    desc='decodeBase64, final step: whatever the count of trailing "=" and of decoded bytes, the result length is >= 0 and <= the bytes decoded',
    functions=['decodeBase64 (result length)'],
)
UNITS += [b64_tail]

# Url::parseQuery(Url::params(d)) = d: the order-of-operations unit lives with the HTTP units
from units.C09 import parse_query as _pq
UNITS += [_pq]
from vf.core import DEFAULT_CHECKS as _DC
NO_OVF15 = [c for c in _DC if c != '--signed-overflow-check'] + ['--no-signed-overflow-check']   # count[0] is a signed int used as a bit counter

# ---- SHA1::end(): padding (FIPS 180-4 5.1.1) - after the message: one byte 0x80, the SMALLEST number of zero bytes that brings the length to 56 mod 64, then the bit length as
# a 64-bit big-endian number; so the total is the smallest multiple of 64 that is >= L + 9.  update() is a stub with the contract of unit SHA1_update (bit count += 8n)
# that records what it is fed; the digest is the state, big-endian.
sha_end = Unit(
    'SHA1_end', 'C15',
    cuts=[Cut('end', SH, r'^SHA1::Hash SHA1::end\(\)\s*$', members=('count', 'state'),
              rules=[(r'Hash digest;', '', 1), (r'(?<![\w.>])update\(', 'VF_UPDATE(self, ', None), (r'memset\(this, [^;]*;', 'g_wiped = 1;', None), (r'memset\(&finalcount, [^;]*;', '', None),
                     (r'return digest;', 'return;', 1), (r'static const byte zeros\[64\] = \{ 0 \};', 'const byte zeros[64] = { 0 };', None)])],
    text=r'''
#include "vf_base.h"
#include <stdint.h>
''' + SHA_STATE + r'''
int g_L;                       /* message length in bytes (count = 8 * g_L) */
int g_fed, g_first_ok, g_zero_ok, g_k, g_wiped; byte g_lenbytes[8]; int g_len_at;
byte digest[20];
/* update(p, n): n more bytes of input; the bit count grows by 8n (contract of unit SHA1_update).  Here it checks the shape of what end() appends. */
static void VF_UPDATE(SHA1* self, const byte* p, int n) {
  __CPROVER_assert(n >= 0 && (n == 0 || __CPROVER_r_ok(p, n)), "update reads n bytes");
  if (g_fed == 0 && n >= 1) g_first_ok = (p[0] == 0x80 && n == 1);               /* the first byte after the message */
  /* byte classes: position 0 -> 0x80; the LAST 8 bytes fed -> the length; everything between -> zero.  The length bytes are recognised as the final 8-byte call. */
  if (n == 8 && g_fed >= 1) { g_len_at = g_fed; for (int i = 0; i < 8; i++) g_lenbytes[i] = p[i]; }
  else if (g_fed >= 1) { for (int i = 0; i < n && i < 64; i++) if (p[i] != 0) g_zero_ok = 0; __CPROVER_assert(n <= 64, "zero padding fed in pieces of at most one block"); }
  g_fed += n; self->count[0] += n << 3;
}
void SHA1_end(SHA1* self)
__CPROVER_requires(__CPROVER_is_fresh(self, sizeof(SHA1)) && 0 <= g_L && g_L <= 100000000 && self->count[0] == 8 * g_L && self->count[1] == 0)
__CPROVER_requires(g_fed == 0 && g_first_ok == 0 && g_zero_ok == 1 && g_len_at == -1 && g_wiped == 0 && 0 <= g_k && g_k < 20)
/* FIPS 180-4 5.1.1: 0x80, minimal zero padding, 64-bit big-endian bit length: the padded message is the smallest multiple of 64 bytes that holds L + 9 */
__CPROVER_ensures(g_first_ok && g_zero_ok && g_len_at == g_fed - 8)
__CPROVER_ensures((g_L + g_fed) % 64 == 0 && g_L + g_fed == 64 * ((g_L + 9 + 63) / 64))
__CPROVER_ensures(g_lenbytes[0] == 0 && g_lenbytes[1] == 0 && g_lenbytes[2] == 0 && g_lenbytes[3] == 0 && g_lenbytes[4] == (byte)((8u * g_L) >> 24) && g_lenbytes[5] == (byte)((8u * g_L) >> 16) && g_lenbytes[6] == (byte)((8u * g_L) >> 8) && g_lenbytes[7] == (byte)(8u * g_L))
/* the digest is H0..H4 in big-endian order; the object is wiped */
__CPROVER_ensures(digest[g_k] == (byte)(__CPROVER_old(self->state[g_k >> 2]) >> (8 * (3 - (g_k & 3)))) && g_wiped)
__CPROVER_assigns(*self, g_fed, g_first_ok, g_zero_ok, g_lenbytes, g_len_at, g_wiped, digest)
@@end@@
void vf_harness(void) { SHA1* s; SHA1_end(s); VF_CANARY(); }
''',
    entry='SHA1_end', unwind=70, checks=NO_OVF15,
    desc='SHA1::end() for EVERY message length below 100 MB: appends 0x80, the minimal zero padding and the 64-bit big-endian bit length (FIPS 180-4 5.1.1: total = smallest multiple of 64 >= L+9), '
         'returns the state big-endian and wipes the object',
    functions=['SHA1::end'],
    trusted=['SHA1::update by its contract (unit SHA1_update): consumes n bytes, bit count += 8n; the state it leaves is the transform of the fed blocks'],
    assumes=['count[1] == 0 (fewer than 512 MiB hashed)'],
)
UNITS += [sha_end]

# ---- Url::params(d): keys AND values are percent-encoded in component mode (so that & = + % inside them are data), then joined with & and =
params_unit = Unit(
    'Url_params_mode', 'C15',
    cuts=[Cut('pm', HCPP, r'^String Url::params\(const Dic<>& q\)\s*$',
              rules=[(r'Dic<> d;', '', 1), (r'foreach2\(String& k, const String& v, q\)', '', 1), (r'Url::encode\((\w+), true\)', r'ENC(\1, 1)', None), (r'Url::encode\((\w+), false\)', r'ENC(\1, 0)', None), (r'Url::encode\((\w+)\)', r'ENC(\1, 0)', None),
                     (r'd\[([^;]*)\] = ([^;]*);', r'STORE(\1, \2);', 1), (r"return d\.join\('&', '='\);", 'return;', 1)])],
    text=r'''
#include "vf_base.h"
typedef struct TV { int component_encoded; } TV;
int g_stored;
/* Url::encode(s, component): component == false leaves the query delimiters & = + / ? untouched (Http.cpp; unit Url_encode_decode_byte) */
static TV ENC(TV s, int component) { TV r = { component }; return r; }
static void STORE(TV k, TV v) { __CPROVER_assert(k.component_encoded && v.component_encoded, "names and values are encoded as URL components: a '&', '=' or '+' inside them must not reach the query string raw"); g_stored++; }
void Url_params(TV k, TV v)
__CPROVER_requires(g_stored == 0)
__CPROVER_ensures(g_stored == 1)
__CPROVER_assigns(g_stored)
@@pm@@
void vf_harness(void) { TV k = { 0 }, v = { 0 }; Url_params(k, v); VF_CANARY(); }
''',
    entry='Url_params',
    desc='Url::params: every key and every value goes through Url::encode in component mode before being joined (parseQuery(params(d)) = d needs it for values containing & = +)',
    functions=['Url::params'], trusted=['Url::encode modes (unit Url_encode_decode_byte)'],
)
UNITS += [params_unit]

# replay: where the trace recipe of a unit does not reproduce (or there is none) the driver's battery runs on the real library: Base64/hex for every length 0..400 (RFC text,
# round trip, whitespace interleaved), all malformed Base64 strings up to 6 characters over {A = - space LF /}, odd-length hex, percent-encoding of every byte in both modes,
# parseQuery(params(d)) with reserved characters, SHA-1 for every length 0..260 against a FIPS 180-4 reference
_bat = replay.battery('C15/driver.cpp', ['battery'])
for _u in UNITS:
    _u.replay = replay.first_of(_u.replay, _bat) if _u.replay else _bat

# planted one-token breaks for the newer units (thorough tier: each must make an obligation fail)
sha_end.planted = [('end', r'!= 448', '!= 440')]
