"""C10 - HTTP client/server exchange: only the framing arithmetic (src/Socket.cpp, src/Http.cpp)"""
from vf.core import Unit, Cut, ifdef_rule, do_while_rule
from vf import replay

SC, HC = 'src/Socket.cpp', 'src/Http.cpp'
LEVEL = 'proof'
NOT_DECIDED = ['end-to-end equality over real sockets', 'many clients in flight (schedules)', 'header set and status line text', 'file bodies with ranges']
PRE = r'''
#include "vf_base.h"
int nondet_int(void); bool nondet_bool(void);
#define DOFF(a, b) ((long)__CPROVER_POINTER_OFFSET(a) - (long)__CPROVER_POINTER_OFFSET(b))
typedef struct Socket_ { int _handle; bool _blocking; int _error; } Socket_;
enum { SOCKET_BAD_RECV = 1, SOCKET_BAD_DATA = 2 };
/* ghost view of what the OS was asked to do: g_calls calls so far, together covering exactly bytes [0, g_sofar) of the caller's buffer */
const char* g_base; int g_total, g_sofar, g_calls, g_ok;
'''
WIN = ifdef_rule('_WIN32', False)
# the OS calls, whatever their buffer / count arguments are (a changed argument is a changed value for the stub's assertion, not an extraction miss)
OS_READ_RULE = (r'::read\(_handle, (.+?), ([^,;]+)\);', r'OS_READ((char*)(\1), \2);', 1)
OS_SEND_RULE = (r'::send\(_handle, (.+?), ([^,;]+), MSG_NOSIGNAL\);', r'OS_SEND((const char*)(\1), \2);', 1)

sock_read = Unit(
    'Socket_read', 'C10',
    cuts=[Cut('rd', SC, r'^int Socket_::read\(void\* data, int size\)\s*$', members=('_handle', '_blocking', '_error'),
              rules=[WIN, OS_READ_RULE, do_while_rule],
              loops=[(r'while \(vf_first', 0, '''
  __CPROVER_assigns(vf_first, data, s, size, g_sofar, g_calls, self->_error)
  __CPROVER_loop_invariant((vf_first ? s == 0 : (0 < s)) && s <= g_total && (vf_first == 0 || vf_first == 1) && s == g_sofar && size == g_total - s && __CPROVER_same_object(data, g_base) && DOFF(data, g_base) == s && g_ok && self->_blocking && 0 <= g_calls && g_calls <= s + 1)
  __CPROVER_decreases(g_total - s + vf_first)
''')])],
    text=PRE + r'''
/* ::read(fd, p, n): n > 0; returns -1 (error), 0 (end of stream) or 1..n bytes stored at p.  The stub checks WHERE the library asks the OS to store them. */
static int OS_READ(char* p, int n) {
  if (!(p == g_base + g_sofar && n == g_total - g_sofar && n > 0)) g_ok = 0;
  __CPROVER_assert(p == g_base + g_sofar && n == g_total - g_sofar && n > 0, "each OS read continues exactly where the previous one stopped and never passes the end of the caller's buffer");
  int r = nondet_int(); __CPROVER_assume(-1 <= r && r <= n); g_calls++; if (r > 0) g_sofar += r; return r; }
int Socket_read(Socket_* self, void* data, int size)
__CPROVER_requires(__CPROVER_is_fresh(self, sizeof(Socket_)) && 1 <= size && size <= NMAX && __CPROVER_is_fresh(data, size))
__CPROVER_requires(g_base == (const char*)data && g_total == size && g_sofar == 0 && g_calls == 0 && g_ok == 1 && self->_error == 0)
/* blocking mode: returns the number of bytes stored, which is the full size unless the OS reported an error or the end of the stream */
__CPROVER_ensures(self->_blocking ==> (__CPROVER_return_value == g_sofar && 0 <= g_sofar && g_sofar <= size && (g_sofar < size ==> self->_error == SOCKET_BAD_RECV)))
__CPROVER_ensures(!self->_blocking ==> g_calls == 1)
__CPROVER_assigns(self->_error, g_sofar, g_calls, g_ok)
@@rd@@
void vf_harness(void) { Socket_* s; void* d; int n; Socket_read(s, d, n); VF_CANARY(); }
''',
    entry='Socket_read', variants={'': ['-DNMAX=1000000']},
    desc='Socket_::read: in blocking mode the OS reads cover the caller\'s buffer consecutively from offset 0 and never beyond it; the result is the byte count, short only after an error/end of stream; terminates',
    functions=['Socket_::read'], trusted=['POSIX read(): returns -1, 0 or 1..n'],
)

sock_write = Unit(
    'Socket_write', 'C10',
    cuts=[Cut('wr', SC, r'^int Socket_::write\(const void\* data, int size\)\s*$', members=('_handle', '_blocking', '_error'),
              rules=[WIN, OS_SEND_RULE, do_while_rule],
              loops=[(r'while \(vf_first', 0, '''
  __CPROVER_assigns(vf_first, data, s, size, g_sofar, g_calls, self->_error)
  __CPROVER_loop_invariant((vf_first ? s == 0 : (0 < s)) && s <= g_total && (vf_first == 0 || vf_first == 1) && s == g_sofar && size == g_total - s && __CPROVER_same_object(data, g_base) && DOFF(data, g_base) == s && g_ok && self->_blocking && 0 <= g_calls && g_calls <= s + 1)
  __CPROVER_decreases(g_total - s + vf_first)
''')])],
    text=PRE + r'''
/* ::send(fd, p, n, flags) with n > 0 on a blocking stream socket: -1 (error) or 1..n bytes taken from p */
static int OS_SEND(const char* p, int n) {
  if (!(p == g_base + g_sofar && n == g_total - g_sofar && n > 0)) g_ok = 0;
  __CPROVER_assert(p == g_base + g_sofar && n == g_total - g_sofar && n > 0, "each OS send continues exactly where the previous one stopped and never passes the end of the caller's data");
  int r = nondet_int(); __CPROVER_assume(r == -1 || (1 <= r && r <= n)); g_calls++; if (r > 0) g_sofar += r; return r; }
int Socket_write(Socket_* self, const void* data, int size)
__CPROVER_requires(__CPROVER_is_fresh(self, sizeof(Socket_)) && 0 <= size && size <= NMAX && __CPROVER_is_fresh(data, size > 0 ? size : 1))
__CPROVER_requires(g_base == (const char*)data && g_total == size && g_sofar == 0 && g_calls == 0 && g_ok == 1 && self->_error == 0)
/* blocking mode: every byte of [data, data+size) is handed to the OS exactly once and in order, unless the OS reports an error */
__CPROVER_ensures(self->_blocking ==> (__CPROVER_return_value == g_sofar && 0 <= g_sofar && g_sofar <= size && (g_sofar < size ==> self->_error == SOCKET_BAD_DATA)))
__CPROVER_assigns(self->_error, g_sofar, g_calls, g_ok)
@@wr@@
void vf_harness(void) { Socket_* s; const void* d; int n; Socket_write(s, d, n); VF_CANARY(); }
''',
    entry='Socket_write', variants={'': ['-DNMAX=1000000']},
    desc='Socket_::write: in blocking mode the bytes of the caller\'s buffer are handed to the OS consecutively, each exactly once, never beyond its end; terminates',
    functions=['Socket_::write'], trusted=['POSIX send() on a blocking stream socket with n > 0: returns -1 or 1..n (never 0)'],
)
import copy
def _small(u, name):
    """the same function, contract and OS stub without the loop contract: the do/while is unwound completely for buffers of at most 4 bytes (each turn moves >= 1 byte).
    Independent of the names and shape of the loop's locals, so a restructured loop is still decided (bounded)."""
    v = copy.copy(u)
    v.name = name
    c = u.cuts[0]
    v.cuts = [Cut(c.name, c.file, c.locator, members=('_handle', '_blocking', '_error'), rules=[r for r in c.rules if r is not do_while_rule])]
    v.variants = {'': ['-DNMAX=4']}
    v.unwind = 6
    v.kind, v.bound = 'bounded', 'buffers of 1..4 bytes (loop unwound completely: at most 4 turns), any OS return values'
    v.loop_contracts = False
    v.desc = u.desc + ' [bounded twin without loop contract]'
    return v
sock_read_small = _small(sock_read, 'Socket_read_small')
sock_write_small = _small(sock_write, 'Socket_write_small')
for _u in (sock_read, sock_write, sock_read_small, sock_write_small):     # set here: C09 imports these units and would otherwise attach its own driver first
    _u.replay = replay.battery('C10/driver.cpp', ['battery'])
UNITS = [sock_read, sock_write, sock_read_small, sock_write_small]

http_write = Unit(
    'HttpMessage_write_blocks', 'C10',
    cuts=[Cut('hw', HC, r'^int HttpMessage::write\(const char\* buffer, int n\)\s*$',
              rules=[(r'if \(!_headersSent\)\s*if \(!sendHeaders\(\)\)\s*return false;', 'if (!vf_headers()) return 0;', 1),
                     (r'String::f\("%x\\r\\n", ((?:[^()]|\([^()]*\))*)\)', r'HEXLINE(\1)', '+'), (r'\bString\(\)', '(-1)', None), (r'\bString (\w+) = ', r'int \1 = ', None),
                     (r'\*_socket << (HEXLINE\((?:[^()]|\([^()]*\))*\));', r'CHUNK_HDR(\1);', None), (r'\*_socket << (\w+);', r'CHUNK_HDR(\1);', None),   # a chunk-size line is represented by the number it prints
                     (r'_socket->write\(buffer, m\)', 'SOCK_WRITE(buffer, m)', 1),
                     (r'_status->sent \+= written;', '', 1), (r'if \(_progress\)\s*_progress\(\*_status\);', '', 1), (r'\*_socket << "\\r\\n";', 'CHUNK_END();', 1),
                     (r'\b_chunked\b', 'self_chunked', None)],
              loops=[(r'while \(n > 0\)', 0, '''
  __CPROVER_assigns(n, buffer, sent, g_sofar, g_calls, g_hdr, g_open, g_ok)
  __CPROVER_loop_invariant(0 <= n && n <= g_total && g_sofar == g_total - n && sent == g_sofar && __CPROVER_same_object(buffer, g_base) && DOFF(buffer, g_base) == g_sofar && g_ok && !g_open && 0 <= g_calls && g_calls <= g_sofar)
  __CPROVER_decreases(n)
''')])],
    text=PRE + r'''
#define SEND_BLOCK_SIZE 128000
bool self_chunked; int g_hdr, g_open;
#define HEXLINE(v) ((int)(v))      /* String::f("%x\r\n", v): the text of a chunk-size line, represented by the size it announces */
static bool vf_headers(void) { return nondet_bool(); }
/* chunked transfer coding (RFC 9112 7.1): each chunk = hex size CRLF data CRLF */
static void CHUNK_HDR(int m) { __CPROVER_assert(!g_open, "chunk header only between chunks"); g_hdr = m; g_open = 1; }
static void CHUNK_END(void) { __CPROVER_assert(g_open == 2, "CRLF closes a chunk whose data was written"); g_open = 0; }
/* Socket::write(p, m) (unit Socket_write): m bytes handed to the OS, or fewer on error */
static int SOCK_WRITE(const char* p, int m) {
  if (!(p == g_base + g_sofar && 1 <= m && m <= SEND_BLOCK_SIZE && m <= g_total - g_sofar && (!self_chunked || (g_open == 1 && g_hdr == m)))) g_ok = 0;
  __CPROVER_assert(p == g_base + g_sofar && 1 <= m && m <= SEND_BLOCK_SIZE && m <= g_total - g_sofar, "blocks are consecutive, non-empty, at most 128000 bytes, inside the caller's buffer");
  __CPROVER_assert(!self_chunked || (g_open == 1 && g_hdr == m), "in chunked mode each block is preceded by the hex of its own length");
  g_calls++; int r = nondet_bool() ? m : nondet_int(); __CPROVER_assume(0 <= r && r <= m); if (r == m) { g_sofar += m; if (self_chunked) g_open = 2; } return r; }
int HttpMessage_write(const char* buffer, int n)
__CPROVER_requires(0 <= n && n <= NMAX && __CPROVER_is_fresh(buffer, n > 0 ? n : 1))
__CPROVER_requires(g_base == buffer && g_total == n && g_sofar == 0 && g_calls == 0 && g_ok == 1 && g_open == 0)
/* if no socket write fell short, the body bytes [0, n) went out exactly once, in order, in blocks of at most 128000 (each a well-formed chunk in chunked mode) */
__CPROVER_ensures(__CPROVER_return_value == (n == 0 ? 1 : g_sofar) || g_calls == 0)
__CPROVER_ensures(g_ok && (g_sofar == n || __CPROVER_return_value < n))
__CPROVER_assigns(g_sofar, g_calls, g_hdr, g_open, g_ok)
@@hw@@
void vf_harness(void) { const char* b; int n; HttpMessage_write(b, n); VF_CANARY(); }
''',
    entry='HttpMessage_write', variants={'': ['-DNMAX=100000000']},
    desc='HttpMessage::write(buffer, n) for every n up to 10^8: the body goes out in consecutive blocks of 1..128000 bytes covering [0, n) exactly once; in chunked mode each block is framed as hex-size CRLF data CRLF',
    functions=['HttpMessage::write(const char*, int)'], trusted=['Socket::write contract (unit Socket_write); String::f("%x") prints the chunk size in hex (libc)'],
)
UNITS += [http_write]

# receiving side of the exchange: the body/header reading loops of HttpMessage are C09's units; what they decide (each turn consumes input or ends, chunk framing
# is consumed completely so that the next request on a kept-alive connection starts at its request line) is part of this property too
from units.C09 import read_body_loop as _rbl, read_body_outer as _rbo, read_headers as _rh
UNITS += [_rbl, _rbo, _rh]

# ---- HttpMessage::writeFile(path, begin, end): the byte range [begin, end] of a file goes out exactly - never a byte beyond the announced length
# (on a kept-alive connection surplus bytes would be taken for the start of the next response)
write_file = Unit(
    'HttpMessage_writeFile', 'C10',
    cuts=[Cut('wf', HC, r'^void HttpMessage::writeFile\(const String& path, int begin, int end\)\s*$',
              rules=[(r'File file\(path, File::READ\);\s*if \(!file\)\s*return;', '', 1), (r'if \(!_headersSent\)\s*sendHeaders\(\);', '', 1), (r'file\.seek\(begin\);', 'g_pos = begin;', 1),
                     (r'file\.size\(\)', 'g_filesize', 1), (r'file\.read\(buf, ([^;]+)\);', r'FILE_READ(\1);', 1), (r'(?<![\w.>])write\(buf, n\)', 'MSG_WRITE(n)', 1), (r'\bLong size\b', 'long long size', 1)],
              loops=[(r'while\s*\(n > 0', 0, '''
  __CPROVER_assigns(n, bytesSent, g_pos, g_written, g_fail)
  __CPROVER_loop_invariant(0 <= bytesSent && bytesSent <= size && g_written == bytesSent && (long long)g_pos == (long long)begin + bytesSent && g_pos <= g_filesize && (g_fail == 0 || g_fail == 1) && n >= 0 && (n == 0 ==> g_pos == g_filesize))
  __CPROVER_decreases((n > 0 ? 1 : 0) + 2 * (size - bytesSent))
''')])],
    text=PRE + r'''
#define RECV_BLOCK_SIZE 16000
int g_pos, g_written, g_fail; long long g_filesize;
/* File::read(p, k): k >= 1 inside the buffer; returns 1..min(k, bytes left in the file), 0 at the end of the file */
static int FILE_READ(int k) { __CPROVER_assert(1 <= k && k <= RECV_BLOCK_SIZE, "file.read length positive and within the buffer"); long long left = g_filesize - g_pos; int r = nondet_int(); __CPROVER_assume(0 <= r && r <= k && r <= left && (left > 0 ==> r >= 1)); g_pos += r; return r; }
/* HttpMessage::write(buf, n) (unit HttpMessage_write_blocks): n bytes of body go out, or a negative result */
static int MSG_WRITE(int n) { __CPROVER_assert(n >= 1, "write of a non-empty block"); if (nondet_bool()) { g_fail = 1; return -1; } g_written += n; return n; }
void writeFile(int begin, int end)
__CPROVER_requires(0 <= begin && begin <= end && end < g_filesize && g_filesize <= 2000000000 && g_written == 0 && g_fail == 0)
/* exactly the bytes begin..end are sent (end - begin + 1 of them; begin == end means the whole file from begin), in order, unless a write fails; never more than that */
__CPROVER_ensures(g_written <= (begin != end ? end - begin + 1 : g_filesize))
__CPROVER_ensures(!g_fail ==> g_written == (begin != end ? end - begin + 1 : g_filesize - begin))
__CPROVER_assigns(g_pos, g_written, g_fail)
@@wf@@
void vf_harness(void) { int b, e; writeFile(b, e); VF_CANARY(); }
''',
    entry='writeFile',
    desc='HttpMessage::writeFile for ANY file size and byte range: each read asks for at most what is left of the range (and of the buffer), so never more than end-begin+1 bytes are sent; all of them are sent unless a write fails',
    functions=['HttpMessage::writeFile'],
    trusted=['File::read returns 1..k bytes or 0 at the end of the file; HttpMessage::write by its contract (unit HttpMessage_write_blocks)'],
)
from units.C09 import parse_query as _pq10
UNITS += [write_file, _pq10]

# ---- HttpServer::serve: the Connection request header ("keep-alive" / "close") is a case-insensitive token (RFC 9110 7.6.1): it is compared in lower case.
# Typestate over the value: every comparison of `hconn` with a lower-case literal must see a lower-cased value.
HS = 'src/HttpServer.cpp'
def conn_rule(text):
    """reduces HttpServer::serve to the definition of `hconn` and its comparisons"""
    import re
    m = re.search(r'String hconn = ([^;]*);', text)
    cmps = re.findall(r'\bhconn\s*(?:==|!=)\s*"([^"]*)"', text)
    if not m or not cmps:
        return text, 0
    init = m.group(1)
    init = re.sub(r'request\.header\("Connection"\)', 'HDR_RAW()', init)
    for _ in range(3):
        init = re.sub(r'(HDR_RAW\(\)|T_LOWER\([^;]*?\))\.toLowerCase\(\)', r'T_LOWER(\1)', init)
        init = re.sub(r'(HDR_RAW\(\)|T_LOWER\([^;]*?\))\.trimmed\(\)', r'\1', init)
    out = '{ TV hconn = %s;\n' % init + ''.join('  CMP(hconn, "%s");\n' % c for c in cmps) + '}'
    return out, 1
conn_rule.must_fire = True
conn_unit = Unit(
    'HttpServer_connection_token', 'C10',
    cuts=[Cut('sv', HS, r'^void HttpServer::serve\(Socket client\)\s*$', rules=[conn_rule])],
    text=PRE + r'''
typedef struct TV { bool lowered; } TV;
int g_cmps, g_bad;
static TV HDR_RAW(void) { TV t = { false }; return t; }                 /* request.header("Connection"): the value as the client wrote it ("Keep-Alive", "KEEP-ALIVE", "Close") */
static TV T_LOWER(TV t) { t.lowered = true; return t; }
static void CMP(TV t, const char* lit) { for (int i = 0; i < 16 && lit[i]; i++) __CPROVER_assert(!(lit[i] >= 'A' && lit[i] <= 'Z'), "the literal is lower case"); if (!t.lowered) g_bad = 1;
  __CPROVER_assert(t.lowered, "the Connection option is compared case-insensitively: the header value is lower-cased before it is compared with \"keep-alive\" / \"close\""); g_cmps++; }
void serve_connection(void)
__CPROVER_requires(g_cmps == 0 && g_bad == 0)
__CPROVER_ensures(!g_bad && g_cmps >= 2)
__CPROVER_assigns(g_cmps, g_bad)
@@sv@@
void vf_harness(void) { serve_connection(); VF_CANARY(); }
''',
    entry='serve_connection', unwind=20,
    desc='HttpServer::serve: every test of the Connection header against "keep-alive" / "close" sees the lower-cased value (Keep-Alive from an HTTP/1.0 client keeps the connection open, Close closes it)',
    functions=['HttpServer::serve (Connection header)'],
    trusted=['String::toLowerCase lower-cases ASCII (C08)'],
)
UNITS += [conn_unit]

# replay: the native counterpart of the loop-turn units is the driver's battery: the real HttpRequest reader fed through a socketpair with six requests on one connection
# (Content-Length and chunked bodies with binary content, folded headers), delivered whole, cut at request boundaries, cut every 97/333/1000 bytes, cut inside a chunk
for _u in UNITS:
    if not _u.replay:
        _u.replay = replay.battery('C10/driver.cpp', ['battery'])

# planted one-token breaks for the newer units (thorough tier: each must make an obligation fail)
write_file.planted = [('wf', r'\(int\)size - bytesSent\)', '(int)size)')]
