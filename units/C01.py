"""C01 - Array, Stack, Queue (include/asl/Array.h, Stack.h, Queue.h)"""
from vf.core import Unit, Cut
from vf import replay

A = 'include/asl/Array.h'
AM = dict(members=('_a',), methods={'reserve': 'Array_reserve', 'resize': 'Array_resize', 'alloc': 'Array_alloc', 'free': 'Array_free',
                                    'length': 'Array_length', 'insert': 'Array_insert', 'remove': 'Array_remove'})
D_RULE = (r'(?<![\w.>])d\(\)', '(*HDR(self))', None)
B_D_RULE = (r'\bb\.d\(\)', '(*HDR(b_p))', None)
RET_THIS = (r'return \*this;', 'return;', None)
LIFE = [(r'asl_construct\(([^,;()]+(?:\([^()]*\))?[^,;()]*), ([^;]+)\);', r'asl_construct_n(\1, \2);', None),
        (r'asl_destroy\(([^,;()]+(?:\([^()]*\))?[^,;()]*), ([^;]+)\);', r'asl_destroy_n(\1, \2);', None),
        (r'asl_destroy\((&[^,;]+)\);', r'asl_destroy_1(\1);', None),
        (r'asl_construct_copy\(([^,;]+), x\);', r'asl_construct_copy(\1, x_p);', None),
        (r'asl_construct_copy\(([^,;]+), \*(\w+)\);', r'asl_construct_copy(\1, \2);', None), (r'&x\b', 'x_p', None)]

PRE = r'''
#include "vf_array.h"
char* g_block; int g_ctor, g_dtor; int g_k;
/* representation invariant of a handle whose block has capacity CAP (constant per variant, see DESIGN 6 C01) */
#define WF_REQ __CPROVER_requires(__CPROVER_is_fresh(self, sizeof(Array)) && __CPROVER_is_fresh(g_block, sizeof(Data) + CAP * sizeof(T))) \
               __CPROVER_requires(self->_a == (T*)(g_block + sizeof(Data)) && BLK->s == CAP && 0 <= BLK->n && BLK->n <= CAP && 1 <= BLK->rc && BLK->rc <= 1000000 && 0 <= g_ctor && g_ctor <= 1000000 && 0 <= g_dtor && g_dtor <= 1000000)
/* (the header and the elements are named through g_block in preconditions and old(): an assumed equality does not tell
   CBMC's points-to analysis where self->_a points; is_fresh does) */
#define BLK ((Data*)g_block)
#define ELEMS ((T*)(g_block + sizeof(Data)))
/* the precondition only assumes these equalities about nondeterministic values; the assignments give CBMC's constant
   propagation / points-to analysis the same facts (the assertion shows they are no-ops) */
#define VF_ANCHOR __CPROVER_assert(self->_a == (T*)(g_block + sizeof(Data)) && HDR(self)->s == CAP, "anchor"); self->_a = (T*)(g_block + sizeof(Data)); HDR(self)->s = CAP;
'''
ANCHOR = (r'\A\{', '{ VF_ANCHOR VF_FIX ', 1)

def cv(pairs, extra=()):
    return {('CAP%d_%s' % (c, x)): ['-DCAP=%d' % c] + list(d) + list(extra) for (c, x, d) in pairs}

# reserve(m)
reserve = Unit(
    'Array_reserve', 'C01',
    cuts=[Cut('reserve', A, r'^Array<T>& Array<T>::reserve\(int m\)\s*$', **AM, rules=[D_RULE, RET_THIS], post=[ANCHOR])],
    text=PRE + r'''
#define VF_FIX __CPROVER_assert(m == FIX_M, "anchor m"); m = FIX_M;
void Array_reserve(Array* self, int m)
WF_REQ
__CPROVER_requires(m == FIX_M && 0 <= g_k && g_k < BLK->n)
#if SHARED
/* another live handle (rc > 1) still points at this block: it must stay allocated for that handle to report anything */
__CPROVER_requires(BLK->rc >= 2)
__CPROVER_ensures(!__CPROVER_was_freed(g_block))
#else
__CPROVER_ensures(HDR(self)->n == __CPROVER_old(BLK->n) && HDR(self)->rc == __CPROVER_old(BLK->rc))
__CPROVER_ensures(HDR(self)->s >= CAP && HDR(self)->s >= m)
__CPROVER_ensures(self->_a[g_k] == __CPROVER_old(ELEMS[g_k]))
__CPROVER_ensures(g_ctor == __CPROVER_old(g_ctor) && g_dtor == __CPROVER_old(g_dtor))
#endif
__CPROVER_assigns(*self, __CPROVER_object_whole(g_block))
__CPROVER_frees(g_block)
@@reserve@@
void vf_harness(void) { Array* a; int m; Array_reserve(a, m); VF_CANARY(); }
''',
    entry='Array_reserve',
    variants=dict(cv([(3, 'm2', ['-DFIX_M=2']), (3, 'm4', ['-DFIX_M=4']), (3, 'm7', ['-DFIX_M=7']), (4, 'm9', ['-DFIX_M=9']), (6, 'm12', ['-DFIX_M=12'])], ['-DSHARED=0']),
                  **cv([(3, 'm7_SHARED', ['-DFIX_M=7'])], ['-DSHARED=1'])),
    kind='bounded', bound='capacity and requested size fixed per variant; n, rc, contents symbolic', unwind=10,   # no loop on the pinned tree; one over the <= 6 elements is unwound completely
    desc='reserve(m): length, reference count and elements kept, capacity >= max(old, m), no element constructed or destroyed',
    functions=['Array::reserve'],
)
UNITS = [reserve]

# helpers inlined into callers: reserve's real body
HELP_CUTS = lambda: [Cut('reserve_b', A, r'^Array<T>& Array<T>::reserve\(int m\)\s*$', **AM, rules=[D_RULE, RET_THIS])]
HELP_C = r'''
static void Array_reserve(Array* self, int m) @@reserve_b@@
'''
FRAME = r'''
__CPROVER_assigns(*self, __CPROVER_object_whole(g_block), g_ctor, g_dtor)
__CPROVER_frees(g_block)
'''

# resize(m)
resize = Unit(
    'Array_resize', 'C01',
    cuts=HELP_CUTS() + [Cut('resize', A, r'^\tArray& resize\(int m\)\s*$', **AM, rules=[D_RULE, RET_THIS] + LIFE, post=[ANCHOR])],
    text=PRE + HELP_C + r'''
#define VF_FIX __CPROVER_assert(m == FIX_M, "anchor m"); m = FIX_M;
void Array_resize(Array* self, int m)
WF_REQ
__CPROVER_requires(m == FIX_M && 0 <= g_k && g_k < CAP)
__CPROVER_ensures(HDR(self)->n == m && HDR(self)->rc == __CPROVER_old(BLK->rc) && HDR(self)->s >= m)
__CPROVER_ensures((g_k < m && g_k < __CPROVER_old(BLK->n)) ==> self->_a[g_k] == __CPROVER_old(ELEMS[g_k]))
/* every element constructed once, destroyed once: growing constructs m-n new ones, shrinking destroys n-m */
__CPROVER_ensures(g_ctor - __CPROVER_old(g_ctor) == (m > __CPROVER_old(BLK->n) ? m - __CPROVER_old(BLK->n) : 0))
__CPROVER_ensures(g_dtor - __CPROVER_old(g_dtor) == (m < __CPROVER_old(BLK->n) ? __CPROVER_old(BLK->n) - m : 0))
''' + FRAME + r'''@@resize@@
void vf_harness(void) { Array* a; int m; Array_resize(a, m); VF_CANARY(); }
''',
    entry='Array_resize',
    variants=cv([(3, 'm0', ['-DFIX_M=0']), (3, 'm2', ['-DFIX_M=2']), (3, 'm3', ['-DFIX_M=3']), (3, 'm5', ['-DFIX_M=5']), (4, 'm9', ['-DFIX_M=9'])]),
    kind='bounded', bound='capacity and new length fixed per variant; n, rc, contents symbolic', unwind=70,
    desc='resize(m) / clear(): length m, prefix kept, exactly max(0,m-n) constructions and max(0,n-m) destructions',
    functions=['Array::resize', 'Array::clear', 'Array::reserve'],
)

# insert(k, x)   ALIAS=0: x is a separate object;  ALIAS=1: x is an element of the same array (a.insert(k, a[j]), a << a[0])
insert = Unit(
    'Array_insert', 'C01',
    cuts=[Cut('insert', A, r'^Array<T>& Array<T>::insert\(int k, const T& x\)\s*$', **AM, rules=[D_RULE, RET_THIS] + LIFE,
              # R19: elements are relocated bitwise; after the memmove the vacated slot k is dead storage until it is constructed:
              # its content is made indeterminate, so that constructing the new element FROM that slot is seen (it is only harmless for plain data)
              post=[(r'\A\{', '{ VF_ANCHOR VF_ANCHOR_X ', 1), (r'(memmove\(\(char\*\)self->_a \+ \(k \+ 1\) \* sizeof\(T\), \(void\*\)\(self->_a \+ k\), \(n - k\) \* sizeof\(T\)\);)', r'\1 VF_POISON(self->_a + k);', None)])],
    text=PRE + r'''
int g_j; T nondet_T(void);
#define VF_POISON(p) { *(p) = nondet_T(); }
#if ALIAS == 0
#define VF_ANCHOR_X
#define X_REQ __CPROVER_requires(__CPROVER_is_fresh(x_p, sizeof(T)))
#define X_OLD __CPROVER_old(*x_p)
#else
#define VF_ANCHOR_X __CPROVER_assert(x_p == ELEMS + g_j, "anchor x"); x_p = ELEMS + g_j;
#define X_REQ __CPROVER_requires(0 <= g_j && g_j < BLK->n && x_p == ELEMS + g_j)
#define X_OLD __CPROVER_old(ELEMS[g_j])
#endif
void Array_insert(Array* self, int k, const T* x_p)
WF_REQ
X_REQ
__CPROVER_requires(-1 <= k && k <= BLK->n && 0 <= g_k && g_k <= BLK->n)
__CPROVER_ensures(HDR(self)->n == __CPROVER_old(BLK->n) + 1 && HDR(self)->rc == __CPROVER_old(BLK->rc) && HDR(self)->s >= HDR(self)->n)
/* view' = view[0..k) ++ [entry value of x] ++ view[k..n)   (k == -1 means append) */
#define KK (k == -1 ? __CPROVER_old(BLK->n) : k)
__CPROVER_ensures(self->_a[g_k] == (g_k < KK ? __CPROVER_old(ELEMS[g_k < CAP ? g_k : 0]) : g_k == KK ? X_OLD : __CPROVER_old(ELEMS[g_k > 0 ? g_k - 1 : 0])))
__CPROVER_ensures(g_ctor - __CPROVER_old(g_ctor) == 1 && g_dtor == __CPROVER_old(g_dtor))
''' + FRAME + r'''@@insert@@
void vf_harness(void) { Array* a; int k; const T* x; Array_insert(a, k, x); VF_CANARY(); }
''',
    entry='Array_insert', replay=replay.from_trace('C01/driver.cpp', ['k', 'g_j'], lambda v: ['insert_alias', 3, v['k'], v.get('g_j', 0)]),
    variants={'CAP3': ['-DCAP=3', '-DALIAS=0'], 'CAP4': ['-DCAP=4', '-DALIAS=0'], 'CAP6': ['-DCAP=6', '-DALIAS=0'],
              'CAP3_ALIAS': ['-DCAP=3', '-DALIAS=1'], 'CAP4_ALIAS': ['-DCAP=4', '-DALIAS=1']},
    kind='bounded', bound='capacity fixed per variant (3, 4, 6: crosses the 3->6, 4->8, 6->12 doubling); n, k, rc, contents symbolic', unwind=70,
    desc='insert(k,x) / operator<<: sequence semantics for every k in -1..n, exactly one copy construction; ALIAS variants: x refers to an element of the same array',
    functions=['Array::insert', 'Array::operator<<'],
)

# remove(i, n)
remove = Unit(
    'Array_remove', 'C01',
    cuts=HELP_CUTS() + [Cut('resize_b', A, r'^\tArray& resize\(int m\)\s*$', **AM, rules=[D_RULE, RET_THIS] + LIFE),
                        Cut('remove', A, r'^\tArray& remove\(int i, int n = 1\)\s*$', **AM, rules=[D_RULE, RET_THIS] + LIFE, post=[(r'\A\{', '{ VF_ANCHOR ', 1)])],
    text=PRE + HELP_C + r'''
static void Array_resize(Array* self, int m) @@resize_b@@
void Array_remove(Array* self, int i, int n)
WF_REQ
__CPROVER_requires(0 <= i && 0 <= n && i <= CAP && n <= CAP && 0 <= g_k && g_k < BLK->n)
/* in range: the n elements at i.. are removed, the rest keep their order; out of range: nothing changes */
#define INR (i + n <= __CPROVER_old(BLK->n))
__CPROVER_ensures(HDR(self)->n == (INR ? __CPROVER_old(BLK->n) - n : __CPROVER_old(BLK->n)) && HDR(self)->rc == __CPROVER_old(BLK->rc))
__CPROVER_ensures(g_k < HDR(self)->n ==> self->_a[g_k] == ((INR && g_k >= i) ? __CPROVER_old(ELEMS[g_k + n < CAP ? g_k + n : 0]) : __CPROVER_old(ELEMS[g_k])))
__CPROVER_ensures(g_dtor - __CPROVER_old(g_dtor) == (INR ? n : 0) && g_ctor == __CPROVER_old(g_ctor))
''' + FRAME + r'''@@remove@@
void vf_harness(void) { Array* a; int i, n; Array_remove(a, i, n); VF_CANARY(); }
''',
    entry='Array_remove', replay=replay.from_trace('C01/driver.cpp', ['i', 'n'], lambda v: ['remove', 6, v['i'], v['n']]),
    variants={'CAP3': ['-DCAP=3'], 'CAP4': ['-DCAP=4'], 'CAP6': ['-DCAP=6']},
    kind='bounded', bound='capacity fixed per variant; n, i, count, rc, contents symbolic', unwind=70,
    desc='remove(i,n) / removeLast / Queue get: exactly the n elements at i are removed and destroyed once, order kept; out-of-range is a no-op',
    functions=['Array::remove', 'Array::resize'],
)
UNITS += [resize, insert, remove]

# handles: copy constructor, destructor, operator=  (reference counting; the sequential protocol - interleavings are C12, n/a)
FREE_CUT = lambda: Cut('free', A, r'^void Array<T>::free\(\)\s*$', **AM, rules=[D_RULE] + LIFE)
B_ANCHOR = (r'\A\{', '{ __CPROVER_assert(b_p->_a == ELEMS, "anchor b"); ((Array*)b_p)->_a = ELEMS; ', 1)
HKIND = dict(kind='bounded', bound='capacity 4; n, rc, contents symbolic', unwind=10, variants={'CAP4': ['-DCAP=4']})

h_copy = Unit(
    'Array_copy_ctor', 'C01',
    cuts=[Cut('copy', A, r'^\tArray\(const Array& b\) ', **AM, rules=[D_RULE, (r'\bb\._a\b', 'b_p->_a', None)], post=[B_ANCHOR])],
    text=PRE + r"""
void Array_copy(Array* self, const Array* b_p)
__CPROVER_requires(__CPROVER_is_fresh(self, sizeof(Array)) && __CPROVER_is_fresh(b_p, sizeof(Array)) && __CPROVER_is_fresh(g_block, sizeof(Data) + CAP * sizeof(T)))
__CPROVER_requires(b_p->_a == ELEMS && BLK->s == CAP && 0 <= BLK->n && BLK->n <= CAP && 1 <= BLK->rc && BLK->rc <= 1000000)
/* a second handle to the SAME block: both report the same length and elements from now on */
__CPROVER_ensures(self->_a == ELEMS && b_p->_a == ELEMS && BLK->rc == __CPROVER_old(BLK->rc) + 1 && BLK->n == __CPROVER_old(BLK->n) && BLK->s == CAP)
__CPROVER_assigns(*self, BLK->rc, b_p->_a)
@@copy@@
void vf_harness(void) { Array* a; const Array* b; Array_copy(a, b); VF_CANARY(); }
""",
    entry='Array_copy', desc='copy constructor: same block, reference count + 1, nothing else changes', functions=['Array::Array(const Array&)'], **HKIND)

h_dtor = Unit(
    'Array_dtor', 'C01',
    cuts=[FREE_CUT(), Cut('dtor', A, r'^\t~Array\(\) ', **AM, rules=[D_RULE], post=[(r'\A\{', '{ VF_ANCHOR ', 1)])],
    text=PRE + r"""
static void Array_free(Array* self) @@free@@
void Array_dtor(Array* self)
WF_REQ
/* drops one reference; the storage is released and every element destroyed exactly once iff it was the last handle */
__CPROVER_ensures(__CPROVER_old(BLK->rc) > 1 ==> (BLK->rc == __CPROVER_old(BLK->rc) - 1 && BLK->n == __CPROVER_old(BLK->n) && g_dtor == __CPROVER_old(g_dtor)))
__CPROVER_ensures(__CPROVER_old(BLK->rc) == 1 ==> (g_dtor - __CPROVER_old(g_dtor) == __CPROVER_old(BLK->n)))
__CPROVER_ensures(__CPROVER_was_freed(g_block) == (__CPROVER_old(BLK->rc) == 1))
__CPROVER_assigns(*self, __CPROVER_object_whole(g_block), g_dtor)
__CPROVER_frees(g_block)
@@dtor@@
void vf_harness(void) { Array* a; Array_dtor(a); VF_CANARY(); }
""",
    entry='Array_dtor', desc='destructor: rc - 1; storage freed and n destructions exactly when it was the last handle', functions=['Array::~Array', 'Array::free'], **HKIND)

h_assign = Unit(
    'Array_assign', 'C01',
    cuts=[FREE_CUT(), Cut('assign', A, r'^\tArray& operator=\(const Array& b\)\s*$', **AM,
                          rules=[D_RULE, RET_THIS, (r'\bb\._a\b', 'b_p->_a', None), (r'this\s*==\s*&b', 'self == b_p', None)],
                          post=[(r'\A\{', '{ VF_ANCHOR VF_ANCHOR_B ', 1)])],
    text=PRE + r"""
static void Array_free(Array* self) @@free@@
char* g_block2;
#define BLK2 ((Data*)g_block2)
#if SELF
#define VF_ANCHOR_B
#else
#define VF_ANCHOR_B __CPROVER_assert(b_p->_a == (T*)(g_block2 + sizeof(Data)), "anchor b"); ((Array*)b_p)->_a = (T*)(g_block2 + sizeof(Data));
#endif
void Array_assign(Array* self, const Array* b_p)
WF_REQ
#if SELF
__CPROVER_requires(b_p == self)
/* self-assignment changes nothing */
__CPROVER_ensures(self->_a == ELEMS && BLK->rc == __CPROVER_old(BLK->rc) && BLK->n == __CPROVER_old(BLK->n) && g_dtor == __CPROVER_old(g_dtor) && !__CPROVER_was_freed(g_block))
#else
__CPROVER_requires(__CPROVER_is_fresh(b_p, sizeof(Array)) && __CPROVER_is_fresh(g_block2, sizeof(Data) + CAP * sizeof(T)))
__CPROVER_requires(b_p->_a == (T*)(g_block2 + sizeof(Data)) && BLK2->s == CAP && 0 <= BLK2->n && BLK2->n <= CAP && 1 <= BLK2->rc && BLK2->rc <= 1000000)
/* the target becomes a handle to b's block; its old block loses one reference and is released iff that was the last */
__CPROVER_ensures(self->_a == (T*)(g_block2 + sizeof(Data)) && BLK2->rc == __CPROVER_old(BLK2->rc) + 1 && BLK2->n == __CPROVER_old(BLK2->n))
__CPROVER_ensures(__CPROVER_old(BLK->rc) > 1 ==> (BLK->rc == __CPROVER_old(BLK->rc) - 1 && g_dtor == __CPROVER_old(g_dtor)))
__CPROVER_ensures(__CPROVER_old(BLK->rc) == 1 ==> (g_dtor - __CPROVER_old(g_dtor) == __CPROVER_old(BLK->n)))
__CPROVER_ensures(__CPROVER_was_freed(g_block) == (__CPROVER_old(BLK->rc) == 1))
#endif
__CPROVER_assigns(*self, __CPROVER_object_whole(g_block), g_dtor; !SELF: __CPROVER_object_whole(g_block2), b_p->_a)
__CPROVER_frees(g_block)
@@assign@@
void vf_harness(void) { Array* a; const Array* b; Array_assign(a, b); VF_CANARY(); }
""",
    entry='Array_assign', replay=lambda r, o, work: {'concretisation': 'self-assignment variant' if 'SELF' in r.variant else 'no recipe', 'native': replay.run_native('C01/driver.cpp', ['selfassign'], work)} if 'SELF' in r.variant else {}, desc='operator=(const Array&): drop the old block (released iff last), share the new one; self-assignment is a no-op',
    functions=['Array::operator=(const Array&)', 'Array::free'], kind='bounded', bound='capacity 4; n, rc, contents symbolic', unwind=10,
    variants={'CAP4': ['-DCAP=4', '-DSELF=0'], 'CAP4_SELF': ['-DCAP=4', '-DSELF=1']})
UNITS += [h_copy, h_dtor, h_assign]
LEVEL = 'other'
EXPLANATION = 'Every C01 unit fixes the block capacity per variant (CBMC cannot encode realloc/memmove on a block whose size is symbolic); obligations are discharged for all n, indices, reference counts, contents and aliasing choices at those capacities. Counts are reported under coverage.bounded.'

# append(const Array& b): b a separate array, or b the SAME handle (a.append(a))
append_arr = Unit(
    'Array_append_array', 'C01',
    cuts=HELP_CUTS() + [Cut('resize_b', A, r'^\tArray& resize\(int m\)\s*$', **AM, rules=[D_RULE, RET_THIS] + LIFE),
                        Cut('app', A, r'^\tArray& append\(const Array& b\)\s*$', **AM,
                            rules=[D_RULE, RET_THIS, (r'\bb\.length\(\)', 'Array_length(b_p)', None), (r'\bb\[([^\]]*)\]', r'b_p->_a[\1]', None)],
                            post=[(r'\A\{', '{ VF_ANCHOR VF_ANCHOR_B ', 1)])],
    text=PRE + HELP_C + r'''
static int Array_length(const Array* a) { return HDR(a)->n; }
static void Array_resize(Array* self, int m) @@resize_b@@
char* g_block2;
#define BLK2 ((Data*)g_block2)
#define ELEMS2 ((T*)(g_block2 + sizeof(Data)))
#if SAME
#define VF_ANCHOR_B __CPROVER_assert(BLK->n == FIX_N, "anchor n"); BLK->n = FIX_N;
#define SRC(k) __CPROVER_old(ELEMS[k])
#else
#define VF_ANCHOR_B __CPROVER_assert(BLK->n == FIX_N && b_p->_a == ELEMS2 && BLK2->n == FIX_N, "anchor b"); BLK->n = FIX_N; ((Array*)b_p)->_a = ELEMS2; BLK2->n = FIX_N;
#define SRC(k) ELEMS2[k]
#endif
void Array_append(Array* self, const Array* b_p)
WF_REQ
__CPROVER_requires(BLK->n == FIX_N && 0 <= g_k && g_k < 2 * FIX_N)
#if SAME
__CPROVER_requires(b_p == self)
#else
__CPROVER_requires(__CPROVER_is_fresh(b_p, sizeof(Array)) && __CPROVER_is_fresh(g_block2, sizeof(Data) + CAP * sizeof(T)) && b_p->_a == ELEMS2 && BLK2->n == FIX_N && BLK2->s == CAP && BLK2->rc >= 1)
#endif
/* view' = view ++ view(b) with b's ENTRY view (b may be this very array); nothing written beyond the new length */
__CPROVER_ensures(HDR(self)->n == 2 * FIX_N && HDR(self)->s >= 2 * FIX_N)
__CPROVER_ensures(self->_a[g_k] == (g_k < FIX_N ? __CPROVER_old(ELEMS[g_k < FIX_N ? g_k : 0]) : SRC(g_k >= FIX_N ? g_k - FIX_N : 0)))
__CPROVER_ensures(g_ctor - __CPROVER_old(g_ctor) == FIX_N && g_dtor == __CPROVER_old(g_dtor))
__CPROVER_assigns(*self, __CPROVER_object_whole(g_block), g_ctor, g_dtor; !SAME: b_p->_a, BLK2->n)
__CPROVER_frees(g_block)
@@app@@
void vf_harness(void) { Array* a; const Array* b; Array_append(a, b); VF_CANARY(); }
''',
    entry='Array_append', kind='bounded', bound='capacity and length fixed per variant; contents, reference count symbolic', unwind=20,
    variants={'CAP6_n2': ['-DCAP=6', '-DFIX_N=2', '-DSAME=0'], 'CAP3_n2': ['-DCAP=3', '-DFIX_N=2', '-DSAME=0'],
              'CAP6_n2_SAME': ['-DCAP=6', '-DFIX_N=2', '-DSAME=1'], 'CAP6_n3_SAME': ['-DCAP=6', '-DFIX_N=3', '-DSAME=1'], 'CAP3_n2_SAME': ['-DCAP=3', '-DFIX_N=2', '-DSAME=1'], 'CAP3_n3_SAME': ['-DCAP=3', '-DFIX_N=3', '-DSAME=1']},
    desc='append(const Array& b): the result is view ++ (entry view of b), no growth or with growth, also when b is the array itself; n constructions; nothing written past the new length',
    functions=['Array::append(const Array&)', 'Array::resize', 'Array::reserve'],
)
UNITS += [append_arr]

# ---- dup(): "makes this array independent of others" (clone() = copy the handle, then dup()).  Typestate view: does *this still share its block, was a block of its own
# made with every element copied into it, and was exactly one reference to the old block given up.
dup_unit = Unit(
    'Array_dup', 'C01',
    cuts=[Cut('dup', A, r'^\tArray& dup\(\)\s*$',
              rules=[(r'd\(\)\.rc', 'g_rc', None), (r'd\(\)\.n', 'g_n', None), (r'Array b\(g_n\);', 'NEW_ARRAY(g_n);', 1),
                     (r'for\(int i=0; i<g_n; i\+\+\)\s*b\._a\[i\]=_a\[i\];', 'COPY_ELEMENTS(g_n);', 1), (r'\(\*this\)=b;', 'ASSIGN_NEW();', 1), (r'return \*this;', 'return;', None)])],
    text=r'''
#include "vf_base.h"
int g_rc, g_n, g_new_len, g_copied, g_own, g_old_refs_dropped;
static void NEW_ARRAY(int n) { __CPROVER_assert(n >= 0, "Array(n): n >= 0"); g_new_len = n; }                 /* Array b(n): a fresh block with n elements, one reference (b) */
static void COPY_ELEMENTS(int n) { __CPROVER_assert(n <= g_new_len, "element copies stay inside the new block"); g_copied = n; }   /* b._a[i] = _a[i] for i < n */
static void ASSIGN_NEW(void) { g_own = 1; g_old_refs_dropped++; }         /* (*this) = b: C01 Array_assign - *this gives up its reference to the old block and shares the one of b; b then goes away */
void Array_dup(void)
__CPROVER_requires(g_rc >= 1 && g_rc <= 1000000 && 0 <= g_n && g_n <= 1000000 && g_own == 0 && g_old_refs_dropped == 0 && g_copied == 0 && g_new_len == -1)
/* afterwards *this shares its block with nobody: either it was the only handle already, or it now owns a fresh block holding a copy of every element -
   also when there are no elements (an empty array that is shared must be detached as well: the handles are appended to independently afterwards) */
__CPROVER_ensures(g_rc == 1 ? (g_own == 0 && g_old_refs_dropped == 0) : (g_own == 1 && g_old_refs_dropped == 1 && g_new_len == g_n && g_copied == g_n))
__CPROVER_assigns(g_new_len, g_copied, g_own, g_old_refs_dropped)
@@dup@@
void vf_harness(void) { Array_dup(); VF_CANARY(); }
''',
    entry='Array_dup', kind='proof',
    desc='Array::dup() (and so clone()) for every length and reference count: a shared block is always left - fresh block of the same length, every element copied, one reference to the old block dropped - '
         'an unshared one is kept as it is',
    functions=['Array::dup', 'Array::clone'],
    trusted=['Array(n), element assignment loop and operator= abstracted to events (their contracts are the C01 units Array_resize / Array_assign)'],
)
UNITS += [dup_unit]

# ---- Array::sort() = quicksort(T*, n) (foreach1.h): on every int array of up to 5 elements the result is the sorted permutation of the input and every access is in range
F1 = 'include/asl/foreach1.h'
def ref_local_rule(text):
    """`const T& NAME = EXPR;` (a C++ reference to an element) -> `const T* NAME_p = &(EXPR);` and NAME -> (*NAME_p) afterwards: a reference keeps following the element"""
    import re
    m = re.search(r'const T&\s*(\w+)\s*=\s*([^;]+);', text)
    if not m:
        return text, 0
    n = m.group(1)
    rest = re.sub(r'\b%s\b' % n, '(*%s_p)' % n, text[m.end():])
    return text[:m.start()] + 'const T* %s_p = &(%s);' % (n, m.group(2)) + rest, 1
sort_unit = Unit(
    'Array_sort_partition', 'C01',
    cuts=[Cut('qs', F1, r'^void quicksort\(T\* a, int n\)\s*$', rules=[ref_local_rule, (r'swap\(\*l\+\+, \*r--\);', '{ T vf_t = *l; *l = *r; *r = vf_t; l++; r--; }', 1),
                                                                       (r'quicksort\((\w+), int\(([^;]*?)\)\);', r'REC(\1, (int)(\2));', 2)])],
    text=r"""
#include "vf_base.h"
typedef int T;
#define NQ 6
int nondet_int(void);
T g_a[NQ]; int g_n, g_calls, g_lo_len, g_hi_off, g_hi_len;
/* the recursive calls, by their contract (this same unit, on a strictly shorter range): each sorts its range in place */
static void REC(T* p, int m) { __CPROVER_assert(p >= g_a && m >= 0 && p + m <= g_a + g_n, "the recursive call stays inside the array"); __CPROVER_assert(m < g_n, "on a strictly shorter range (termination)");
  if (g_calls == 0) { __CPROVER_assert(p == g_a, "first the lower part"); g_lo_len = m; } else { g_hi_off = (int)(p - g_a); g_hi_len = m; } g_calls++; }
static void quicksort(T* a, int n) @@qs@@
void vf_harness(void) {
  T b[NQ]; g_n = nondet_int(); __CPROVER_assume(2 <= g_n && g_n <= NQ);
  for (int i = 0; i < NQ; i++) { g_a[i] = nondet_int(); b[i] = g_a[i]; }
  T pivot = b[g_n / 2];
  quicksort(g_a, g_n);
  __CPROVER_assert(g_calls == 2 && g_hi_off + g_hi_len == g_n && g_lo_len <= g_hi_off, "two recursive calls: a lower part from the start and an upper part to the end, not overlapping");
  int k = nondet_int(); __CPROVER_assume(0 <= k && k < g_n);
  __CPROVER_assert(k >= g_lo_len || g_a[k] <= pivot, "lower part: nothing above the pivot VALUE (the value the middle element had on entry)");
  __CPROVER_assert(k < g_hi_off || g_a[k] >= pivot, "upper part: nothing below the pivot value");
  __CPROVER_assert(k < g_lo_len || k >= g_hi_off || g_a[k] == pivot, "between them: the pivot value");
  T v = nondet_int(); int before = 0, after = 0; for (int i = 0; i < NQ; i++) if (i < g_n) { before += (b[i] == v); after += (g_a[i] == v); }
  __CPROVER_assert(before == after, "the pass permutes the elements");
  VF_CANARY();
}
""",
    entry=None, unwind=9, floor=5, expect=['assertion'], kind='bounded', bound='int arrays of 2..6 elements (all orders, all values, duplicates); one partition pass, the two recursive calls by contract', timeout=600,
    desc='quicksort(T*, n) behind Array::sort(), one pass: partitions around the VALUE of the middle element, permutes, every pointer in range, recursive calls on strictly shorter disjoint ranges '
         '(sortedness of the whole follows by induction on the length)',
    functions=['quicksort(T*, int) (Array::sort)'],
)

# ---- slice(i1, i2): "returns a section of the array" as an INDEPENDENT array - also when the section is the whole array
slice_unit = Unit(
    'Array_slice', 'C01',
    cuts=[Cut('sl', A, r'^\tArray slice\(int i1, int i2=0\) const\s*$',
              rules=[(r'(?<![\w.>])length\(\)', 'g_n', None), (r'Array b\(i2-i1\);', 'NEW_ARRAY(i2 - i1);', None), (r'for \(int i=i1; i<i2; i\+\+\)\s*b\[i-i1\] = _a\[i\];', 'COPY_RANGE(i1, i2);', None),
                     (r'return b;', '{ g_ret_new = 1; return; }', None), (r'return \*this;', '{ g_ret_shared = 1; return; }', None)])],
    text=r'''
#include "vf_base.h"
int g_n, g_new_len, g_from, g_to, g_ret_new, g_ret_shared;
static void NEW_ARRAY(int n) { __CPROVER_assert(n >= 0, "Array(n): n >= 0"); g_new_len = n; }
static void COPY_RANGE(int i1, int i2) { __CPROVER_assert(0 <= i1 && i2 <= g_n && i2 - i1 <= g_new_len, "elements i1..i2 exist and fit the new array"); g_from = i1; g_to = i2; }
void Array_slice(int i1, int i2)
__CPROVER_requires(0 <= g_n && g_n <= 1000000 && 0 <= i1 && i1 <= g_n && (i2 == 0 || (i1 <= i2 && i2 <= g_n)) && g_new_len == -1 && g_ret_new == 0 && g_ret_shared == 0)
/* always a new array holding copies of elements [i1, i2) (i2 == 0 means up to the end); never a second handle on the source storage */
__CPROVER_ensures(g_ret_new == 1 && g_ret_shared == 0 && g_from == i1 && g_to == (i2 == 0 ? g_n : i2) && g_new_len == g_to - g_from)
__CPROVER_assigns(g_new_len, g_from, g_to, g_ret_new, g_ret_shared)
@@sl@@
void vf_harness(void) { int a, b; Array_slice(a, b); VF_CANARY(); }
''',
    entry='Array_slice', kind='proof',
    desc='Array::slice(i1, i2) for every length and range: a new array of i2-i1 elements copied from [i1, i2); never the source storage itself',
    functions=['Array::slice'], trusted=['Array(n) and the element copy loop abstracted to events (C01 units)'],
)
UNITS += [sort_unit, slice_unit]

# replay: where the trace recipe of a unit does not reproduce (or there is none) the driver's battery runs on the real library: Array<String> (heap payloads) and a counting
# element type, every n <= 9: insert(k, x / a[src]), a << a[src], append(a), remove(i, c), resize, copy / assign / self-assign / clone, against std::vector
_bat = replay.battery('C01/driver.cpp', ['battery'])
for _u in UNITS:
    _u.replay = replay.first_of(_u.replay, _bat) if _u.replay else _bat

# planted one-token breaks for the newer units (thorough tier: each must make an obligation fail)
dup_unit.planted = [('dup', r'if\(g_rc==1\) return;', 'if(g_rc==1 || g_n==0) return;')]
