"""C05 - JSON/XDL encoding round trip: per-value lemmas between the encoder's emit code and the decoder's step (src/Xdl.cpp)"""
from vf.core import Unit, Cut
from vf import replay
from units.C06 import parser_cuts, PARSER_C, X

ENC_SWITCH = lambda: Cut('encsw', X, r'^void XdlEncoder::new_string\(const char\* x\)\s*\{(?:.|\n)*?\{\s*(switch \(c\)\s*\{(?:.|\n)*?\n\t\t\})', kind='expr',
                         rules=[(r'snprintf\(buf, sizeof\(buf\), "\\\\u%04x", c\);', 'vf_fmt_u4(buf, c);', None), (r'_out << ("(?:[^"\\]|\\.)*");', r'OUT_STR(\1);', None), (r'_out << c;', 'OUT_CH(c);', None), (r'_out << buf;', 'OUT_STR(buf);', None)])

string_byte = Unit(
    'string_byte_roundtrip', 'C05',
    cuts=parser_cuts() + [ENC_SWITCH()],
    text=PARSER_C + r'''
#include <stdio.h>
char g_out[16]; int g_outlen;
static void OUT_CH(char c) { __CPROVER_assert(g_outlen < 15, "emit"); g_out[g_outlen++] = c; }
static void OUT_STR(const char* s) { for (int i = 0; i < 8 && s[i]; i++) OUT_CH(s[i]); }
int nondet_int(void); char nondet_char(void);
/* snprintf(buf, 8, "\\u%04x", c) for a control character c (libc, trusted): backslash, 'u', four lower-case hex digits */
static void vf_fmt_u4(char* buf, char c) { const char* h = "0123456789abcdef"; unsigned v = (unsigned)(int)c & 0xffff; buf[0] = '\\'; buf[1] = 'u'; buf[2] = h[(v >> 12) & 15]; buf[3] = h[(v >> 8) & 15]; buf[4] = h[(v >> 4) & 15]; buf[5] = h[v & 15]; buf[6] = 0; }
/* RFC 8259 section 7: inside a JSON string every character is unescaped (>= 0x20, not " or \), or one of the two-character escapes, or \uXXXX */
#define HEXD(x) (((x) >= '0' && (x) <= '9') || ((x) >= 'a' && (x) <= 'f') || ((x) >= 'A' && (x) <= 'F'))
#define JSON_CHAR_OK ( (g_outlen == 1 && (unsigned char)g_out[0] >= 0x20 && g_out[0] != '"' && g_out[0] != '\\') \
   || (g_outlen == 2 && g_out[0] == '\\' && (g_out[1] == '"' || g_out[1] == '\\' || g_out[1] == '/' || g_out[1] == 'b' || g_out[1] == 'f' || g_out[1] == 'n' || g_out[1] == 'r' || g_out[1] == 't')) \
   || (g_outlen == 6 && g_out[0] == '\\' && g_out[1] == 'u' && HEXD(g_out[2]) && HEXD(g_out[3]) && HEXD(g_out[4]) && HEXD(g_out[5])) )
void vf_harness(void) {
  char c = nondet_char(); __CPROVER_assume(c != 0);
  int quotedkey = nondet_int(); __CPROVER_assume(quotedkey == 0 || quotedkey == 1);
  /* --- what XdlEncoder::new_string emits for the byte c --- */
  g_outlen = 0;
  { @@encsw@@ }
  __CPROVER_assert(JSON_CHAR_OK, "the text emitted for a string byte is a legal JSON string character / escape (strict parsers accept it)");
  /* --- fed to the decoder, inside a string value or inside a quoted object key --- */
  XdlParser p; p._state = p._prevState = quotedkey ? QPROPERTY : STRING; p._inComment = false; p._unicodeCount = 0; p._ldp = '.';
  g_cd = 2; g_c0 = OBJECT; g_c1 = ROOT; g_c2 = ROOT; g_buflen = 0; g_buf[0] = 0; g_pushback = 0; g_string_done = 0; g_key_done = 0;
  __CPROVER_assume(INV(&p));
  for (int i = 0; i < g_outlen; i++) {
    XdlParser_step(&p, g_out[i]);
    __CPROVER_assert(p._state != ERR, "the decoder does not reject what the encoder wrote");
    __CPROVER_assert(!p._inComment, "the decoder does not take it for a comment");
  }
  __CPROVER_assert(p._state == (quotedkey ? QPROPERTY : STRING) && g_pushback == 0 && !g_string_done && !g_key_done, "still inside the same string / key");
  __CPROVER_assert(g_buflen == 1 && g_buf[0] == c, "exactly the original byte was appended to the token");
  VF_CANARY();
}
''',
    entry=None, unwind=18, floor=5, expect=['assertion'],
    desc='for EVERY byte 1..255, in a string value and in a quoted object key: the characters XdlEncoder::new_string writes for it are legal strict-JSON string text, '
         'and the decoder steps turn them back into exactly that byte without leaving the string, rejecting, or opening a comment',
    functions=['XdlEncoder::new_string (per character)', 'XdlParser::parse (STRING/QPROPERTY/ESCAPE/UNICODECHAR states)'],
)
UNITS = [string_byte]

# numbers: the encoder reserves enough room for what printf / myitoa write
def num_unit(name, loc, maxlen, what):
    return Unit(
        name, 'C05',
        cuts=[Cut('nn', X, loc,
                  rules=[(r'#if defined\(_MSC_VER\)[^\n]*\n[^\n]*\n#else\n([^\n]*\n)#endif', r'\1', None), (r'#ifndef ASL_NO_FIX_DOT', '', None), (r'#endif', '', None),
                         (r'char\* p = &_out\[n\];\s*while \(\*p\)\s*\{(?:.|\n)*?p\+\+;\s*\}', 'OUT_SCAN(OUT_PTR(n));', None), (r'while \(\*(\w+)\)\s*\{(?:.|\n)*?\1\+\+;\s*\}', r'OUT_SCAN(\1);', None),
                         (r'_out\.length\(\)', 'g_len', None), (r'_out\.resize\(([^;]*)\);', r'OUT_RESIZE(\1);', None),
                         # pointers into the output string are handles (buffer generation, index): a resize that grows the string may move it
                         (r'char\* (\w+) = &_out\[(\w+)\];', r'int \1 = OUT_PTR(\2);', None), (r'&_out\[(\w+)\]', r'OUT_PTR(\1)', None),
                         (r'_out\.fix\(n \+ snprintf\(([^,]+), (\d+), _fmt[DF], x\)\);', r'OUT_FIX(n + vf_snprintf(\1, \2));', None),
                         (r'_out\.fix\(n \+ myitoa\(x, ([^;]+)\)\);', r'OUT_FIX(n + vf_snprintf(\1, 12));', None),
                         (r'_out << [^;]*;', 'g_special = 1;', None), (r'!isfinite\(x\)', 'nondet_int()', None), (r'x != x', 'nondet_int()', None), (r'x < 0', 'nondet_int()', None),
                         ])],
        text=r'''
#include "vf_base.h"
int nondet_int(void);
/* String _out: length g_len, capacity g_cap (String::resize(m): capacity > m, C03); the text at [n, ...) is tracked by its length */
int g_len, g_cap, g_written, g_special, g_fixed, g_gen;
#define OUT_RESIZE(m) { __CPROVER_assert((m) >= 0, "resize"); if (g_cap <= (m)) { g_cap = (m) + 1; g_gen++; /* String::resize beyond the capacity allocates a new block (C03) */ } }
#define VF_PBASE 4000000
#define OUT_PTR(i) (g_gen * VF_PBASE + (i))
#define OUT_LIVE(h) __CPROVER_assert((h) / VF_PBASE == g_gen, "a pointer into the output string is not used after a resize that may have moved the string")
/* snprintf(buf, size, "%.17g"/"%.9g", finite x) resp. myitoa: needs L characters, 1 <= L <= MAXLEN; writes min(L, size-1) characters and a NUL; returns L (ISO C) */
static int vf_snprintf(int h, int size) { OUT_LIVE(h); int at = h % VF_PBASE; int L = nondet_int(); __CPROVER_assume(1 <= L && L <= MAXLEN);
  __CPROVER_assert(at + size <= g_cap, "the buffer handed to snprintf/myitoa lies inside the string's capacity");
  g_written = (L < size - 1 || size == 12) ? L : size - 1; return L; }
#define OUT_FIX(m) { __CPROVER_assert((m) - n == g_written, "fix(): the new length is the number of characters actually written (no truncation, NUL at the end)"); __CPROVER_assert((m) < g_cap, "length below capacity"); g_len = (m); g_fixed = 1; }
#define OUT_SCAN(h) { OUT_LIVE(h); }
void XdlEncoder_new_number(void)
__CPROVER_requires(0 <= g_len && g_len < 1000000 && g_cap > g_len && g_cap < 2000000 && g_fixed == 0 && g_special == 0 && 0 <= g_gen && g_gen < 100)
__CPROVER_ensures(g_fixed || g_special)
__CPROVER_assigns(g_len, g_cap, g_written, g_special, g_fixed, g_gen)
@@nn@@
void vf_harness(void) { XdlEncoder_new_number(); VF_CANARY(); }
''',
        entry='XdlEncoder_new_number', variants={'': ['-DMAXLEN=%d' % maxlen]},
        desc=what + ': the room reserved in the output string is enough for every text printf/myitoa can produce (longest: %d characters), and the recorded length equals what was written' % maxlen,
        functions=[what], trusted=['ISO C snprintf return value / truncation rule; longest "%.17g" text of a finite double is 24 characters, "%.9g" of a float 16, myitoa 11 (C03)'],
    )
num_double = num_unit('XdlEncoder_number_double', r'^void XdlEncoder::new_number\(double x\)\s*$', 24, 'XdlEncoder::new_number(double)')
num_float = num_unit('XdlEncoder_number_float', r'^void XdlEncoder::new_number\(float x\)\s*$', 16, 'XdlEncoder::new_number(float)')
num_int = num_unit('XdlEncoder_number_int', r'^void XdlEncoder::new_number\(int x\)\s*$', 11, 'XdlEncoder::new_number(int)')

from units.C06 import json_escapes
UNITS += [num_double, num_float, num_int, json_escapes]

# Xdl::read / Json::read: the byte-order-mark probe at the start of the file
bom_probe = Unit(
    'Xdl_read_bom_probe', 'C05',
    cuts=[Cut('bp', X, r'(byte bom\[3\];\s*if\s*\([^\n]*\n\s*tfile\.seek\(0\);)', kind='expr',
              rules=[(r'tfile\.read\(bom, 3\)', 'F_READ(bom, 3)', None), (r'tfile\.seek\(0\);', 'g_pos = 0;', None)])],
    text=r'''
#include "vf_base.h"
int nondet_int(void);
byte g_file[3]; int g_size, g_pos;
/* TextFile::read(p, n) = fread: delivers min(n, bytes left) bytes and advances the position */
static int F_READ(byte* p, int n) { int r = g_size - g_pos < n ? g_size - g_pos : n; for (int i = 0; i < r; i++) p[i] = g_file[g_pos + i]; g_pos += r; return r; }
void bom_probe(void)
__CPROVER_requires(1 <= g_size && g_size <= 100000 && g_pos == 0)
/* only a complete UTF-8 byte-order mark is skipped: for every other file (also files of 1 or 2 bytes) parsing starts at offset 0 */
__CPROVER_ensures(g_pos == ((g_size >= 3 && g_file[0] == 0xef && g_file[1] == 0xbb && g_file[2] == 0xbf) ? 3 : 0))
__CPROVER_assigns(g_pos)
{
  @@bp@@
}
void vf_harness(void) { bom_probe(); VF_CANARY(); }
''',
    entry='bom_probe', unwind=5,
    desc='Xdl::read / Json::read: for a file of ANY size >= 1 and any first bytes, exactly a complete UTF-8 BOM is skipped, otherwise reading starts at offset 0 (1- and 2-byte files included)',
    functions=['Xdl::read (BOM probe)'], trusted=['TextFile::read = fread, seek(0)'],
)
UNITS += [bom_probe]

# ---- number formats of the encoder: in exact mode (neither SIMPLE nor SHORTF) a float is printed with >= 9 and a double with >= 17 significant digits - the smallest precisions
# for which decimal text identifies every binary32 / binary64 value (IEEE 754-2008 5.12.2); fewer digits make some values come back changed
fmt_precision = Unit(
    'XdlEncoder_number_formats', 'C05',
    cuts=[Cut('fm', X, r'(_fmtF = [^;]*;\s*_fmtD = [^;]*;\s*if \(mode & Json::SHORTF\)\s*_fmtD = _fmtF;)', kind='expr',
              rules=[(r'\b_simple\b', 'vf_simple', None), (r'Json::SHORTF', 'VF_SHORTF', None)])],
    text=r'''
#include "vf_base.h"
bool nondet_bool(void);
#define VF_SHORTF 64
static int precision(const char* f) { __CPROVER_assert(f[0] == '%' && f[1] == '.', "format is %.<precision>g"); int p = 0, i = 2; while (f[i] >= '0' && f[i] <= '9' && i < 6) { p = 10 * p + (f[i] - '0'); i++; } __CPROVER_assert(f[i] == 'g' && f[i + 1] == 0, "format is %.<precision>g"); return p; }
void vf_harness(void) {
  bool vf_simple = nondet_bool(), shortf = nondet_bool(); int mode = shortf ? VF_SHORTF : 0;
  const char *_fmtF, *_fmtD;
  @@fm@@
  if (!vf_simple) __CPROVER_assert(precision(_fmtF) >= 9, "exact mode: floats are written with at least 9 significant digits (needed to recover every float exactly)");
  if (!vf_simple && !shortf) __CPROVER_assert(precision(_fmtD) >= 17, "exact mode: doubles are written with at least 17 significant digits (needed to recover every double exactly)");
  __CPROVER_assert(precision(_fmtF) <= 9 && precision(_fmtD) <= 17, "and with no more than that (the buffers of new_number are sized for it)");
  VF_CANARY();
}
''',
    entry=None, unwind=8, floor=3, expect=['assertion'],
    desc='XdlEncoder::encode: the printf formats chosen for floats and doubles carry 9 / 17 significant digits in exact mode (the minimum for an exact round trip of every value) and never more (buffer sizes)',
    functions=['XdlEncoder::encode (number formats)'],
    trusted=['IEEE 754: 9 / 17 significant decimal digits identify every binary32 / binary64 value; printf/atof correctly rounded (libc)'],
)
UNITS += [fmt_precision]

# the decoder half of the round trip: the parser step with its invariant (escape / \\uXXXX handling, token buffer) is C06's unit, re-run here
from units.C06 import step_safety as _ss5
UNITS += [_ss5]

# replay: per-value lemmas and buffer units have no direct native input; the driver's battery (every byte in values/keys, key lengths 0..40, numeric boundaries,
# prefixes, 2-chunk cuts, tiny files) runs on the real encoder/decoder instead
for _u in UNITS:
    if not _u.replay:
        _u.replay = replay.battery('C05/driver.cpp', ['battery'])

# planted one-token breaks for the newer units (thorough tier: each must make an obligation fail)
fmt_precision.planted = [('fm', r'"%\.9g"', '"%.8g"')]
