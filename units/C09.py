"""C09 - HTTP request parsing (src/Http.cpp, src/HttpServer.cpp)"""
from vf.core import Unit, Cut
from vf import replay

HC, HS = 'src/Http.cpp', 'src/HttpServer.cpp'
PRE = r'''
#include "vf_base.h"
int g_k; int nondet_int(void); bool nondet_bool(void); char nondet_char(void);
/* String::substring(i, j): precondition 0 <= i <= j <= length (C03 unit String_substring); substring(i) = substring(i, length) */
#define SUBSTRING_PRE(len, i, j) __CPROVER_assert(0 <= (i) && (i) <= (j) && (j) <= (len), "String::substring(i, j) needs 0 <= i <= j <= length()")
'''

# ---- tail of HttpRequest::read(): fragment / query / path split of the request target (any text)
target_split = Unit(
    'HttpRequest_target_split', 'C09',
    cuts=[Cut('ts', HC, r'(int pathend = _res\.length\(\);(?:.|\n)*?)\n\t_path = Url::decode\(_res\.substring\(0, pathend\)\);', kind='expr',
              rules=[(r'_res\.length\(\)', 'g_len', None), (r"_res\.indexOf\('#'\)", 'g_hash', 1), (r"_res\.indexOf\('\?'\)", 'g_quest', 1),
                     (r'_fragment = _res\.substring\(([^;]*)\);', r'{ SUBSTRING_PRE(g_len, \1, g_len); }', 1),
                     (r'_querystring = _res\.substring\(([^,;]*), ([^;]*)\);', r'{ SUBSTRING_PRE(g_len, \1, \2); }', 1)])],
    text=PRE + r'''
int g_len, g_hash, g_quest, g_pathend;
void target_split(void)
/* _res is ANY text of length g_len; indexOf(c) is the position of the first c or -1: two different characters cannot be first at the same place */
__CPROVER_requires(0 <= g_len && g_len <= 1000000 && -1 <= g_hash && g_hash < g_len && -1 <= g_quest && g_quest < g_len && (g_hash == -1 || g_hash != g_quest))
__CPROVER_ensures(0 <= g_pathend && g_pathend <= g_len)                  /* then _res.substring(0, pathend) is in range */
__CPROVER_assigns(g_pathend)
{
  @@ts@@
  g_pathend = pathend;
}
void vf_harness(void) { target_split(); VF_CANARY(); }
''',
    entry='target_split',
    desc='HttpRequest::read(): for ANY request target, every substring() call of the fragment/query/path split has arguments in range (a "#" before a "?" included)',
    functions=['HttpRequest::read (target split)'],
    trusted=['String::indexOf(char) returns the first position or -1 (strchr)'],
)

# ---- the '..' filter: which string is tested, which is cleaned, which is used
dotdot = Unit(
    'HttpRequest_path_dotdot', 'C09',
    cuts=[Cut('dd', HC, r'\n(\t_path = Url::decode\(_res\.substring\(0, pathend\)\);(?:.|\n)*?)\n\t_path\.split\(', kind='expr',
              rules=[(r'_path = Url::decode\(_res\.substring\(0, pathend\)\);', 'S_PATH = vf_decode();', 1),
                     (r'_path = _path\.replace\("\.\.", ""\);', 'S_PATH = vf_replace_dotdot(S_PATH);', None),
                     (r'_path\.contains\("\.\."\)', 'vf_contains_dotdot(S_PATH)', None), (r'_res\.contains\("\.\."\)', 'vf_contains_dotdot(S_RES)', None),
                     (r'_path\.fix\(\);', 'S_PATH = vf_fix(S_PATH);', None), (r'_path = _path\.data\(\);', 'S_PATH = vf_fix(S_PATH);', None)])],
    text=PRE + r'''
/* abstract view of a String for this question: does ".." occur before its first NUL byte / after it (a String may hold NUL bytes: "%00") */
typedef struct SV { bool dd_before_nul, dd_after_nul, has_nul; } SV;
SV S_PATH, S_RES;
/* Url::decode of the target: any text - percent-decoding can produce dots ("%2e") and NUL bytes ("%00") that the raw target does not show */
static SV vf_decode(void) { SV r; r.dd_before_nul = nondet_bool(); r.has_nul = nondet_bool(); r.dd_after_nul = r.has_nul ? nondet_bool() : false; return r; }
/* String::contains / replace work on the C string (strstr): they see the text up to the first NUL only.
   replace("..", "") removes the non-overlapping occurrences left to right; in a run of dots that leaves at most one dot, so no ".." remains there */
static bool vf_contains_dotdot(SV s) { return s.dd_before_nul; }
static SV vf_replace_dotdot(SV s) { SV r = s; r.dd_before_nul = false; if (s.has_nul) { r.has_nul = false; r.dd_after_nul = false; } return r; }   /* the result is rebuilt from the C string: cut at the NUL */
static SV vf_fix(SV s) { SV r = s; r.has_nul = false; r.dd_after_nul = false; return r; }                                                             /* fix(): length = strlen */
void path_filter(void)
__CPROVER_requires(!S_RES.has_nul && !S_RES.dd_after_nul)      /* the raw target came from readLine(): a C string */
/* whatever percent-encoding or repetition the target uses, the decoded path handed to the application never contains ".." */
__CPROVER_ensures(!S_PATH.dd_before_nul && !S_PATH.dd_after_nul)
__CPROVER_assigns(S_PATH)
{
  @@dd@@
}
void vf_harness(void) { path_filter(); VF_CANARY(); }
''',
    entry='path_filter',
    desc='the ".." filter of HttpRequest::read at the level of which string is tested / cleaned / kept: the decoded path (not the raw target) is tested and cleaned, also when percent-decoding produced NUL bytes',
    functions=['HttpRequest::read (path filter)'],
    trusted=['contracts of String::contains / String::replace("..","") / Url::decode stated in the unit (strstr semantics; left-to-right non-overlapping replacement leaves no ".." in a run of dots): assumed, not proved'],
)

# ---- Url::decode: any text
url_decode = Unit(
    'Url_decode', 'C09',
    cuts=[Cut('ud', HC, r'^String Url::decode\(const String& q0\)\s*$',
              rules=[(r'\bString q;', 'g_outlen = 0;', 1), (r'q0\.length\(\)', 'g_len', None), (r'(?<![\w.>])q0\[', 'vf_q0[', None),
                     (r'q << \(char\)strtoul\(b, NULL, 16\);', '{ vf_hex2(b); g_outlen++; }', 1), (r'q << c;', 'g_outlen++;', 1),
                     (r'#ifdef ASL_ANSI\s*return utf8ToLocal\(q\);\s*#else\s*return q;\s*#endif', 'return;', 1)],
              loops=[(r'for\s*\(', 0, '''
  __CPROVER_assigns(i, g_outlen, __CPROVER_object_whole(b))
  __CPROVER_loop_invariant(0 <= i && i <= g_len + 2 && 0 <= g_outlen && g_outlen <= (i < g_len ? i : g_len) && b[2] == 0)
  __CPROVER_decreases(g_len + 2 - i)
''')])],
    text=PRE + r'''
int g_len, g_outlen;
static void vf_hex2(const char* b) { __CPROVER_assert(b[2] == 0, "strtoul reads a NUL-terminated 2-character buffer"); }
void Url_decode(const char* vf_q0)
__CPROVER_requires(0 <= g_len && g_len <= NMAX && __CPROVER_is_fresh(vf_q0, g_len + 1) && vf_q0[g_len] == 0)
/* percent-decoding of ANY text: every q0[i+1], q0[i+2] read lies inside the text (a "%" in the last two positions), terminates, output not longer than the input */
__CPROVER_ensures(0 <= g_outlen && g_outlen <= g_len)
__CPROVER_assigns(g_outlen)
@@ud@@
void vf_harness(void) { const char* s; Url_decode(s); VF_CANARY(); }
''',
    entry='Url_decode', variants={'': ['-DNMAX=100000']},
    desc='Url::decode on ANY text: reads stay inside the text, terminates, result no longer than the input',
    functions=['Url::decode'],
    trusted=['String operator<< (append one character: C03 unit String_append_char) counted, not executed; strtoul on a 2-character buffer'],
)
UNITS = [target_split, dotdot, url_decode]

# ---- Url::Url(const String&): any text
url_ctor = Unit(
    'Url_ctor', 'C09',
    cuts=[Cut('uc', HC, r'^Url::Url\(const String& url\)\s*$',
              rules=[(r'url\.indexOf\("://"\)', 'IDX3()', 1), (r"url\.indexOf\('/', hoststart\)", 'IDX_FROM(hoststart)', 1), (r"url\.indexOf\('\]', hoststart\)", 'IDX_FROM(hoststart)', 1),
                     (r"url\.indexOf\(':', hoststart\)", 'IDX_FROM(hoststart)', 1), (r'url\.length\(\)', 'g_len', None),
                     (r"url\[hoststart\] == '\['", '(AT(hoststart), CHAR_IS(hoststart))', 1), (r"url\[hostend \+ 1\] == ':'", '(AT(hostend + 1), CHAR_IS(hostend + 1))', 1),
                     (r'protocol = url\.substring\(0, i\);', 'SUBSTRING_PRE(g_len, 0, i);', 1), (r'host = url\.substring\(([^,;]*), ([^;]*)\);', r'SUBSTRING_PRE(g_len, \1, \2);', None),
                     (r'path = url\.substring\(pathstart\);', 'SUBSTRING_PRE(g_len, pathstart, g_len);', 1), (r'if \(path == ""\)\s*path = \'/\';', '', 1),
                     (r'\*this = Url\(\);', ';', None),
                     (r'\(int\)url\.substring\(portstart, pathstart\)', '(SUBSTRING_PRE(g_len, portstart, pathstart), nondet_int())', 1), (r'\bport = ', 'g_port = ', None)])],
    text=PRE + r'''
int g_len, g_port;
/* indexOf(x, from): the position of an occurrence at or after `from`, or -1;  "://" needs 3 characters */
static int IDX_FROM(int from) { __CPROVER_assert(0 <= from && from <= g_len, "indexOf start within the text"); int r = nondet_int(); __CPROVER_assume(r == -1 || (from <= r && r < g_len)); return r; }
static int IDX3(void) { int r = nondet_int(); __CPROVER_assume(r == -1 || (0 <= r && r <= g_len - 3)); return r; }
/* url[i] == c for a non-NUL c: can only be true for i < length */
static bool CHAR_IS(int i) { bool b = nondet_bool(); __CPROVER_assume(!b || i < g_len); return b; }
#define AT(i) __CPROVER_assert(0 <= (i) && (i) <= g_len, "String::operator[] index within length")
void Url_ctor(void)
__CPROVER_requires(0 <= g_len && g_len <= 1000000)
__CPROVER_ensures(true)
__CPROVER_assigns(g_port)
@@uc@@
void vf_harness(void) { Url_ctor(); VF_CANARY(); }
''',
    entry='Url_ctor',
    desc='Url::Url(const String&) on ANY text (brackets without port, missing "]", ":" after the path, ...): every substring()/operator[] argument is in range',
    functions=['Url::Url(const String&)'],
    trusted=['indexOf results over-approximated: any occurrence position at or after the start index, or -1'],
)
UNITS += [url_ctor]

# ---- Range header of a file response (HttpServer.cpp): parts[k] needs k < parts.length()
range_parts = Unit(
    'HttpServer_range_parts', 'C09',
    cuts=[Cut('rg', HS, r'(Array<String> parts = range\.substr\(6\)\.split\(\'-\'\);(?:.|\n)*?response\.putFile\(file\.path\(\), begin, end\);)', kind='expr',
              rules=[(r"Array<String> parts = range\.substr\(6\)\.split\('-'\);", 'int parts_len = vf_split_count();', 1), (r'parts\.length\(\)', 'parts_len', None),
                     (r'\(int\)parts\[(\d)\]', r'PART_INT(\1)', None), (r'parts\[(\d)\]', r'PART_INT(\1)', None),
                     (r'response\.setCode\(206\);', '', None), (r'response\.setHeader\("Content-Range", "\+"\);', '', None), (r'response\.putFile\(file\.path\(\), begin, end\);', 'g_done = 1;', 1)])],
    text=PRE + r'''
int g_done;
/* String::split(sep) of ANY text yields at least one part (one more than the number of separators) */
static int vf_split_count(void) { int n = nondet_int(); __CPROVER_assume(1 <= n && n <= 1000); return n; }
#define PART_INT(k) (__CPROVER_assert((k) < parts_len, "Array::operator[] index below length (Range header without '-')"), nondet_int())
void range_parts(void)
__CPROVER_requires(g_done == 0)
__CPROVER_ensures(g_done == 1)
__CPROVER_assigns(g_done)
{
  @@rg@@
}
void vf_harness(void) { range_parts(); VF_CANARY(); }
''',
    entry='range_parts',
    desc='HttpServer::serve Range handling: for ANY value after "bytes=" the parts array is only indexed below its length ("Range: bytes=5")',
    functions=['HttpServer::serve (Range header)'],
    trusted=['String::split yields >= 1 parts'],
)

# ---- HttpMessage::readBody: the inner read loop ends when the peer stops sending
read_body_loop = Unit(
    'HttpMessage_readBody_loop', 'C09',
    cuts=[Cut('rl', HC, r'^\t\twhile \(maxToRead > 0\)',
              rules=[(r'_socket->read\(buffer, ([^;]+)\);', r'SOCK_READ(\1);', 1),   # whatever length expression is passed
                     (r'_status->received = currentsize;', '', 1), (r'_sink->write\(buffer, bytesRead\);', 'g_delivered += bytesRead;', 1),
                     (r'if\(_progress\)\s*_progress\(\*_status\);', '', 1), (r'\breturn;', '{ g_returned = 1; return; }', None)])],
    text=PRE + r'''
#define RECV_BLOCK_SIZE 16000
int g_delivered, g_returned, g_reads, g_closed;
/* blocking Socket::read(buf, n): delivers 1..n bytes, or 0 once the peer has closed (and then keeps returning 0), negative on error */
static int SOCK_READ(int n) { __CPROVER_assert(0 < n && n <= RECV_BLOCK_SIZE, "read length positive and within the buffer"); g_reads++;
  if (g_closed) return 0; int r = nondet_int(); __CPROVER_assume(-1 <= r && r <= n); if (r <= 0) g_closed = 1; return r; }
/* one turn of the inner loop  while (maxToRead > 0) { ... }  of readBody */
void readBody_turn(int* maxToRead_p, int* size_p, int* currentsize_p)
__CPROVER_requires(__CPROVER_is_fresh(maxToRead_p, sizeof(int)) && __CPROVER_is_fresh(size_p, sizeof(int)) && __CPROVER_is_fresh(currentsize_p, sizeof(int)))
__CPROVER_requires(*size_p >= -2000000000 && *maxToRead_p > 0 && 0 <= *currentsize_p && *currentsize_p <= 1000000000 && g_delivered == 0 && g_returned == 0 && g_reads == 0)
/* every turn either makes progress (delivers >= 1 byte and shrinks what is left) or leaves the function: a peer that stops sending cannot keep the server in this loop */
__CPROVER_ensures(g_returned || (g_delivered >= 1 && *maxToRead_p == __CPROVER_old(*maxToRead_p) - g_delivered))
__CPROVER_ensures(g_delivered <= RECV_BLOCK_SIZE && g_delivered <= __CPROVER_old(*maxToRead_p))
/* message framing: with a Content-Length N still outstanding, the turn takes at most N bytes from the connection - whatever else is already waiting in the socket
   (the next request of a kept-alive connection) is not part of this body */
__CPROVER_ensures(__CPROVER_old(*size_p) > 0 ==> g_delivered <= __CPROVER_old(*size_p))
__CPROVER_assigns(*maxToRead_p, *size_p, *currentsize_p, g_delivered, g_returned, g_reads, g_closed)
{
  int maxToRead = *maxToRead_p, size = *size_p, currentsize = *currentsize_p, bytesRead = 0; byte buffer[RECV_BLOCK_SIZE];
  @@rl@@
  *maxToRead_p = maxToRead; *size_p = size; *currentsize_p = currentsize;
}
void vf_harness(void) { int *a, *b, *c; readBody_turn(a, b, c); VF_CANARY(); }
''',
    entry='readBody_turn',
    desc='HttpMessage::readBody inner loop, one turn, for ANY Content-Length / chunk size and ANY socket behaviour: read length always in 1..sizeof(buffer), and each turn either delivers >= 1 byte or returns (peer close / error ends it)',
    functions=['HttpMessage::readBody (read loop)'],
    trusted=['Socket::read contract: 1..n bytes, 0 after close, negative on error'],
    assumes=['readBody: Content-Length above -2*10^9 (size -= bytesRead would otherwise wrap a signed int; no memory effect)'],
)
UNITS += [range_parts, read_body_loop]

# ---- HttpMessage::readBody: one turn of the OUTER loop (peer may close at any point)
read_body_outer = Unit(
    'HttpMessage_readBody_outer', 'C09',
    cuts=[Cut('ro', HC, r'^\twhile \([^\n]*\)\s*(?=\n\t\{\s*\n\t\tint av = _socket->available\(\);)',   # the outer loop, located by its first statement
              rules=[(r'_socket->available\(\)', 'SOCK_AVAILABLE()', None), (r'_socket->waitInput\(10\)', 'SOCK_WAIT()', 1),
                     (r'byte buffer\[RECV_BLOCK_SIZE\];', '', 1), (r'String chunkSize = _socket->readLine\(\);', 'g_progress = 1; g_sizeline = 1; /* a chunk-size line was consumed (or the peer closed: readLine returns \"\") */', 1),
                     (r'chunkSize\.hexToInt\(\)', 'nondet_int()', 1),
                     (r'while \(maxToRead > 0\) \{(?:.|\n)*?\n\t\t\}\n', 'if (maxToRead > 0) { INNER_LOOP(); if (g_returned) return; }\n', 1),
                     (r'_socket->read\(buffer, 2\) < 2', '(g_progress = 1, g_crlf = 1, nondet_bool())', 1),
                     (r'\bbreak;', '{ g_exit = 1; return; }', None)])],
    text=PRE + r'''
int g_eof, g_progress, g_exit, g_returned, g_end, g_sizeline, g_crlf;
/* socket contract at the level this loop sees: after the peer closed, available() is 0 and waitInput() reports readable (end of stream);
   otherwise available() is the number of bytes pending (0 = nothing yet, waitInput may time out) */
static int SOCK_AVAILABLE(void) { if (g_eof) return 0; int n = nondet_int(); __CPROVER_assume(-1 <= n && n <= 1000000); return n; }
static bool SOCK_WAIT(void) { if (g_eof) return true; return nondet_bool(); }
/* the inner read loop (unit HttpMessage_readBody_loop): delivers >= 1 byte per turn or returns from readBody */
static void INNER_LOOP(void) { if (nondet_bool()) g_returned = 1; else g_progress = 1; }
void readBody_outer_turn(bool chunked)
__CPROVER_requires(g_progress == 0 && g_exit == 0 && g_returned == 0 && g_sizeline == 0 && g_crlf == 0 && (g_eof == 0 || g_eof == 1))
/* every turn of the outer loop leaves the loop, returns, ends the body, or consumed input: a peer that closes in the middle of a body cannot make it spin */
__CPROVER_ensures(g_exit || g_returned || g_end || g_progress)
/* chunk framing: a turn that consumed a chunk-size line also consumes the CRLF that closes that chunk - the last, empty chunk included - unless the socket failed while
   reading the chunk data; so nothing of this message is left in a kept-alive connection for the next request to trip over */
__CPROVER_ensures((g_sizeline && !g_returned) ==> g_crlf)
__CPROVER_assigns(g_progress, g_exit, g_returned, g_end, g_sizeline, g_crlf)
{
  bool end = false; int size = nondet_int(), currentsize = 0;
  @@ro@@
  g_end = end;
}
void vf_harness(void) { bool c; readBody_outer_turn(c); VF_CANARY(); }
''',
    entry='readBody_outer_turn',
    desc='HttpMessage::readBody outer loop, one turn, Content-Length or chunked, peer closed or not: the turn exits, ends the body or consumes input (no busy loop after the peer closes mid-body); '
         'every chunk-size line read is followed by reading the CRLF that ends that chunk (also the terminating empty chunk)',
    functions=['HttpMessage::readBody (outer loop)'],
    trusted=['Socket::available / waitInput at end of stream: 0 and true (the criterion Socket_::disconnected() itself uses)'],
)
UNITS += [read_body_outer]

# ---- HttpMessage::readHeaders: one turn of the header loop
read_headers = Unit(
    'HttpMessage_readHeaders_turn', 'C09',
    cuts=[Cut('rh', HC, r'^\twhile \(line = _socket->readLine\(\), line != "\\r"\)\s*$',
              rules=[(r'setHeader\([^;]*\);', 'g_headers++;', None), (r'\bcontinue;', '{ g_continue = 1; return; }', None), (r'line\.trim\(\);', 'LINE_TRIM();', 1),
                     (r"line\.indexOf\(':'\)", 'g_colon', 1), (r'_socket->close\(\);', 'g_closed = 1;', 1), (r'line\.length\(\)', 'g_linelen', None),
                     (r'isspace\(line\[0\]\)', 'vf_isspace(LINE0())', None), (r'line\[0\]', 'LINE0()', None),
                     (r'headerName = line\.substring\(0, i\);', 'SUBSTRING_PRE(g_linelen, 0, i);', 1),
                     (r'headerValue = \(i < g_linelen - 1\) \? line\.substring\(i \+ 2\) : String\(\);', 'if (i < g_linelen - 1) SUBSTRING_PRE(g_linelen, i + 2, g_linelen);', 1)])],
    text=PRE + r'''
int g_linelen, g_colon, g_headers, g_continue, g_closed, g_returned; char g_first;
static int vf_isspace(int c) { return c == ' ' || (c >= 9 && c <= 13); }        /* isspace in the C locale */
/* the line Socket::readLine() just returned: length g_linelen, first character g_first (the NUL terminator when the line is empty,
   which is what readLine returns once the peer has closed), position of the first ':' g_colon or -1 */
static char LINE0(void) { return g_linelen == 0 ? (char)0 : g_first; }
static void LINE_TRIM(void) { int cut = nondet_int(); __CPROVER_assume(0 <= cut && cut <= g_linelen); g_linelen -= cut; if (g_colon >= g_linelen) g_colon = -1; }
void readHeaders_turn(void)
__CPROVER_requires(0 <= g_linelen && g_linelen <= 16001 && -1 <= g_colon && g_colon < g_linelen && g_first != 0 && g_headers == 0 && g_continue == 0 && g_closed == 0)
/* an empty line (end of stream) ends header reading: the loop cannot spin on a closed connection; substring arguments in range */
__CPROVER_ensures(__CPROVER_old(g_linelen) == 0 ==> (g_closed && !g_continue))
__CPROVER_assigns(g_linelen, g_colon, g_headers, g_continue, g_closed)
@@rh@@
void vf_harness(void) { readHeaders_turn(); VF_CANARY(); }
''',
    entry='readHeaders_turn',
    desc='HttpMessage::readHeaders, one turn for ANY line: once the peer has closed (readLine returns "") the loop is left and the connection dropped; substring arguments in range',
    functions=['HttpMessage::readHeaders'], trusted=['Socket::readLine returns "" after the peer closed; String::trim only shortens; indexOf = first position or -1'],
)

# ---- Url::parseQuery: percent-decoding must come AFTER splitting on the delimiters and AFTER the '+' -> ' ' substitution
parse_query = Unit(
    'Url_parseQuery_order', 'C09',
    cuts=[Cut('pq', HC, r'^Dic<> Url::parseQuery\(const String& querystring\)\s*$',
              rules=[(r'Dic<> query;', '', None), (r'return query;', 'return;', None), (r'Url::decode\(', 'T_DECODE(', None),
                     # receivers may be an identifier or an (already rewritten) stage call with a simple argument
                     (r"((?:T_\w+\()*\w+\)*)\.replace\('\+', ' '\)", r'T_REPLACE_PLUS(\1)', None), (r"((?:T_\w+\()*\w+\)*)\.replace\('\+', ' '\)", r'T_REPLACE_PLUS(\1)', None),
                     (r"((?:T_\w+\()*\w+\)*)\.split\('&', '='\)", r'T_SPLIT(\1)', None),
                     (r'return (T_SPLIT\([^;]*\));', r'{ TV vf_r = \1; T_STORE_ALL(vf_r); return; }', None), (r'Dic<> q = ', 'TV q = ', None),
                     (r'foreach2\(String& k, const String& v, q\)', 'for (TV k = T_ITEM(q), v = T_ITEM(q); vf_once; vf_once = 0)', None),
                     (r'query\[([^;]*)\] = ([^;]*);', r'T_STORE(\1, \2);', None)])],
    text=PRE + r'''
/* abstract view of a string for this question: has it been percent-decoded yet?  (x-www-form-urlencoded, WHATWG URL 5.1:
   split on '&' and '=', replace '+' by space, and only then percent-decode each name and value - an encoded "%26", "%3D" or "%2B" must not act as a delimiter or a space) */
typedef struct TV { bool decoded; bool plus_done; bool split_done; } TV;
int g_stored, g_bad; int vf_once = 1;
static TV T_REPLACE_PLUS(TV s) { if (s.decoded) g_bad = 1; __CPROVER_assert(!s.decoded, "'+' is replaced by a space BEFORE percent-decoding (a decoded \"%2B\" is a literal plus)"); TV r = s; r.plus_done = true; return r; }
static TV T_SPLIT(TV s) { if (s.decoded) g_bad = 1; __CPROVER_assert(!s.decoded, "the query is split on '&' and '=' BEFORE percent-decoding (a decoded \"%26\" / \"%3D\" is data)"); TV r = s; r.split_done = true; return r; }
static TV T_ITEM(TV q) { return q; }
static TV T_DECODE(TV s) { TV r = s; r.decoded = true; return r; }
static void T_STORE_ALL(TV q) { __CPROVER_assert(q.decoded && q.split_done && q.plus_done, "names and values are returned split, plus-substituted and percent-decoded"); g_stored++; }
static void T_STORE(TV k, TV v) { __CPROVER_assert(k.decoded && v.decoded && k.split_done && v.split_done && k.plus_done && v.plus_done, "names and values are stored split, plus-substituted and percent-decoded"); g_stored++; }
void parseQuery(TV querystring)
__CPROVER_requires(!querystring.decoded && !querystring.plus_done && !querystring.split_done && g_stored == 0 && g_bad == 0 && vf_once == 1)
__CPROVER_ensures(!g_bad)
__CPROVER_assigns(g_stored, g_bad, vf_once)
@@pq@@
void vf_harness(void) { TV q; parseQuery(q); VF_CANARY(); }
''',
    entry='parseQuery', unwind=3,
    desc='Url::parseQuery at the level of the ORDER of operations: the query string is split and plus-substituted while still percent-encoded, and every stored name/value is decoded afterwards',
    functions=['Url::parseQuery'], trusted=['String::replace / split(sep1, sep2) / Url::decode as abstract stages (their own behaviour is not part of this unit)'],
)
UNITS += [read_headers, parse_query]

# ---- header names are case-insensitive (RFC 7230 3.2): setHeader / header / hasHeader all key the dictionary with capitalized(name), so what matters is that
# capitalized() maps names that differ only in ASCII case to the SAME key
capitalized_unit = Unit(
    'Http_capitalized', 'C09',
    cuts=[Cut('cap', HC, r'^String capitalized\(const String& name\)\s*$',
              rules=[(r'String cname = name;', '', 1), (r'char\*\s+pname = cname\.data\(\);', 'char* pname = name_buf;', 1), (r'cname\.length\(\)', 'name_len', None), (r'return cname;', 'return;', 1)])],
    text=PRE + r'''
/* toupper / tolower in the C locale (ISO C 7.4.2) */
static int toupper(int c) { return (c >= 'a' && c <= 'z') ? c - 32 : c; }
static int tolower(int c) { return (c >= 'A' && c <= 'Z') ? c + 32 : c; }
#define NL 8
static void capitalized(char* name_buf, int name_len) @@cap@@
void vf_harness(void) {
  char a[NL], b[NL]; int n = nondet_int(); __CPROVER_assume(0 <= n && n <= NL);
  for (int i = 0; i < NL; i++) { a[i] = nondet_char(); b[i] = nondet_char(); __CPROVER_assume(i >= n || (a[i] != 0 && tolower(a[i]) == tolower(b[i]))); }
  capitalized(a, n); capitalized(b, n);
  int k = nondet_int(); __CPROVER_assume(0 <= k && k < n);
  __CPROVER_assert(a[k] == b[k], "names that differ only in the case of ASCII letters get the same dictionary key");
  char c = a[k]; char a2[NL]; for (int i = 0; i < NL; i++) a2[i] = a[i]; capitalized(a2, n);
  __CPROVER_assert(a2[k] == c, "the canonical form is a fixed point");
  VF_CANARY();
}
''',
    entry=None, unwind=10, floor=2, expect=['assertion'], kind='bounded', bound='header names of at most 8 characters (every position: first, after a hyphen, elsewhere)',
    desc='capitalized(name): header names equal up to ASCII case map to the same key (so header()/hasHeader()/setHeader() are case-insensitive), and the key is a fixed point',
    functions=['capitalized (HttpMessage::setHeader / header / hasHeader key)'],
    trusted=['toupper/tolower in the C locale'],
)
# the socket read loop under the line reader: a peer closing in the middle of a line must end it (units of C10, re-run here)
from units.C10 import sock_read as _sr9, sock_read_small as _srs9
UNITS += [capitalized_unit, _sr9, _srs9]

# ---- HttpServer::serveFile builds the local file name from request.path(), which HttpRequest::read already percent-decoded and cleaned of "..":
# decoding it AGAIN would turn "%252e%252e" into ".." behind the filter
serve_file = Unit(
    'HttpServer_serveFile_path', 'C09',
    cuts=[Cut('sf', 'src/HttpServer.cpp', r'void HttpServer::serveFile\([^)]*\)\s*\{\s*if \(request\.method\(\) == "GET"\)\s*\{\s*(String path = [^;]*;)', kind='expr',
              rules=[(r'String path =', 'TV path =', 1), (r'request\.path\(\)', 'REQ_PATH()', None), (r'Url::decode\(', 'T_DECODE(', None)])],
    text=PRE + r'''
typedef struct TV { int decodes; } TV;
int g_bad;
static TV REQ_PATH(void) { TV t = { 1 }; return t; }          /* request.path(): decoded once and filtered (units HttpRequest_target_split / HttpRequest_path_dotdot) */
static TV T_DECODE(TV t) { if (t.decodes >= 1) g_bad = 1; __CPROVER_assert(t.decodes == 0, "the request path is percent-decoded exactly once, BEFORE the \"..\" filter"); t.decodes++; return t; }
void serveFile_path(void)
__CPROVER_requires(g_bad == 0)
__CPROVER_ensures(!g_bad)
__CPROVER_assigns(g_bad)
{
  @@sf@@
  (void)path;
}
void vf_harness(void) { serveFile_path(); VF_CANARY(); }
''',
    entry='serveFile_path',
    desc='HttpServer::serveFile: the local path is built from request.path() as it is (decoded once, filtered); it is not decoded a second time',
    functions=['HttpServer::serveFile (path)'],
)
UNITS += [serve_file]

# replay for the receiving-loop units (shared with C10): the C10 driver's battery on the real HttpRequest reader
for _u in (read_body_loop, read_body_outer, read_headers):
    if not _u.replay:
        _u.replay = replay.battery('C10/driver.cpp', ['battery'])

# replay for the remaining units: the C09 driver's battery on the real library (request targets whose decoded path contains "..", query strings with encoded delimiters, odd URLs)
_bat9 = replay.battery('C09/driver.cpp', ['battery'])
for _u in UNITS:
    if _u not in (read_body_loop, read_body_outer, read_headers):
        _u.replay = replay.first_of(_u.replay, _bat9) if _u.replay else _bat9
capitalized_unit.replay = replay.battery('C10/driver.cpp', ['battery'])     # header-name handling is exercised by the request battery

# planted one-token breaks for the newer units (thorough tier: each must make an obligation fail)
capitalized_unit.planted = [('cap', r': tolower\(pname\[i\]\)', ': pname[i]')]
