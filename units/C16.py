"""C16 - endian-aware binary streams (include/asl/StreamBuffer.h, File.h, Socket.h, defs.h)"""
import re
from vf.core import Unit, Cut
from vf import replay

D, SB, FH, SK = 'include/asl/defs.h', 'include/asl/StreamBuffer.h', 'include/asl/File.h', 'include/asl/Socket.h'

# one translation unit per instantiation (R7): T is the C type, U the unsigned integer type of the same size
TYPES = {'u16': ('unsigned short', 'unsigned short', 2), 'i16': ('short', 'unsigned short', 2), 'i32': ('int', 'unsigned', 4),
         'u32': ('unsigned', 'unsigned', 4), 'f32': ('float', 'unsigned', 4), 'i64': ('long long', 'unsigned long long', 8),
         'u64': ('unsigned long long', 'unsigned long long', 8), 'f64': ('double', 'unsigned long long', 8)}
def tv(names=None):
    return {k: ['-DT=%s' % v[0].replace(' ', '_SP_'), '-DSZ=%d' % v[2], '-DTU=%s' % v[1].replace(' ', '_SP_')] for k, v in TYPES.items() if not names or k in names}

PRE = r'''
#include "vf_base.h"
#include "vf_endian.h"
#define unsigned_SP_short unsigned short
#define long_SP_long long long
#define unsigned_SP_long_SP_long unsigned long long
typedef T TT; typedef TU UU;
int g_k;
/* the value of x as an unsigned integer of its size (floats as bit patterns: NaN payloads are just values) */
#define bits_of(x) ((unsigned long long)*(const UU*)(x))
'''
ASBYTES = [(r'AsBytes<T> y\(x\);', 'byte y[SZ]; memcpy(y, &x, SZ);', None), (r'\by\.b\b', 'y', None),
           (r'swapBytes\(y\);', 'swapBytes_n(y, SZ);', None)]

# swapBytes<T>(T& x): byte i <-> byte size-1-i
swapbytes = Unit(
    'swapBytes', 'C16',
    cuts=[Cut('swap', D, r'^inline void swapBytes\(T& x\)\s*$', rules=[(r'&x\b', 'x_p', None), (r'sizeof\(T\)', 'sizeof(TT)', None)])],
    text=PRE + r'''
void swapBytes(TT* x_p)
__CPROVER_requires(__CPROVER_is_fresh(x_p, sizeof(TT)) && 0 <= g_k && g_k < SZ)
__CPROVER_ensures(((byte*)x_p)[g_k] == __CPROVER_old(((byte*)x_p)[SZ - 1 - g_k]))
__CPROVER_assigns(*x_p)
@@swap@@
void vf_harness(void) { TT* x; swapBytes(x); VF_CANARY(); }
''',
    entry='swapBytes', variants=tv(), unwind=10,
    desc='swapBytes<T>: byte i of the result is byte size-1-i of the argument, for every value of every scalar type',
    functions=['swapBytes<T>'],
)

# StreamBufferReader::read2/4/8 (operator>> for 16/32/64-bit types)
READER = r'''
typedef struct Reader { const byte* _ptr; const byte* _end; int _endian; } Reader;
'''
def reader_unit(fn, size, names):
    rules = [(r'AsOther<[^>]*>\s*a\(', 'UU vf_a = (', 1), (r'x = a\.other\(\);', 'memcpy(x_p, &vf_a, sizeof(UU));', 1),
             (r'return \*this;', 'return;', None)]
    return Unit(
        'Reader_' + fn, 'C16',
        cuts=[Cut('rd', SB, r'^\tStreamBufferReader& %s\(T& x\)\s*$' % fn, rules=rules, members=('_ptr', '_end', '_endian'))],
        text=PRE + READER + r'''
#if SZ != %d
#error wrong instantiation
#endif
void Reader_read(Reader* self, TT* x_p)
__CPROVER_requires(__CPROVER_is_fresh(self, sizeof(Reader)) && __CPROVER_is_fresh(x_p, sizeof(TT)) && __CPROVER_is_fresh(self->_ptr, SZ))
__CPROVER_requires(self->_endian == ENDIAN_BIG || self->_endian == ENDIAN_LITTLE || self->_endian == ENDIAN_NATIVE)
__CPROVER_requires(0 <= g_k && g_k < SZ)
/* the value read is the one whose canonical bytes in that order are the bytes consumed */
__CPROVER_ensures(SPEC_ORDER_BYTE(bits_of(x_p), SZ, self->_endian, g_k) == __CPROVER_old(self->_ptr)[g_k])
__CPROVER_ensures(self->_ptr == __CPROVER_old(self->_ptr) + SZ)
__CPROVER_assigns(self->_ptr, *x_p)      /* frame: the byte order setting and the buffer are untouched */
@@rd@@
void vf_harness(void) { Reader* r; TT* x; Reader_read(r, x); VF_CANARY(); }
''' % size,
        entry='Reader_read', variants=tv(names),
        desc='StreamBufferReader::%s: for BIG, LITTLE and NATIVE order the value read has exactly the consumed bytes as its canonical encoding; '
             'advances by sizeof(T); does not touch the order setting' % fn,
        functions=['StreamBufferReader::' + fn],
    )
read2 = reader_unit('read2', 2, ['u16', 'i16'])
read4 = reader_unit('read4', 4, ['i32', 'u32', 'f32'])
read8 = reader_unit('read8', 8, ['i64', 'u64', 'f64'])

# writers: StreamBuffer / File / Socket  operator<<(const T&), File/Socket operator>>(T&).
# write()/read() go to a ghost wire (the real write is Array<byte>::append = C01, fwrite, send)
WIRE = r'''
byte g_wire[16]; int g_wn;      /* bytes handed to write(), in order */
static int vf_write(const void* p, int n) { __CPROVER_assert(n >= 0 && g_wn + n <= 16, "write length"); memcpy(g_wire + g_wn, p, n); g_wn += n; return n; }
const byte* g_src;              /* bytes delivered by read() */
static int vf_read(void* p, int n) { memcpy(p, g_src, n); g_src += n; return n; }
static void swapBytes_n(byte* b, int n) { byte t[8]; for (int i = 0; i < n; i++) t[i] = b[n - 1 - i]; for (int i = 0; i < n; i++) b[i] = t[i]; }
typedef struct Stream { int _endian; } Stream;
'''
SWAP_T = r'''
static void swapBytes(TT* x_p) @@swap@@
static TT bytesSwapped(const TT* x_p) { TT y = *x_p; swapBytes(&y); return y; }
'''
SWAP_CUT = lambda: Cut('swap', D, r'^inline void swapBytes\(T& x\)\s*$', rules=[(r'&x\b', 'x_p', None), (r'sizeof\(T\)', 'sizeof(TT)', None)])

def writer_unit(name, file, loc, rules, desc, fn):
    return Unit(
        name, 'C16',
        cuts=[SWAP_CUT(), Cut('w', file, loc, rules=rules + [(r'return \*this;', 'return;', None)], members=('_endian',))],
        text=PRE + WIRE + SWAP_T + r'''
void Stream_put(Stream* self, const TT* x_p)
__CPROVER_requires(__CPROVER_is_fresh(self, sizeof(Stream)) && __CPROVER_is_fresh(x_p, sizeof(TT)) && g_wn == 0)
__CPROVER_requires(self->_endian == ENDIAN_BIG || self->_endian == ENDIAN_LITTLE || self->_endian == ENDIAN_NATIVE)
__CPROVER_requires(0 <= g_k && g_k < SZ)
__CPROVER_ensures(g_wn == SZ)                                                          /* sizeof(T) bytes per scalar */
__CPROVER_ensures(g_wire[g_k] == SPEC_ORDER_BYTE(bits_of(x_p), SZ, self->_endian, g_k)) /* canonical bytes in that order */
__CPROVER_assigns(g_wire, g_wn)                                                        /* the value and the order setting are untouched */
@@w@@
void vf_harness(void) { Stream* s; const TT* x; Stream_put(s, x); VF_CANARY(); }
''',
        entry='Stream_put', variants=tv(), unwind=10, desc=desc, functions=[fn],
    )
X_RULES = [(r'(?<![\w.>&])x\b(?!_p)', '(*x_p)', None)]
sb_put = writer_unit('StreamBuffer_put', SB, r'^\tStreamBuffer& operator<<\(const T& x\)\s*$',
                     [(r'AsBytes<T> y\(x\);', 'byte y[SZ]; memcpy(y, x_p, SZ);', 1), (r'\by\.b\b', 'y', None),
                      (r'swapBytes\(y\);', 'swapBytes_n(y, SZ);', 1), (r'\bwrite\(', 'vf_write(', None), (r'sizeof\(T\)', 'sizeof(TT)', None)],
                     'StreamBuffer::operator<<(const T&): appends exactly sizeof(T) bytes, the canonical bytes of x in the selected order',
                     'StreamBuffer::operator<<(const T&)')
FS_RULES = [(r'\bT y\b', 'TT y', None), (r'bytesSwapped\(x\)', 'bytesSwapped(x_p)', None), (r': x;', ': *x_p;', None),
            (r'sizeof\(x\)', 'sizeof(TT)', None), (r'\bwrite\(', 'vf_write(', None), (r'\bendian\(\)', 'self->_endian', None)]
file_put = writer_unit('File_put', FH, r'^\tFile& operator<<\(const T& x\)\s*$', FS_RULES,
                       'File::operator<<(const T&): writes exactly sizeof(T) bytes, canonical in the selected order', 'File::operator<<(const T&)')
sock_put = writer_unit('Socket_put', SK, r'^\tSocket& operator<<\(const T& x\)\s*$', FS_RULES,
                       'Socket::operator<<(const T&): writes exactly sizeof(T) bytes, canonical in the selected order', 'Socket::operator<<(const T&)')

def getter_unit(name, file, loc, fn):
    rules = [(r'read\(&x, sizeof\(x\)\)', 'vf_read(x_p, sizeof(TT))', 1), (r'swapBytes\(x\)', 'swapBytes(x_p)', 1),
             (r'\bendian\(\)', 'self->_endian', None), (r'return \*this;', 'return;', None)]
    return Unit(
        name, 'C16',
        cuts=[SWAP_CUT(), Cut('r', file, loc, rules=rules, members=('_endian',))],
        text=PRE + WIRE + SWAP_T + r'''
void Stream_get(Stream* self, TT* x_p)
__CPROVER_requires(__CPROVER_is_fresh(self, sizeof(Stream)) && __CPROVER_is_fresh(x_p, sizeof(TT)) && __CPROVER_is_fresh(g_src, SZ))
__CPROVER_requires(self->_endian == ENDIAN_BIG || self->_endian == ENDIAN_LITTLE || self->_endian == ENDIAN_NATIVE)
__CPROVER_requires(0 <= g_k && g_k < SZ)
__CPROVER_ensures(SPEC_ORDER_BYTE(bits_of(x_p), SZ, self->_endian, g_k) == __CPROVER_old(g_src)[g_k])
__CPROVER_ensures(g_src == __CPROVER_old(g_src) + SZ)
__CPROVER_assigns(*x_p, g_src)
@@r@@
void vf_harness(void) { Stream* s; TT* x; Stream_get(s, x); VF_CANARY(); }
''',
        entry='Stream_get', variants=tv(), unwind=10, functions=[fn],
        desc=fn + ': reads sizeof(T) bytes; the value has exactly those bytes as canonical encoding in the selected order',
    )
file_get = getter_unit('File_get', FH, r'^\tFile& operator>>\(T& x\)\s*$', 'File::operator>>(T&)')
sock_get = getter_unit('Socket_get', SK, r'^\tSocket& operator>>\(T& x\)\s*$', 'Socket::operator>>(T&)')

UNITS = [swapbytes, read2, read4, read8, sb_put, file_put, sock_put, file_get, sock_get]

# operator<<(const Array<T>&): length x sizeof(T) bytes, element by element, the array itself untouched.
# The Array is (x_data, x_len); bounded: at most 3 elements (every branch and the per-element loop are exercised).
WIRE_A = WIRE.replace('g_wire[16]', 'g_wire[32]').replace('g_wn + n <= 16', 'g_wn + n <= 32')
def array_writer(name, file, loc, put_loc, put_rules, fn):
    # an Array<T> handle is modelled as (name_data, name_len); copying a handle shares the storage (Array(const Array&): C01)
    rules = [(r'foreach\s*\(const T& y, x\)\s*\*this << y;', 'for (int vf_i = 0; vf_i < x_len; vf_i++) Stream_put(self, &x_data[vf_i]);', None),
             (r'\bArray<T> (\w+) = (\w+);', r'TT* \1_data = (TT*)\2_data; int \1_len = \2_len;', None),
             (r'\*this << (\w+)\[(\w+)\];', r'Stream_put(self, &\1_data[\2]);', None),
             (r'swapBytes\((\w+)\[(\w+)\]\)', r'swapBytes(&\1_data[\2])', None),
             (r'&(\w+)\[0\]', r'\1_data', None), (r'\b(\w+)\.length\(\)', r'\1_len', None), (r'\b(\w+)\.data\(\)', r'\1_data', None),
             (r'sizeof\(T\)', 'sizeof(TT)', None),
             (r'\bwrite\(', 'vf_write(', None), (r'\bendian\(\)', 'self->_endian', None), (r'return \*this;', 'return;', None)]
    return Unit(
        name, 'C16',
        cuts=[SWAP_CUT(), Cut('w', file, put_loc, rules=put_rules + [(r'return \*this;', 'return;', None)], members=('_endian',)),
              Cut('wa', file, loc, rules=rules, members=('_endian',))],
        text=PRE + WIRE_A + SWAP_T + r'''
static void Stream_put(Stream* self, const TT* x_p) @@w@@
void Stream_put_array(Stream* self, const TT* x_data, int x_len)
__CPROVER_requires(__CPROVER_is_fresh(self, sizeof(Stream)) && 0 <= x_len && x_len <= 3 && __CPROVER_is_fresh(x_data, 3 * sizeof(TT)) && g_wn == 0)
__CPROVER_requires(self->_endian == ENDIAN_BIG || self->_endian == ENDIAN_LITTLE || self->_endian == ENDIAN_NATIVE)
__CPROVER_requires(0 <= g_k && g_k < x_len * SZ)
__CPROVER_ensures(g_wn == x_len * SZ)                         /* length x sizeof(T) bytes per array */
__CPROVER_ensures(g_wire[g_k] == SPEC_ORDER_BYTE(bits_of(&x_data[g_k / SZ]), SZ, self->_endian, g_k % SZ))
__CPROVER_assigns(g_wire, g_wn)                               /* the caller's array is not modified */
@@wa@@
void vf_harness(void) { Stream* s; const TT* x; int n; Stream_put_array(s, x, n); VF_CANARY(); }
''',
        entry='Stream_put_array', variants=tv(['u16', 'i32', 'f64']), unwind=10, kind='bounded', bound='array length <= 3',
        desc=fn + ': writes length*sizeof(T) bytes = the concatenation of the elements\' canonical bytes, in both branches (swapping / native); array untouched',
        functions=[fn],
    )
sb_put_arr = array_writer('StreamBuffer_put_array', SB, r'^\tStreamBuffer& operator<<\(const Array<T>& x\)\s*$', r'^\tStreamBuffer& operator<<\(const T& x\)\s*$',
                          [(r'AsBytes<T> y\(x\);', 'byte y[SZ]; memcpy(y, x_p, SZ);', 1), (r'\by\.b\b', 'y', None),
                           (r'swapBytes\(y\);', 'swapBytes_n(y, SZ);', 1), (r'\bwrite\(', 'vf_write(', None), (r'sizeof\(T\)', 'sizeof(TT)', None)],
                          'StreamBuffer::operator<<(const Array<T>&)')
file_put_arr = array_writer('File_put_array', FH, r'^\tFile& operator<<\(const Array<T>& x\)\s*$', r'^\tFile& operator<<\(const T& x\)\s*$', FS_RULES,
                            'File::operator<<(const Array<T>&)')
sock_put_arr = array_writer('Socket_put_array', SK, r'^\tSocket& operator<<\(const Array<T>& x\)\s*$', r'^\tSocket& operator<<\(const T& x\)\s*$', FS_RULES,
                            'Socket::operator<<(const Array<T>&)')
UNITS += [sb_put_arr, file_put_arr, sock_put_arr]

# Socket << / >> move their bytes through Socket_::write / Socket_::read: the C10 units of those loops serve "reading the same types back returns the original values"
from units.C10 import sock_read as _sr, sock_write as _sw
UNITS += [_sr, _sw]

# ---- StreamBufferReader::read(n): n bytes into an array and the cursor advanced by n; a negative n (the default) means "all the rest"; n == 0 reads NOTHING
SB = 'include/asl/StreamBuffer.h'
reader_read_n = Unit(
    'Reader_read_n', 'C16',
    cuts=[Cut('rn', SB, r'^\t\tByteArray read\(int n = -1\) ', rules=[(r'(?<![\w.>])length\(\)', 'g_left', None), (r'ByteArray a\(n\);', 'g_alen = n;', 1), (r'memcpy\(a\.data\(\), _ptr, n\);', 'VF_COPY(n);', 1), (r'_ptr \+= n;', 'g_adv += n;', 1), (r'return a;', 'return;', 1)])],
    text=r'''
#include "vf_base.h"
int g_left, g_alen, g_copied, g_adv;
static void VF_COPY(int n) { __CPROVER_assert(0 <= n && n <= g_left && n <= g_alen, "the copy stays inside the remaining input and inside the new array"); g_copied = n; }
void Reader_read_n(int n)
__CPROVER_requires(0 <= g_left && g_left <= 1000000 && n <= g_left && g_alen == -1 && g_copied == -1 && g_adv == 0)
/* exactly n bytes for n >= 0 (none for n == 0: a zero-length array in the middle of a stream must not swallow what follows); everything that is left for n < 0 */
__CPROVER_ensures(g_alen == (n < 0 ? g_left : n) && g_copied == g_alen && g_adv == g_alen)
__CPROVER_assigns(g_alen, g_copied, g_adv)
@@rn@@
void vf_harness(void) { int n; Reader_read_n(n); VF_CANARY(); }
''',
    entry='Reader_read_n',
    desc='StreamBufferReader::read(n) for every n: n >= 0 reads exactly n bytes (0 reads nothing), n < 0 reads all that is left; cursor advanced by what was read',
    functions=['StreamBufferReader::read(int)'],
)
UNITS += [reader_read_n]

# replay: the native counterpart of the per-type contract units is the driver's battery: every scalar type x byte order x bit pattern through StreamBuffer, File and Socket
# (socket bytes delivered in two pieces), mid-stream order switch, arrays of 0..5 elements, caller's array untouched
for _u in UNITS:
    if not _u.replay:
        _u.replay = replay.battery('C16/driver.cpp', ['battery'])


def pre_checks(work):
    """The units attach contracts to the TEMPLATES swapBytes<T> / bytesSwapped<T> and to the templated stream operators.  C++ overload resolution would prefer a non-template
    overload for a concrete type, which the extraction (text of the template) would not see: if such an overload exists the units no longer describe the code that runs."""
    import re
    from vf import core as _c
    out = []
    # (StreamBufferReader's operator>> per type are explicit on the pinned tree and go through read2/4/8: units Reader_read*)
    for f, names in [('include/asl/defs.h', ['swapBytes', 'bytesSwapped']), ('include/asl/StreamBuffer.h', ['operator<<']), ('include/asl/File.h', ['operator<<', 'operator>>']), ('include/asl/Socket.h', ['operator<<', 'operator>>'])]:
        try:
            src = _c.strip_comments(_c.read_repo(f))
        except Exception as e:
            out.append({'name': 'overloads:' + f, 'ok': False, 'detail': 'cannot read %s: %r' % (f, e)})
            continue
        for n in names:
            if n.startswith('operator'):
                # stream operators for 16/32/64-bit scalars must come from the template (char/byte/bool/String overloads are single bytes or other properties)
                bad = re.findall(r'%s\s*\(\s*(?:const\s+)?((?:unsigned\s+)?(?:short|int|long|Long|ULong|float|double))\s*&' % re.escape(n), src)
            else:
                bad = re.findall(r'\b%s\s*\(\s*(?:const\s+)?((?:unsigned\s+)?\w+)\s*&' % n, src)
                bad = [b for b in bad if b != 'T']
            out.append({'name': 'overloads:%s:%s' % (f, n), 'ok': not bad,
                        'detail': 'non-template overload(s) of %s for %s in %s: overload resolution would bypass the template the units verify' % (n, ', '.join(sorted(set(bad))), f) if bad else 'only the template'})
    return out
