"""C19 - Date (src/Date.cpp)"""
from vf.core import Unit, Cut
from vf import replay

DC = 'src/Date.cpp'
PRE = r'''
#include "vf_base.h"
#include "date.h"
#include <math.h>
int g_k;
'''
YFT = lambda: Cut('yft', DC, r'^static int yearFromTime\(double t\)\s*$',
                  rules=[(r'\(int\)floor\(t \* \(1 / 86400\.0\)\)', 'day', 1)])     # R12: the floating entry expression -> parameter day

yearFromTime = Unit(
    'yearFromTime_days', 'C19',
    cuts=[YFT()],
    text=PRE + r'''
int yearFromTime_days(int day)
__CPROVER_requires(SPEC_DAY_MIN <= day && day <= SPEC_DAY_MAX)
__CPROVER_ensures(1 <= __CPROVER_return_value && __CPROVER_return_value <= 9999)
__CPROVER_ensures(SPEC_DAYS_FROM_YEAR(__CPROVER_return_value) <= day && day < SPEC_DAYS_FROM_YEAR(__CPROVER_return_value + 1))
__CPROVER_assigns()
@@yft@@
void vf_harness(void) { int d; yearFromTime_days(d); VF_CANARY(); }
''',
    entry='yearFromTime_days', timeout=600,
    desc='yearFromTime (integer body) for EVERY day of years 0001..9999: the returned year is the proleptic Gregorian year containing that day (both the 1904-2099 fast path and the 400/100/4-year path)',
    functions=['yearFromTime'],
    assumes=['the floating entry (int)floor(t * (1 / 86400.0)) of yearFromTime equals the integer day number of t (rule R12; floating point not decided)'],
    replay=replay.from_trace('C19/driver.cpp', ['day'], lambda v: ['day', v['day']]),
    planted=[('yft', r'else if \(d >= 366\)\s*year \+= 1;\s*return year;\s*\}\s*$', 'else if (d > 366) year += 1; return year; }')],
)

tfy = Unit(
    'timeFromYearAsDays', 'C19',
    cuts=[Cut('m', DC, r'^#define timeFromYearAsDays\(y\)', kind='define')],
    text=PRE + r'''
@@m@@
int nondet_int(void);
void vf_harness(void) {
  int y = nondet_int(); __CPROVER_assume(1 <= y && y <= 10000);
  double v = timeFromYearAsDays(y);
  __CPROVER_assert(v == (double)SPEC_DAYS_FROM_YEAR(y), "timeFromYearAsDays(y) is the number of days from 1970-01-01 to y-01-01");
  VF_CANARY();
}
''',
    entry=None, floor=3, expect=['assertion'], timeout=600,
    desc='the macro timeFromYearAsDays(y) (floating floor of y/4, y/100, y/400 terms) equals the integer day count for every year 1..10000',
    functions=['timeFromYearAsDays'],
    replay=replay.from_trace('C19/driver.cpp', ['y'], lambda v: ['year', v['y']]),
    planted=[('m', r'/400\.0', '/400')],
)

# calendar fields <-> day number: the month search of Date::calc and the formula of Date::construct
# month_days is a mutable file-static table that no code writes (pre_checks greps for assignments); verified as const
MONTHS = lambda: Cut('md', DC, r'^static int month_days\[\]\[14\]=', kind='stmt', rules=[(r'^static int', 'static const int', 1)])
SEARCH = lambda: Cut('search', DC, r'(date\.month = 1;[\s\S]*?date\.day = [^;]*;)', kind='expr')
WEEKDAY = lambda: Cut('wd', DC, r'(date\.weekDay = \(\(int\)floor\(t / 86400\.0\) - 3\) % 7;\s*if \(date\.weekDay < 0\)\s*date\.weekDay \+= 7;)', kind='expr',
                      rules=[(r'\(int\)floor\(t / 86400\.0\)', 'day', 1)])
LEAPM = lambda: Cut('diy', DC, r'^#define daysInYear\(y\)', kind='define')
CONSTR = lambda: Cut('cons', DC, r'(bool\s+leap = \(daysInYear\(year\) == 366\);\s*double yearday = [^;]*;\s*double monthday = [^;]*;\s*_t = \(yearday \+ monthday \+ day - 1\) \* 86400\.0;)', kind='expr',
                     rules=[(r'\b_t\b', 'vf_t', None), (r'timeFromYearAsDays\(year\)', 'VF_TFY(year)', 1)])

fields = Unit(
    'calc_fields', 'C19',
    cuts=[MONTHS(), SEARCH(), WEEKDAY(), LEAPM()],
    text=PRE + r'''
typedef struct DateData { int year, month, day, hours, minutes, seconds, weekDay; } DateData;
@@diy@@
@@md@@
/* contract of yearFromTime (integer body), enforced on the real body by unit yearFromTime_days in the same run */
int yearFromTime_days(int day)
__CPROVER_requires(SPEC_DAY_MIN <= day && day <= SPEC_DAY_MAX)
__CPROVER_ensures(1 <= __CPROVER_return_value && __CPROVER_return_value <= 9999)
__CPROVER_ensures(SPEC_DAYS_FROM_YEAR(__CPROVER_return_value) <= day && day < SPEC_DAYS_FROM_YEAR(__CPROVER_return_value + 1))
__CPROVER_assigns();
DateData g_date;
/* Date::calc at day granularity: year, then the month search on the day within the year, then the weekday */
void calc_fields(int day)
__CPROVER_requires(SPEC_DAY_MIN <= day && day <= SPEC_DAY_MAX)
__CPROVER_ensures(1 <= g_date.year && g_date.year <= 9999 && 1 <= g_date.month && g_date.month <= 12)
__CPROVER_ensures(1 <= g_date.day && g_date.day <= SPEC_CUM_DAYS[SPEC_IS_LEAP(g_date.year) ? 1 : 0][g_date.month + 1] - SPEC_CUM_DAYS[SPEC_IS_LEAP(g_date.year) ? 1 : 0][g_date.month])
/* the fields denote exactly that day of the proleptic Gregorian calendar (such fields are unique) */
__CPROVER_ensures(SPEC_DAYS_FROM_YEAR(g_date.year) + SPEC_CUM_DAYS[SPEC_IS_LEAP(g_date.year) ? 1 : 0][g_date.month] + g_date.day - 1 == day)
__CPROVER_ensures(g_date.weekDay == (((day + 4) % 7) + 7) % 7)       /* 1970-01-01 was a Thursday */
__CPROVER_assigns(g_date)
{
  DateData date;
  date.year = yearFromTime_days(day);
  int leap = (daysInYear(date.year) == 366) ? 1 : 0;
  int yd = day - SPEC_DAYS_FROM_YEAR(date.year);        /* dayWithinYear(t, year): timeFromYearAsDays == SPEC_DAYS_FROM_YEAR by unit timeFromYearAsDays */
  @@search@@
  @@wd@@
  g_date = date;
}
void vf_harness(void) { int d; calc_fields(d); VF_CANARY(); }
''',
    entry='calc_fields', replace=['yearFromTime_days'], unwind=15, timeout=600,
    replay=replay.from_trace('C19/driver.cpp', ['day'], lambda v: ['day', v['day']]),
    desc='for EVERY day of years 0001..9999: the month search and weekday formula of Date::calc, on top of the yearFromTime contract, give the unique proleptic Gregorian year/month/day/weekday of that day',
    functions=['Date::calc (month search, day, weekDay)', 'month_days', 'daysInYear'],
    assumes=['hours/minutes/seconds extraction in calc() uses floating fract arithmetic and is NOT decided',
             'calc_fields glue (4 lines calling the extracted pieces in the order Date::calc does) is written in the unit, not extracted'],
)

construct_day = Unit(
    'construct_day', 'C19',
    cuts=[MONTHS(), LEAPM(), CONSTR()],
    text=PRE + r'''
@@diy@@
/* timeFromYearAsDays(y) == (double)SPEC_DAYS_FROM_YEAR(y): proved for y in 1..10000 by unit timeFromYearAsDays in the same run */
#define VF_TFY(y) ((double)SPEC_DAYS_FROM_YEAR(y))
@@md@@
int nondet_int(void);
void vf_harness(void) {
  int year = nondet_int(), month = nondet_int(), day = nondet_int();
  __CPROVER_assume(1 <= year && year <= 9999 && 1 <= month && month <= 12 && 1 <= day && day <= 31);
  double vf_t;
  @@cons@@
  __CPROVER_assert(vf_t == (double)(SPEC_DAYS_FROM_YEAR(year) + SPEC_CUM_DAYS[SPEC_IS_LEAP(year) ? 1 : 0][month] + day - 1) * 86400.0,
                   "construct(y, m, d, 0, 0, 0) is midnight of the day those fields denote");
  VF_CANARY();
}
''',
    entry=None, floor=3, expect=['assertion'], timeout=600,
    replay=replay.from_trace('C19/driver.cpp', ['year', 'month', 'day'], lambda v: ['fields', v['year'], v['month'], v['day']]),
    desc='Date::construct (date part) for every year 1..9999, month, day: the instant is 86400 s times the day number those fields denote; with calc_fields: fields -> instant -> fields is the identity at day granularity',
    functions=['Date::construct (day part)'],
)

UNITS = [yearFromTime, tfy, fields, construct_day]

# ---------------------------------------------------------------------------------------------
# the ISO 8601 parser Date::Date(const String&)
from vf.core import DEFAULT_CHECKS
NO_OVF = [c for c in DEFAULT_CHECKS if c != '--signed-overflow-check'] + ['--no-signed-overflow-check']
ISDIG = r'''
static bool myisdigit(char c) @@isdig@@
#define DIG(c) ((c) >= '0' && (c) <= '9')
'''
ISDIG_CUT = lambda: Cut('isdig', DC, r'^inline bool myisdigit\(char c\)\s*$')
PARSEINT_CONTRACT = r'''
__CPROVER_requires(0 <= n && n <= NMAX && __CPROVER_r_ok(p, n))
__CPROVER_ensures(__CPROVER_return_value >= -1000000 || n > 9)
__CPROVER_ensures(n == 2 ==> __CPROVER_return_value == ((DIG(p[0]) && DIG(p[1])) ? (p[0] - '0') * 10 + (p[1] - '0') : -1000000))
__CPROVER_ensures(n == 4 ==> __CPROVER_return_value == ((DIG(p[0]) && DIG(p[1]) && DIG(p[2]) && DIG(p[3])) ? (p[0] - '0') * 1000 + (p[1] - '0') * 100 + (p[2] - '0') * 10 + (p[3] - '0') : -1000000))
__CPROVER_ensures(n == 0 ==> __CPROVER_return_value == 0)
__CPROVER_assigns()
'''
parseInt = Unit(
    'parseInt_anytext', 'C19',
    cuts=[ISDIG_CUT(), Cut('pi', DC, r'^int parseInt\(const char\* p, int n\)\s*$',
                           loops=[(r'for\s*\(', 0, '''
  __CPROVER_assigns(i, x, k)
  __CPROVER_loop_invariant(-1 <= i && i <= n - 1)
  __CPROVER_decreases(i + 1)
''')])],
    text=PRE + ISDIG + r'''
int parseInt(const char* p, int n)
__CPROVER_requires(0 <= n && n <= NMAX && __CPROVER_is_fresh(p, n > 0 ? n : 1))
__CPROVER_ensures(n == 0 ==> __CPROVER_return_value == 0)
__CPROVER_assigns()
@@pi@@
void vf_harness(void) { const char* p; int n; parseInt(p, n); VF_CANARY(); }
''',
    entry='parseInt', variants={'': ['-DNMAX=100000']}, checks=NO_OVF,
    desc='parseInt(p,n) for any n: reads exactly p[0..n), terminates',
    functions=['parseInt'],
    assumes=['parseInt: int arithmetic wraps for n > 9 digits (signed-overflow check off for this unit; outside the property)'],
)
# up to 9 digits always fit an int: a run of 1..9 digits (e.g. the fraction of a second given to nanoseconds) is a number, never the error value
ALLDIG_ENSURES = '#define DG(i) (n <= (i) || DIG(p[i]))\n__CPROVER_ensures((DG(0) && DG(1) && DG(2) && DG(3) && DG(4) && DG(5) && DG(6) && DG(7) && DG(8)) ==> (__CPROVER_return_value >= 0 && __CPROVER_return_value <= 999999999))\n'
parseInt_value = Unit(
    'parseInt_value', 'C19',
    cuts=[ISDIG_CUT(), Cut('pi', DC, r'^int parseInt\(const char\* p, int n\)\s*$')],
    text=PRE + ISDIG + r'''
int parseInt(const char* p, int n)
''' + PARSEINT_CONTRACT.replace('__CPROVER_r_ok(p, n)', '__CPROVER_is_fresh(p, 10) && n <= 9').replace('__CPROVER_assigns()', ALLDIG_ENSURES + '__CPROVER_assigns()') + r'''@@pi@@
void vf_harness(void) { const char* p; int n; parseInt(p, n); VF_CANARY(); }
''',
    entry='parseInt', variants={'': ['-DNMAX=9']}, unwind=11,
    desc='parseInt(p,n), n <= 9 (complete unwinding): the contract used at the call sites of the ISO parser: value of 0/2/4 digits, -1000000 on a non-digit, never below -1000000, no overflow',
    functions=['parseInt'],
)

date_parse = Unit(
    'Date_parse_iso', 'C19',
    cuts=[ISDIG_CUT(), Cut('dp', DC, r'^Date::Date\(const String& t\)\s*$',
        rules=[(r'if \(t\[0\] > \'A\' && t\[0\] < \'Z\'\)[^\n]*\n\s*\{[\s\S]*?construct\(UTC, y, mo, d, h, m, s\);\s*return;\s*\}',
                "if (vf_t[0] > 'A' && vf_t[0] < 'Z') { VF_HTTP_BRANCH_DROPPED; return; }", 1),
               (r'\bt\.length\(\)', 'g_len', None), (r'\bt\.data\(\)', 'vf_t', None), (r'(?<![\w.])t\[', 'vf_t[', None),
               (r'\b_t\b', 'g_t', None), (r'\bnan\(\)', 'vf_nan()', None), (r'pow\(10\.0, 1-i\)', 'vf_pow10(1 - i)', 1),
               (r'construct\(local \? LOCAL : UTC, y, m, d, h, mi, s\);', 'Date_construct(local, y, m, d, h, mi, s);', 1),
               (r'(g_t \+= tz \* 60 \+ ms;)', r'g_tz = tz; \1', None)],
        loops=[(r'while\s*\(myisdigit', 0, '''
  __CPROVER_assigns(i)
  __CPROVER_loop_invariant(1 <= i && i <= g_len - DOFF(p, vf_t))
  __CPROVER_decreases(g_len - DOFF(p, vf_t) - i)
''')])],
    text=PRE + ISDIG + r'''
#define DOFF(a, b) ((long)__CPROVER_POINTER_OFFSET(a) - (long)__CPROVER_POINTER_OFFSET(b))
#define VF_HTTP_BRANCH_DROPPED
double g_t, g_base; int g_len, g_tz;   /* g_tz: the zone correction in minutes that is added to the instant */
int g_local, g_y, g_m, g_d, g_h, g_mi, g_s, g_constructed;
double nondet_double(void);
static double vf_nan(void) { return nondet_double(); }
static double vf_pow10(int e) { double r = nondet_double(); __CPROVER_assume(r >= 0.0 && r <= 1.0); return r; }   /* pow(10, e), e <= 0 (libm, trusted) */
/* Date::construct: its result for these fields is g_base (any double); the fields are recorded */
static void Date_construct(bool local, int y, int m, int d, int h, int mi, int s) { g_local = local; g_y = y; g_m = m; g_d = d; g_h = h; g_mi = mi; g_s = s; g_constructed = 1; g_t = g_base; }
int parseInt(const char* p, int n)
''' + PARSEINT_CONTRACT + r''';
#define D2(i) ((vf_t[i] - '0') * 10 + (vf_t[(i) + 1] - '0'))
#define SHAPE (vf_t[4] == '-' && vf_t[7] == '-' && vf_t[10] == 'T' && vf_t[13] == ':' && vf_t[16] == ':')
void Date_parse(const char* vf_t)
__CPROVER_requires(0 <= g_len && g_len <= NMAX && __CPROVER_is_fresh(vf_t, g_len + 1) && vf_t[g_len] == 0 && g_constructed == 0 && g_base == g_base)
/* "2017-05-18T03:24:12Z" shapes: the fields handed to construct are the digits of the text, and a numeric zone shifts the instant */
/* whenever a Date is constructed, the fields parsed from the text are non-negative and the time of day is in range */
__CPROVER_ensures(g_constructed ==> (g_y >= 0 && g_m >= 0 && g_d >= 0 && 0 <= g_h && g_h <= 23 && 0 <= g_mi && g_mi <= 59 && 0 <= g_s && g_s <= 59))
/* an ISO string with a numeric zone offset denotes the UTC instant shifted by that offset: "+hh:mm" / "+hhmm" / "+hh" are SUBTRACTED, "-.." added, "Z" nothing */
__CPROVER_ensures((g_len == 20 && SHAPE && vf_t[19] == 'Z' && g_constructed) ==> g_tz == 0)
__CPROVER_ensures((g_len == 25 && SHAPE && vf_t[22] == ':' && (vf_t[19] == '+' || vf_t[19] == '-') && g_constructed) ==> g_tz == (vf_t[19] == '+' ? -1 : 1) * (D2(20) * 60 + D2(23)))
__CPROVER_ensures((g_len == 24 && SHAPE && (vf_t[19] == '+' || vf_t[19] == '-') && g_constructed) ==> g_tz == (vf_t[19] == '+' ? -1 : 1) * (D2(20) * 60 + D2(22)))
__CPROVER_ensures((g_len == 22 && SHAPE && (vf_t[19] == '+' || vf_t[19] == '-') && g_constructed) ==> g_tz == (vf_t[19] == '+' ? -1 : 1) * (D2(20) * 60))
#ifdef ZONES
__CPROVER_ensures((g_len == 20 && SHAPE && vf_t[19] == 'Z' && g_constructed) ==> (g_y == (vf_t[0] - '0') * 1000 + (vf_t[1] - '0') * 100 + D2(2) && g_m == D2(5) && g_d == D2(8) && g_h == D2(11) && g_mi == D2(14) && g_s == D2(17) && !g_local && g_t == g_base))
__CPROVER_ensures((g_len == 25 && SHAPE && vf_t[19] == '+' && vf_t[22] == ':' && g_constructed) ==> g_t == g_base - (double)((D2(20) * 60 + D2(23)) * 60))
__CPROVER_ensures((g_len == 25 && SHAPE && vf_t[19] == '-' && vf_t[22] == ':' && g_constructed) ==> g_t == g_base + (double)((D2(20) * 60 + D2(23)) * 60))
__CPROVER_ensures((g_len == 24 && SHAPE && vf_t[19] == '+' && g_constructed) ==> g_t == g_base - (double)((D2(20) * 60 + D2(22)) * 60))
__CPROVER_ensures((g_len == 22 && SHAPE && vf_t[19] == '-' && g_constructed) ==> g_t == g_base + (double)(D2(20) * 60 * 60))
__CPROVER_ensures((g_len == 19 && SHAPE && g_constructed) ==> g_local)
#endif
__CPROVER_assigns(g_t, g_tz, g_local, g_y, g_m, g_d, g_h, g_mi, g_s, g_constructed)
@@dp@@
void vf_harness(void) { const char* t; Date_parse(t); VF_CANARY(); }
''',
    entry='Date_parse', replace=['parseInt'], variants={'': ['-DNMAX=100000'], 'ZONES': ['-DNMAX=100000', '-DZONES']}, checks=NO_OVF, timeout=900,
    desc='Date(const String&) ISO branch on ANY NUL-terminated text: every p[i]/parseInt read within the text, fraction loop terminates; for the '
         'extended shapes the fields are the text digits and +hh:mm / -hh:mm / +hhmm / -hh zones shift the instant by that offset ("+" zones are subtracted)',
    functions=['Date::Date(const String&) (ISO 8601 branch)'],
    trusted=['pow(10, e) stub returns a value in [0,1]; Date::construct stub (its day arithmetic is unit calendar_fields_bijection)'],
    assumes=['the HTTP-date branch (split(), Map lookups) is dropped from the extracted text: not decided'],
)
UNITS += [parseInt, parseInt_value, date_parse]

date_parse.thorough_variants = ['ZONES']

# The WHOLE Date::calc with the real floating-point entry expressions (no R12), for instants t = 86400*day + sec, sec an integer number of seconds
calc_whole = Unit(
    'Date_calc_whole_float', 'C19',
    cuts=[Cut('yft', DC, r'^static int yearFromTime\(double t\)\s*$'), MONTHS(), LEAPM(), Cut('m', DC, r'^#define timeFromYearAsDays\(y\)', kind='define'),
          Cut('ily', DC, r'^#define isLeapYear\(t\)', kind='define'), Cut('dwy', DC, r'^#define dayWithinYear\(t, year\)', kind='define'),
          Cut('sid', DC, r'^#define secsInDay', kind='define'),
          Cut('calc', DC, r'^DateData Date::calc\(double t\)\s*$', rules=[(r'DateData date;', '', 1), (r'memset\(&date, 0, sizeof\(date\)\);', '', 1), (r'return date;', 'return;', None)])],
    text=PRE + r'''
typedef struct DateData { int year, month, day, hours, minutes, seconds, weekDay; } DateData;
@@sid@@
@@diy@@
@@m@@
@@ily@@
@@dwy@@
@@md@@
static int yearFromTime(double t) @@yft@@
DateData date;
static void Date_calc(double t) @@calc@@
int nondet_int(void);
void vf_harness(void) {
  int day = nondet_int(), sec = nondet_int();
  __CPROVER_assume(DAY_LO <= day && day <= DAY_HI && 0 <= sec && sec < 86400);
  double t = (double)day * 86400.0 + (double)sec;
  Date_calc(t);
  int leap = SPEC_IS_LEAP(date.year) ? 1 : 0;
  __CPROVER_assert(1 <= date.year && date.year <= 9999 && 1 <= date.month && date.month <= 12 && 1 <= date.day && date.day <= 31, "fields in range");
  __CPROVER_assert(SPEC_DAYS_FROM_YEAR(date.year) + SPEC_CUM_DAYS[leap][date.month] + date.day - 1 == day, "year/month/day are those of the day containing t (floating entry floor(t/86400) included)");
  __CPROVER_assert(date.weekDay == (((day + 4) % 7) + 7) % 7, "weekday of the day containing t, also before 1970");
  VF_CANARY();
}
''',
    entry=None, floor=3, expect=['assertion'], unwind=15, timeout=1500, tier='thorough',
    variants={'y1969_1971': ['-DDAY_LO=-366', '-DDAY_HI=730']},
    kind='bounded', bound='days of 1969..1971 (both signs of t), every integer second',
    desc='the whole Date::calc in floating point, real yearFromTime entry included: year/month/day/weekday for every second of 1969-1971',
    functions=['Date::calc', 'yearFromTime (floating entry)'],
)
UNITS += [calc_whole]

# The tail of Date::calc (time of day and weekday) as written, in floating point, for EVERY day of years 0001..9999 and every integer second of the day.
# The cut is the statement range from the rounding bias to the weekday fix-up, so it does not depend on how the expressions in between are spelled.
calc_tail = Unit(
    'Date_calc_tail_float', 'C19',
    cuts=[Cut('tail', DC, r'(t \+= 0\.0005;[\s\S]*?date\.weekDay \+= 7;)', kind='expr')],
    text=PRE + r'''
typedef struct DateData { int year, month, day, hours, minutes, seconds, weekDay; } DateData;
DateData date;
int nondet_int(void);
void vf_harness(void) {
  int day = nondet_int(), sec = nondet_int();
  __CPROVER_assume(DAY_LO <= day && day <= DAY_HI && 0 <= sec && sec < 86400);
  double t = (double)day * 86400.0 + (double)sec;
  @@tail@@
  __CPROVER_assert(date.weekDay == (((day + 4) % 7) + 7) % 7, "weekday of the day containing t, for every day of years 0001..9999 (1970-01-01 was a Thursday)");
  VF_CANARY();
}
''',
    entry=None, floor=1, expect=['assertion'], timeout=3000,
    replay=replay.from_trace('C19/driver.cpp', ['day', 'sec'], lambda v: ['instant', v['day'], v['sec']]),
    variants={'d400': ['-DDAY_LO=-400', '-DDAY_HI=400'], 'NEG': ['-DDAY_LO=SPEC_DAY_MIN', '-DDAY_HI=0'],
              'POS1': ['-DDAY_LO=0', '-DDAY_HI=733000'], 'POS2': ['-DDAY_LO=733000', '-DDAY_HI=1466000'], 'POS3': ['-DDAY_LO=1466000', '-DDAY_HI=2199000'], 'POS4': ['-DDAY_LO=2199000', '-DDAY_HI=SPEC_DAY_MAX']},
    variant_kind={'d400': ('bounded', 'days -400..400 around 1970-01-01 (both signs of t), every integer second')},
    desc='weekday computation at the end of Date::calc in floating point as written (bias, t/86400, floor/truncation, % 7 fix-up), every integer second of the day; quick: days -400..400; thorough: every day of years 0001..9999',
    assumes=['hours/minutes/seconds extraction (fract arithmetic) is executed but NOT decided: the same harness with an h/m/s assertion did not finish in 1500 s even for 800 days'],
    functions=['Date::calc (time of day, weekDay)'],
)
calc_tail.thorough_variants = ['NEG', 'POS1', 'POS2', 'POS3', 'POS4']   # together: every day of years 0001..9999 (about 20 min each, run in parallel)
UNITS += [calc_tail]

# ---- toString(FULL): the millisecond field is a number 0..999 for EVERY instant (also before 1970, where the fractional part must be taken with floor, not towards zero)
ms_field = Unit(
    'Date_toString_ms', 'C19',
    cuts=[Cut('ms', DC, r'case FULL:[^;]*?(int\([^;]*?\) % 1000)\);', kind='expr', rules=[(r'\b_t\b', 'vf_t', None), (r'int\(', '(int)(', 1), (r'\bfmod\(', 'vf_fmod(', None)]),   # CBMC's own fmod model is not ISO C (measured: fmod(-2.75, 1) != -0.75)
          Cut('fract', 'include/asl/defs.h', r'^inline T fract\(T x\) ')],
    text=PRE + r'''
#include <math.h>
static double fract(double x) @@fract@@
static double vf_fmod(double x, double y) { return x - y * trunc(x / y); }      /* ISO C 7.12.10.1 for finite x, y != 0 without overflow */
double nondet_double(void);
void vf_harness(void) {
  double vf_t = nondet_double(); __CPROVER_assume(vf_t >= -62135596800.0 && vf_t <= 253402300800.0);        /* years 0001..9999 */
  int ms = @@ms@@;
  __CPROVER_assert(0 <= ms && ms <= 999, "the millisecond field of the FULL format is 0..999 for every instant, before 1970 too");
  VF_CANARY();
}
''',
    entry=None, floor=1, expect=['assertion'], timeout=600,
    desc='Date::toString(FULL): the millisecond expression yields 0..999 for every instant of years 0001..9999 (negative times included)',
    functions=['Date::toString (FULL, millisecond field)'],
    trusted=['CBMC floating-point model of floor()'],
)
UNITS += [ms_field]

# ---- toString formats: in every numeric format the year is printed with 4 digits and the other fields with 2 (Date(String) reads them back by position)
fmt_unit = Unit(
    'Date_toString_formats', 'C19',
    cuts=[Cut('ts', DC, r'^String Date::toString\(Date::Format fmt, bool utc\) const\s*$',
              rules=[(r'if \(_t != _t\)\s*return "\?";', '', 1), (r'DateData d = calc\([^;]*\);', '', 1), (r'String\s+s;', '', 1),
                     (r's = String::f\(("[^"]*")[^;]*;', r'VF_FMT(\1);', None), (r's = String\(\d+, ("[^"]*")[^;]*;', r'VF_FMT(\1);', None),
                     (r'case HTTP:\s*\{.*?\n\t\}', 'case HTTP: break;', 1), (r'\n\tif \(utc\).*\Z', '\n}', 1)])],
    text=PRE + r'''
enum { LONG, FULL, SHORT, DATE_ONLY, HTTP };
int g_fmts, g_bad;
/* a numeric date format starts with the year: %04i, and continues with %02i fields */
static void VF_FMT(const char* f) { g_fmts++;
  if (!(f[0] == '%' && f[1] == '0' && f[2] == '4' && f[3] == 'i')) g_bad = 1;
  __CPROVER_assert(f[0] == '%' && f[1] == '0' && f[2] == '4' && f[3] == 'i', "the year is written with four digits (years 1..999 too): the text is read back by position");
  int i = 4; if (f[i] == '-') i++; __CPROVER_assert(f[i] == '%' && f[i + 1] == '0' && f[i + 2] == '2' && f[i + 3] == 'i', "the month follows with two digits"); }
void Date_toString(int fmt)
__CPROVER_requires(g_fmts == 0 && g_bad == 0 && LONG <= fmt && fmt <= HTTP)
__CPROVER_ensures(!g_bad && (fmt != HTTP ==> g_fmts == 1))
__CPROVER_assigns(g_fmts, g_bad)
@@ts@@
void vf_harness(void) { int f; Date_toString(f); VF_CANARY(); }
''',
    entry='Date_toString', unwind=12,
    desc='Date::toString: each numeric format (LONG, FULL, SHORT, DATE_ONLY) prints the year with %04i and the month with %02i, so that Date(String) can read every year 0001..9999 back',
    functions=['Date::toString (format strings)'], trusted=['printf zero-padded widths (libc)'],
)
UNITS += [fmt_unit]

# replay: where the trace recipe of a unit does not reproduce (or there is none) the driver's battery runs on the real library: every day of 1582..2400 and every 97th day of
# years 1..9999 against a linear-search calendar, weekday and h:m:s around 1970 on both sides, ISO texts with 15 zone forms on 6 time stamps
_bat = replay.battery('C19/driver.cpp', ['battery'])
for _u in UNITS:
    _u.replay = replay.first_of(_u.replay, _bat) if _u.replay else _bat

# planted one-token breaks for the newer units (thorough tier: each must make an obligation fail)
ms_field.planted = [('ms', r'fract\(vf_t\)', 'vf_fmod(vf_t, 1.0)')]
