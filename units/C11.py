"""C11 - WebSocket framing (src/WebSocket.cpp)"""
from vf.core import Unit, Cut
from vf import replay

W = 'src/WebSocket.cpp'
PRE = r'''
#include "vf_base.h"
#include "ws.h"
int g_k;
/* ghost wire: StreamBuffer(ENDIAN_BIG) << x appends sizeof(x) bytes, most significant first
   (that is the contract proved for StreamBuffer::operator<< in C16, unit StreamBuffer_put) */
byte g_wire[16]; int g_wn;
static void W_U8(byte x) { __CPROVER_assert(g_wn + 1 <= 16, "wire"); g_wire[g_wn++] = x; }
static void W_U16(unsigned short x) { W_U8((byte)(x >> 8)); W_U8((byte)x); }
static void W_U32(unsigned x) { W_U16((unsigned short)(x >> 16)); W_U16((unsigned short)x); }
static void W_U64(unsigned long long x) { W_U32((unsigned)(x >> 32)); W_U32((unsigned)x); }
enum FrameType { FRAME_NONE, FRAME_TEXT, FRAME_BINARY, FRAME_CLOSE, FRAME_PING, FRAME_PONG };
'''
# the header part of send(): from the first statement to the masking key (everything before the payload copy)
SEND_HDR = lambda: Cut('hdr', W, r'^void WebSocket::send\(const byte\* p, int length, FrameType type\)\s*\{\s*((?:.|\n)*?)\n\tByteArray data\(p, length\);', kind='expr',
    rules=[(r'\b_closed\b', 'self_closed', None), (r'\b_isClient\b', 'self_isClient', None), (r'_random\.get\(\)', 'g_key', None),
           (r'StreamBuffer buf\(ENDIAN_BIG\);', 'g_wn = 0;', 1),
           (r'buf << b0;', 'W_U8(b0);', 1),
           (r'buf << byte\(masked \| \(byte\)len\);', 'W_U8((byte)(masked | (byte)len));', 1),
           (r'buf << byte\(masked \| \(byte\)126\) << \(unsigned short\)len;', '{ W_U8((byte)(masked | (byte)126)); W_U16((unsigned short)len); }', 1),
           (r'buf << byte\(masked \| \(byte\)127\) << len;', '{ W_U8((byte)(masked | (byte)127)); W_U64((unsigned long long)len); }', 1),
           (r'buf << mask;', 'W_U32(mask);', 1),
           (r'return;', '{ g_sent = 0; return; }', None)])

send_header = Unit(
    'WebSocket_send_header', 'C11',
    cuts=[SEND_HDR()],
    text=PRE + r'''
bool self_closed, self_isClient; unsigned g_key; int g_sent;
#define OPCODE(type) ((type) == FRAME_TEXT ? 1 : (type) == FRAME_BINARY ? 2 : (type) == FRAME_PONG ? 10 : (type) == FRAME_PING ? 9 : 8)
void WebSocket_send_header(const byte* p, int length, int type)
__CPROVER_requires(FRAME_NONE <= type && type <= FRAME_PONG && !self_closed && 1 <= length && 0 <= g_k && g_k < 14)
/* RFC 6455 5.2: every header byte, for EVERY payload length 1..2^31-1 (125/126 and 65535/65536 boundaries), client (masked) or server */
__CPROVER_ensures(g_sent ==> g_wn == SPEC_WS_HDRLEN(length, self_isClient))
__CPROVER_ensures((g_sent && g_k < g_wn) ==> g_wire[g_k] == SPEC_WS_HDR_BYTE(OPCODE(type), length, self_isClient, g_key, g_k))
__CPROVER_assigns(g_wire, g_wn, g_sent)
{
  g_sent = 1;
  @@hdr@@
}
void vf_harness(void) { const byte* p; int n, t; WebSocket_send_header(p, n, t); VF_CANARY(); }
''',
    entry='WebSocket_send_header',
    desc='WebSocket::send frame header for every length 1..2^31-1 and frame type, masked or not: FIN|opcode, 7/16/64-bit length form chosen at exactly 125/126 and 65535/65536, network byte order, masking key bytes',
    functions=['WebSocket::send (header)'],
    trusted=['StreamBuffer(ENDIAN_BIG) << x modelled by the big-endian wire helpers (contract proved in C16)', '_random.get() returns any 32-bit value'],
    planted=[('hdr', r'len < \(1 << 16\)', 'len <= (1 << 16)'), ('hdr', r'len < 126', 'len <= 126')],
)
UNITS = [send_header]

# _socket.read<T>(): the peer's next sizeof(T) wire bytes, big-endian value w, converted to T exactly as the template does (so a change of T is seen as a
# change of value, not as an extraction miss).  `note` records the wire value in ghost state where a contract needs it.
SOCK_READ_RULE = (r'_socket\.read<([\w ]+?)>\(\)', lambda m: 'R_' + m.group(1).strip().replace(' ', '_') + '()', '+')
def sock_read_stubs(note):
    out = ''
    for t, c, nd in [('unsigned short', 'unsigned short', 'nondet_u16'), ('short', 'short', 'nondet_u16'), ('Long', 'long long', 'nondet_i64'), ('ULong', 'unsigned long long', 'nondet_i64'),
                     ('int', 'int', 'nondet_u32'), ('unsigned', 'unsigned', 'nondet_u32'), ('unsigned int', 'unsigned', 'nondet_u32')]:
        out += 'static %s R_%s(void) { long long w = %s(); %s return (%s)w; }\n' % (c, t.replace(' ', '_'), nd, note, c)
    return out

# receive(): from reading the two header bytes to sizing the buffer.  Socket reads return ANY bytes (hostile peer);
# the obligation is the precondition of Array::resize (C01): the new length is >= 0.
RECV_HDR = lambda: Cut('rh', W, r'(_socket >> b0 >> mlen;(?:.|\n)*?buffer\.resize\(buffer\.length\(\) \+ len\);)', kind='expr',
    rules=[(r'DEBUG_LOG\([^;]*\);', '', None), (r'_socket >> b0 >> mlen;', 'b0 = R_U8(); mlen = R_U8();', 1),
           SOCK_READ_RULE, (r'\bLong len64\b', 'long long len64', None), (r'_socket >> mask;', 'mask = R_U32();', 1),
           (r'(?<![\w.>])closed\(\)', 'nondet_bool()', None), (r'return msg\.fix\(\);', '{ g_closed_ret = 1; return; }', None),
           (r'\b_closed\b', 'self_closed', None), (r'_socket\.close\(\);', 'g_socket_closed = 1;', None),
           (r'buffer\.resize\(buffer\.length\(\) \+ len\);', 'VF_RESIZE(g_buflen + len);', 1)])

recv_header = Unit(
    'WebSocket_receive_header', 'C11',
    cuts=[RECV_HDR()],
    text=PRE + r'''
bool nondet_bool(void); byte nondet_u8(void); unsigned short nondet_u16(void); unsigned nondet_u32(void); long long nondet_i64(void);
static byte R_U8(void) { return nondet_u8(); }                 /* the peer may send anything */
''' + sock_read_stubs('') + r'''static unsigned R_U32(void) { return nondet_u32(); }
int g_buflen, g_newlen, g_resized, g_closed_ret, g_socket_closed; bool self_closed;
#define VF_RESIZE(m) { g_newlen = (m); g_resized = 1; }
void WebSocket_receive_header(void)
__CPROVER_requires(g_buflen == 0 && g_resized == 0)
/* whatever the peer sends (7-bit, 16-bit or 64-bit length form, any sign bits), the payload buffer is never given a negative length */
__CPROVER_ensures(g_resized ==> g_newlen >= 0)
__CPROVER_assigns(g_newlen, g_resized, g_closed_ret, g_socket_closed, self_closed)
{
  byte b0, mlen;
  @@rh@@
}
void vf_harness(void) { WebSocket_receive_header(); VF_CANARY(); }
''',
    entry='WebSocket_receive_header',
    desc='WebSocket::receive frame header for ANY bytes from the peer: the decoded payload length is never negative when the buffer is sized (64-bit lengths with high bits set, reserved values)',
    functions=['WebSocket::receive (header decoding)'],
    trusted=['socket reads return arbitrary values (hostile peer)'],
)
UNITS += [recv_header]

# payload masking: the 32-bit-word XOR loop of send()/receive() against RFC 6455 5.3 (octet i XOR key[i mod 4])
MASK_LOOP = lambda: Cut('ml', W, r'\tif \(mask != 0\)\{\s*((?:.|\n)*?)\n\t\}\n\tif \(!_closed', kind='expr',
    rules=[(r'data\.resize\(data\.length\(\) \+ 4\);\s*data\.resize\(data\.length\(\) - 4\);', 'VF_CAPACITY_PLUS4;', 1),
           (r'data\.length\(\)', 'vf_len', None), (r'data\.data\(\)', 'vf_data', None), (r'swapBytes\(mask\);', 'mask = vf_bswap32(mask);', 1)])
mask_loop = Unit(
    'WebSocket_mask_loop', 'C11',
    cuts=[MASK_LOOP()],
    text=PRE + r'''
#define LMAX 13
static unsigned vf_bswap32(unsigned x) { return (x >> 24) | ((x >> 8) & 0xff00u) | ((x << 8) & 0xff0000u) | (x << 24); }   /* swapBytes<unsigned>: proved in C16 */
unsigned nondet_u32(void); int nondet_int(void); byte nondet_u8(void);
void vf_harness(void) {
  int vf_len = nondet_int(); __CPROVER_assume(1 <= vf_len && vf_len <= LMAX);
  unsigned mask = nondet_u32(), key = mask;
  /* Array<byte> data(p, length); resize(+4); resize(-4): capacity >= length + 4 and length unchanged (contract of Array::resize, C01) */
  byte* vf_data = malloc(vf_len + 4); __CPROVER_assume(vf_data != 0); byte orig[LMAX + 4];
  for (int i = 0; i < LMAX + 4; i++) { orig[i] = nondet_u8(); if (i < vf_len + 4) vf_data[i] = orig[i]; }
#define VF_CAPACITY_PLUS4
  __CPROVER_assume(0 <= g_k && g_k < vf_len);
  @@ml@@
  __CPROVER_assert(vf_data[g_k] == (byte)(orig[g_k] ^ SPEC_WS_KEY_BYTE(key, g_k % 4)), "payload octet i is XORed with octet (i mod 4) of the masking key as transmitted (RFC 6455 5.3)");
  VF_CANARY();
}
''',
    entry=None, unwind=20, floor=5, expect=['assertion'], kind='bounded', bound='payload length <= 13 (all residues mod 4, >= 3 words)',
    desc='the word-wise masking loop of WebSocket::send on a little-endian host equals RFC 6455 per-octet masking with the key bytes in transmission order; all word accesses stay within length+4 bytes',
    functions=['WebSocket::send (masking loop)'],
    trusted=['Array resize(+4)/resize(-4) leaves capacity >= length+4 (C01 resize contract); swapBytes<unsigned> = byte reversal (C16)'],
)
UNITS += [mask_loop]

# one iteration of the receive loop: a frame's payload is appended to the message exactly once (fragmented messages)
RECV_BODY = lambda: Cut('rb', W, r'^\twhile \(!haveMsg\)\s*$',
    rules=[(r'DEBUG_LOG\([^;]*\);', '', None),
           (r'ByteArray buffer;', 'int vf_buflen = 0; /* ByteArray buffer; : empty */', None),
           (r'_socket >> b0 >> mlen;', 'b0 = R_U8(); mlen = R_U8();', 1),
           SOCK_READ_RULE, (r'\bLong len64\b', 'long long len64', None),
           (r'_socket >> mask;', 'mask = R_U32();', 1),
           (r'(?<![\w.>])closed\(\)', 'nondet_bool()', None), (r'return msg\.fix\(\);', '{ g_returned = 1; return; }', None),
           (r'\b_closed\b', 'self_closed', None), (r'_socket\.close\(\);', ';', None),
           (r'buffer\.resize\(buffer\.length\(\) \+ len\);', '{ __CPROVER_assert(vf_buflen + len >= 0, "Array::resize: new length is non-negative"); vf_buflen = vf_buflen + len; }', 1),
           (r'_socket\.read\(buffer\.data\(\) \+ buffer\.length\(\) - len, len\);', '{ __CPROVER_assert(len <= vf_buflen, "read into the buffer"); g_read += len; }', 1),
           (r'swapBytes\(mask\);\s*buffer\.resize\(buffer\.length\(\) \+ 4\);\s*buffer\.resize\(buffer\.length\(\) - 4\);\s*int n = buffer\.length\(\) / 4 \+ 1;\s*for \(int i = 0; i < n; i\+\+\)\s*\{\s*\(\(unsigned\*\)buffer\.data\(\)\)\[i\] \^= mask;\s*\}',
            'g_unmasked += vf_buflen; /* unmasking loop: unit WebSocket_mask_loop */', 1),
           (r'msg\.append\(buffer\);', 'g_appended += vf_buflen;', 1),
           (r'_code = \(buffer\[0\] << 8\) \| buffer\[1\];\s*buffer\.remove\(0, 2\);\s*msg = buffer;', '{ vf_buflen -= 2; g_msglen = vf_buflen; }', 1),
           (r'buffer\.length\(\) >= 2', 'vf_buflen >= 2', 1),
           (r'(?<![\w.>])send\(buffer\.data\(\), buffer\.length\(\), FRAME_PONG\);', 'g_pong = vf_buflen;', 1), (r'buffer\.clear\(\);', 'vf_buflen = 0;', 1)])

recv_iter = Unit(
    'WebSocket_receive_frame', 'C11',
    cuts=[RECV_BODY()],
    text=PRE + r'''
bool nondet_bool(void); byte nondet_u8(void); unsigned short nondet_u16(void); unsigned nondet_u32(void); long long nondet_i64(void); int nondet_int(void);
byte g_hdr[2]; int g_nread; long long g_ext;
static byte R_U8(void) { byte b = nondet_u8(); if (g_nread < 2) g_hdr[g_nread] = b; g_nread++; return b; }
''' + sock_read_stubs('g_ext = w;') + r'''static unsigned R_U32(void) { return nondet_u32(); }
int g_read, g_unmasked, g_appended, g_msglen, g_pong, g_returned; bool self_closed;
int vf_buflen;     /* if the per-frame buffer were not created inside the loop, its content from the previous frame would still be there: any length */
/* RFC 6455 5.2 payload length of the frame just read */
#define FRAME_LEN ((g_hdr[1] & 0x7f) < 126 ? (long long)(g_hdr[1] & 0x7f) : g_ext)
#define OPC (g_hdr[0] & 0x0f)
void WebSocket_receive_frame(void)
__CPROVER_requires(vf_buflen >= 0 && vf_buflen <= 1000000 && g_nread == 0 && g_read == 0 && g_unmasked == 0 && g_appended == 0 && g_returned == 0 && g_ext == 0)
/* a data frame (continuation/text/binary) contributes exactly its own payload, once: read, unmasked iff masked, appended */
__CPROVER_ensures((!g_returned && g_nread == 2 && OPC <= 2) ==> (g_appended == FRAME_LEN && g_read == FRAME_LEN))
__CPROVER_ensures((!g_returned && g_nread == 2 && (g_hdr[1] & 0x80)) ==> g_unmasked == FRAME_LEN)
__CPROVER_ensures((!g_returned && g_nread == 2 && OPC > 2) ==> g_appended == 0)
__CPROVER_assigns(g_hdr, g_nread, g_ext, g_read, g_unmasked, g_appended, g_msglen, g_pong, g_returned, self_closed)
{
  bool haveMsg = false; int _code; byte b0, mlen;
  @@rb@@
}
void vf_harness(void) { WebSocket_receive_frame(); VF_CANARY(); }
''',
    entry='WebSocket_receive_frame',
    desc='one iteration of the WebSocket::receive loop for ANY frame bytes: the payload buffer starts empty for every frame, so a (fragment) frame adds exactly its payload to the message once; '
         'lengths never negative; control frames add nothing',
    functions=['WebSocket::receive (frame loop body)'],
    trusted=['socket reads return arbitrary values; Array length arithmetic modelled by a ghost length (C01 contracts)'],
)
UNITS += [recv_iter]

# the handshake accept key is encodeBase64(SHA1::hash(key + GUID)) (RFC 6455 4.2.2): the C15 units of those two functions serve this clause
from units.C15 import encodeBase64 as _b64, sha_macros as _sham, sha_update as _shau
UNITS += [_b64, _sham, _shau]

# ---- WebSocketMsg -> String / Var: the text handed to the application has the length of the message (a text message may contain U+0000)
msg_string = Unit(
    'WebSocketMsg_to_String', 'C11',
    cuts=[Cut('ms', W, r'^WebSocketMsg::operator String\(\) const\s*$',
              rules=[(r'String\(_data\)', 'STRING_FROM_BYTES()', None), (r'String\(\*\*this\)', 'STRING_FROM_CSTR()', None), (r'String\(\(const char\*\)_data\.data\(\)\)', 'STRING_FROM_CSTR()', None), (r'return ([^;]*);', r'{ g_reslen = \1; return; }', 1)]),
          Cut('mv', W, r'^WebSocketMsg::operator Var\(\) const\s*$',
              rules=[(r'String\(_data\)', 'STRING_FROM_BYTES()', None), (r'\*\*this', 'STRING_FROM_CSTR()', None), (r'Json::decode\(([^;]*)\)', r'\1', 1), (r'return ([^;]*);', r'{ g_reslen = \1; return; }', 1)])],
    text=PRE + r'''
int g_len, g_first_nul, g_reslen;
/* String(const Array<byte>&): length = the array's length (String.h);  String(const char*): length = strlen = offset of the first zero byte */
static int STRING_FROM_BYTES(void) { return g_len; }
static int STRING_FROM_CSTR(void) { return g_first_nul < g_len ? g_first_nul : g_len; }
static void msg_to_String(void) @@ms@@
static void msg_to_Var(void) @@mv@@
int nondet_int(void);
void vf_harness(void) {
  g_len = nondet_int(); g_first_nul = nondet_int(); __CPROVER_assume(0 <= g_len && g_len <= 1000000 && 0 <= g_first_nul && g_first_nul <= g_len);   /* position of the first 0x00 in the payload (g_len: none) */
  g_reslen = -1; msg_to_String();
  __CPROVER_assert(g_reslen == g_len, "the String made from a message has the message's length, also when the payload contains a zero byte");
  g_reslen = -1; msg_to_Var();
  __CPROVER_assert(g_reslen == g_len, "the text given to the JSON decoder is the whole message");
  VF_CANARY();
}
''',
    entry=None, floor=2, expect=['assertion'],
    desc='WebSocketMsg::operator String / operator Var: the text is built from the stored bytes with their length, not from a C string (payloads containing 0x00 arrive intact)',
    functions=['WebSocketMsg::operator String', 'WebSocketMsg::operator Var'],
    trusted=['String(const Array<byte>&) takes the array length; String(const char*) takes strlen'],
)

# ---- WebSocketServer::serve: the header names of the handshake are keyed case-insensitively (HTTP header names are case-insensitive: "sec-websocket-key" is the same header)
# the region between the "no colon" exit and the value extraction computes the dictionary key `cname` from the line; it is run on two lines that differ only in case
hs_names = Unit(
    'WebSocketServer_header_names', 'C11',
    cuts=[Cut('hn', W, r'client\.close\(\);\s*return;\s*\}\s*\n((?:.|\n)*?)\n\s*String value = ', kind='expr',
              rules=[(r'String name = line\.substring\(0, c\);', 'const char* name = line_buf; int name_len = c;', None), (r'String cname;', 'cname_len = 0;', None),
                     (r'String cname = line\.substring\(0, c\);[^\n]*', 'for (int vf_i = 0; vf_i < c; vf_i++) cname_buf[vf_i] = line_buf[vf_i]; cname_len = c;', None),
                     (r'cname << char\(([^;]*)\);', r'cname_buf[cname_len++] = (char)(\1);', None), (r'\bname\.length\(\)', 'name_len', None),
                     (r'\bcname\.length\(\)', 'cname_len', None), (r'\bcname\[', 'cname_buf[', None)])],
    text=PRE + r'''
static int toupper(int c) { return (c >= 'a' && c <= 'z') ? c - 32 : c; }
static int tolower(int c) { return (c >= 'A' && c <= 'Z') ? c + 32 : c; }
static int isalnum(int c) { return (c >= 'a' && c <= 'z') || (c >= 'A' && c <= 'Z') || (c >= '0' && c <= '9'); }
#define NL 8
int nondet_int(void); char nondet_char(void);
static void header_key(const char* line_buf, int c, char* cname_buf, int* cname_len_p) { int cname_len = 0; @@hn@@ *cname_len_p = cname_len; }
void vf_harness(void) {
  char a[NL], b[NL], ka[NL + 1], kb[NL + 1]; int n = nondet_int(), la = -1, lb = -1; __CPROVER_assume(1 <= n && n <= NL);
  for (int i = 0; i < NL; i++) { a[i] = nondet_char(); b[i] = nondet_char(); __CPROVER_assume(i >= n || (a[i] > 0 && a[i] != ':' && tolower(a[i]) == tolower(b[i]))); }
  header_key(a, n, ka, &la); header_key(b, n, kb, &lb);
  __CPROVER_assert(la == n && lb == n, "the key has the length of the name");
  int k = nondet_int(); __CPROVER_assume(0 <= k && k < n);
  __CPROVER_assert(ka[k] == kb[k], "header names that differ only in the case of ASCII letters get the same key (a handshake with lower-case header names is the same handshake)");
  VF_CANARY();
}
''',
    entry=None, unwind=10, floor=2, expect=['assertion'], kind='bounded', bound='header names of 1..8 characters',
    desc='WebSocketServer::serve: the dictionary key computed for a handshake header name does not depend on the case of its letters (first letter included)',
    functions=['WebSocketServer::serve (header name canonicalisation)'],
    trusted=['toupper/tolower/isalnum in the C locale; String operations of the region rewritten to a character buffer (R10)'],
)
UNITS += [msg_string, hs_names]

# ---- WebSocketMsg::fix(): keeps a NUL behind the payload (so that it can be read as a C string) WITHOUT changing the payload - whatever its last byte is
fix_unit = Unit(
    'WebSocketMsg_fix', 'C11',
    cuts=[Cut('fx', W, r'^WebSocketMsg& WebSocketMsg::fix\(\)\s*$',
              rules=[(r'_data << byte\(0\);', 'DATA_APPEND0();', None), (r'_data\.resize\(_data\.length\(\) - 1\);', 'DATA_RESIZE(g_len - 1);', None), (r'_data\.length\(\)', 'g_len', None),
                     (r'_data\.last\(\)', 'g_last', None), (r'_data\[g_len - 1\]', 'g_last', None), (r'return \*this;', 'return;', None)])],
    text=PRE + r'''
int g_len, g_len0, g_nul_behind; byte g_last;
static void DATA_APPEND0(void) { g_len++; g_nul_behind = 0; }                                        /* _data << byte(0): one more element, a zero */
static void DATA_RESIZE(int m) { __CPROVER_assert(m >= 0 && m <= g_len, "Array::resize: shrinking to a non-negative length"); if (m == g_len - 1 && g_nul_behind == 0) g_nul_behind = 1; else if (m < g_len) g_nul_behind = 0; g_len = m; }
void WebSocketMsg_fix(void)
__CPROVER_requires(0 <= g_len && g_len <= 1000000000 && g_len0 == g_len && g_nul_behind == 0)
/* the payload keeps its length for EVERY content (a binary message may end in 0x00, a one-byte {0x00} message is not empty); a NUL sits in the storage right behind it */
__CPROVER_ensures(g_len == g_len0 && g_nul_behind == 1)
__CPROVER_assigns(g_len, g_nul_behind)
@@fx@@
void vf_harness(void) { WebSocketMsg_fix(); VF_CANARY(); }
''',
    entry='WebSocketMsg_fix',
    desc='WebSocketMsg::fix(): payload length unchanged for any payload (also one ending in 0x00), a terminating NUL kept behind it',
    functions=['WebSocketMsg::fix'], trusted=['Array << appends one element; resize(length-1) keeps the storage (C01)'],
)
# the socket loop that WebSocket::receive reads payloads with (C10 units): a payload arriving in pieces never takes bytes of the frames queued behind it
from units.C10 import sock_read as _sr11, sock_read_small as _srs11
UNITS += [fix_unit, _sr11, _srs11]

# replay: where the trace recipe of a unit does not reproduce (or there is none) the driver's battery runs on the real library: a raw client against the real WebSocketServer,
# handshake accept key, one masked message of every length-form boundary (125/126/127, 32767/32768, 65535/65536) echoed back, then messages fragmented into 2, 3 and 5 frames
_bat = replay.battery('C11/driver.cpp', ['battery'])
for _u in UNITS:
    if _u.name.startswith('WebSocket'):
        _u.replay = replay.first_of(_u.replay, _bat) if _u.replay else _bat

# planted one-token breaks for the newer units (thorough tier: each must make an obligation fail)
msg_string.planted = [('ms', r'STRING_FROM_BYTES\(\)', 'STRING_FROM_CSTR()')]
hs_names.planted = [('hn', r'int k = 0', 'int k = 1')]
