"""C07 - Xml::decode: one character step, and the escape/unescape lemma (src/Xml.cpp)"""
from vf.core import Unit, Cut
from vf import replay

XM, S = 'src/Xml.cpp', 'src/String.cpp'
from vf.core import DEFAULT_CHECKS
NO_OVF = [c for c in DEFAULT_CHECKS if c != '--signed-overflow-check'] + ['--no-signed-overflow-check']   # anglecount++ may wrap after 2^31 '<' (harmless)

STEP_RULES = [
    # the while condition and locals of Xml::decode become parameters / ghost state of the step
    (r'elems\.push\(Xml\(b\)\);', 'XE_PUSH();', None),
    (r'Xml e = elems\.popget\(\);\s*elems\.top\(\) << e;', 'XE_POPGET(); XE_TOP_APPEND_XML(1);', None),
    (r'elems\.top\(\) << XmlText\(b\);', 'XE_TOP_APPEND_XML(0);', None), (r'elems\.top\(\) << b;', 'XE_TOP_APPEND_STRING();', None), (r'elems\.top\(\)\.setAttr\(atname, b\);', 'XE_TOP_USE();', None),
    (r'b != elems\.top\(\)\.tag\(\)', 'XE_TOP_TAG_DIFFERS()', None), (r'elems\.length\(\)', 'g_ed', None),
    (r'return Xml\(\);', '{ g_null = 1; return; }', None),
    (r'for \(int i = 0; i < b\.length\(\); i\+\+\)\s*if \(b\[i\] != \' \' && b\[i\] != \'\\n\' && b\[i\] != \'\\r\' && b\[i\] != \'\\t\'\) \{\s*(XE_TOP_APPEND_\w+\(\d?\);)\s*break;\s*\}', r'if (nondet_bool()) \1', None),
    (r'int code = \(ref\[1\] == \'x\'\) \? \(int\)ref\.substring\(2\)\.hexToInt\(\) : \(int\)ref\.substring\(1\);', 'int code = REF_CODE();', None),
    (r'b << entities\.get\(ref, \'\?\'\);', 'B_APPEND(REF_ENTITY());', None), (r'b << bytes;', 'B_APPEND_STR(bytes);', None),
    (r'\*\(p - 2\)', 'g_prev', None), (r'myisalpha\(b\[0\]\)', 'myisalpha(g_b0)', None), (r'b\.length\(\)', 'g_blen', None), (r'\bb\[([^\]]+)\]', r'B_AT(\1)', None),   # any other index into the token buffer
    (r'atname = b;', ';', None), (r'\bb = "";', 'B_CLEAR();', None), (r'\bb = c;', '{ B_CLEAR(); B_APPEND(c); }', None), (r'\bb << c;', 'B_APPEND(c);', None),
    (r'ref\[0\]', 'g_ref[0]', None), (r'\bref = c;', '{ g_reflen = 0; REF_APPEND(c); }', None), (r'\bref << c;', 'REF_APPEND(c);', None), (r'\bref = "";', 'g_reflen = 0;', None),
    (r'(?<![\w.>])state\b', 'XS->state', None), (r'(?<![\w.>])lastState\b', 'XS->lastState', None), (r'\banglecount\b', 'XS->anglecount', None),
]

XH = 'include/asl/Xml.h'
# what the two overloads of Xml::operator<< do to the child list and to the child's parent link (counted: g_children / g_parented), from their real bodies
def append_cuts():
    link = [(r'(\w+)\._\(\)->parent = (?:_\(\)|\w+);', 'g_parented++;', None), (r'(\w+)->parent = [^;]*;', 'g_parented++;', None), (r'return \*this;', 'return;', None)]
    return [Cut('append_xml', XH, r'^\tXml& operator<<\(const Xml& e\)\s*$', rules=[(r'_Xml\* (\w+) = _\(\);', '', None), (r'(?:_\(\)|\w+)->children << e;', 'g_children++;', 1), (r'\bif\s*\(\s*e\s*\)', 'if (vf_e_is_element)', None), (r'\bif\s*\(\s*!e\s*\)', 'if (!vf_e_is_element)', None)] + link),
            Cut('append_string', XM, r'^Xml& Xml::operator<<\(const String& t\)\s*$',
                rules=[(r'_Xml\* e = _\(\);', '', 1), (r'e->children\.length\(\) > 0 && e->children\.last\(\)\.isText\(\)', 'nondet_bool()', 1),
                       (r'e->children\.last\(\)\.as<XmlText>\(\)\.append\(t\);', ';', 1), (r'e->children << XmlText\(t\);', 'g_children++;   /* a new text node appended to the Array of children */', 1)] + link)]

def xml_cuts():
    return [Cut('states', XM, r'^\tenum State \{\s*$', kind='stmt', rules=[(r'^\tenum State', 'enum XState', 1)]),
            Cut('isspace', 'include/asl/defs.h', r'^inline bool myisspace\(char c\)\s*$'),
            Cut('utf32toUtf8', S, r'^int utf32toUtf8\(const int\* p, char\* u, int n\)\s*$'),
            Cut('step', XM, r'^\twhile \(char c = \*p\+\+\)\s*$', rules=STEP_RULES)] + append_cuts()

XML_C = r'''
#include "vf_base.h"
#include <ctype.h>
int g_k;
@@states@@
typedef struct XmlState { int state, lastState, anglecount; } XmlState;
/* ghost model of the locals of Xml::decode that are containers:
   Stack<Xml> elems -> depth g_ed (the anonymous root at the bottom has an empty tag; pushed elements have a non-empty tag);
   String b, ref    -> length + first characters;  entities -> the 5 predefined XML entities */
int g_ed, g_blen, g_reflen, g_null; char g_b0, g_blast, g_prev, g_ref[4];
bool nondet_bool(void); int nondet_int(void); char nondet_char(void);
static bool myisspace(char c) @@isspace@@
static bool myisalpha(char c) { return (c >= 'a' && c <= 'z') || (c >= 'A' && c <= 'Z'); }
static int utf32toUtf8(const int* p, char* u, int n) @@utf32toUtf8@@
static void XE_PUSH(void) { g_ed++; }
static void XE_POPGET(void) { __CPROVER_assert(g_ed >= 1, "Stack::popget on an empty element stack"); g_ed--; }
static void XE_TOP_USE(void) { __CPROVER_assert(g_ed >= 1, "Stack::top on an empty element stack"); }
int g_children, g_parented;     /* children added to some element / parent links set, in this step */
/* Xml::operator bool: the node is not null AND has a tag - true for elements, false for text nodes (their tag is empty) */
static void Xml_append_xml(bool vf_e_is_element) @@append_xml@@
static void Xml_append_string(void) @@append_string@@
static void XE_TOP_APPEND_XML(int is_element) { XE_TOP_USE(); Xml_append_xml(is_element != 0); }          /* elems.top() << <an Xml> */
static void XE_TOP_APPEND_STRING(void) { XE_TOP_USE(); Xml_append_string(); }    /* elems.top() << <a String> */
/* b != elems.top().tag(): the root's tag is empty, every other tag is not; equal lengths may or may not mean equal text */
static bool XE_TOP_TAG_DIFFERS(void) { __CPROVER_assert(g_ed >= 1, "Stack::top on an empty element stack"); if (g_ed == 1) return g_blen != 0; if (g_blen == 0) return true; return nondet_bool(); }
static void B_CLEAR(void) { g_blen = 0; }
/* b[i]: String::operator[] needs 0 <= i <= length; first and last characters are tracked, the others are arbitrary */
static char B_AT(int i) { __CPROVER_assert(0 <= i && i <= g_blen, "String::operator[] index within the length of the token buffer"); return i == g_blen ? (char)0 : i == 0 ? g_b0 : i == g_blen - 1 ? g_blast : nondet_char(); }
static void B_APPEND(char c) { if (g_blen == 0) g_b0 = c; g_blast = c; g_blen++; }
static void B_APPEND_STR(const char* s) { for (int i = 0; i < 5 && s[i]; i++) B_APPEND(s[i]); }
static void REF_APPEND(char c) { if (g_reflen < 4) g_ref[g_reflen] = c; g_reflen++; }
int g_code;
static int REF_CODE(void) { return g_code; }                               /* strtoul / atoi of the reference text: any int */
char g_entity;
#ifdef VF_ENTITY_TABLE
/* entities.get(ref, '?') with the five predefined entities that Xml::decode registers (XML 1.0 section 4.6) */
#define REFIS(a, b, c, d, n) (g_reflen == (n) && g_ref[0] == (a) && ((n) < 2 || g_ref[1] == (b)) && ((n) < 3 || g_ref[2] == (c)) && ((n) < 4 || g_ref[3] == (d)))
static char REF_ENTITY(void) { return REFIS('a','m','p',0,3) ? '&' : REFIS('a','p','o','s',4) ? '\'' : REFIS('g','t',0,0,2) ? '>' : REFIS('l','t',0,0,2) ? '<' : REFIS('q','u','o','t',4) ? '"' : '?'; }
#else
static char REF_ENTITY(void) { return g_entity; }                          /* entities.get(ref, '?'): any character */
#endif
/* one iteration of  while (char c = *p++)  of Xml::decode */
static void Xml_step(XmlState* XS, char c) { switch (XS->state) @@stepsw@@ if (XS->state == ERR) { g_null = 1; return; } }
#define ELEM_STATE(s) ((s) == WAIT_ATT || (s) == ATT_NAME || (s) == WAIT_EQUAL || (s) == WAIT_ATTVAL || (s) == ATT_VAL || (s) == ATT_VALSQ || (s) == SLASH)
#define INV(x) ( g_ed >= 1 && g_blen >= 0 && g_reflen >= 0 && (x)->state >= FREE && (x)->state <= ERR \
   && ((x)->lastState == FREE || (x)->lastState == ATT_VAL || (x)->lastState == ATT_VALSQ) \
   && (ELEM_STATE((x)->state) ==> g_ed >= 2) \
   && ((x)->lastState != FREE ==> (g_ed >= 2 && ((x)->state == ATT_VAL || (x)->state == ATT_VALSQ || (x)->state == REF_START || (x)->state == CHAR_REF))) \
   && ((x)->state == CHAR_REF ==> g_reflen >= 1) )
'''

def step_cut():
    # the body of the while loop is '{ switch (state) {...}  if (state == ERR) return Xml(); }': cut the switch block
    return Cut('stepsw', XM, r'^\t\tswitch \(state\)\s*$', rules=STEP_RULES)

step_safety = Unit(
    'Xml_decode_step_any_byte', 'C07',
    cuts=[c for c in xml_cuts() if c.name != 'step'] + [step_cut()],
    text=XML_C + r'''
void vf_step(XmlState* XS, char c)
__CPROVER_requires(__CPROVER_is_fresh(XS, sizeof(XmlState)) && c != 0 && INV(XS) && g_null == 0 && g_children == 0 && g_parented == 0 && g_ed < 1000000 && g_blen < 1000000 && g_reflen < 1000000)
/* for ANY byte in ANY configuration satisfying the invariant: the element stack never underflows (closing more than was opened),
   the scratch buffer of a character reference is large enough for every code, the invariant is re-established (or the document is rejected) */
__CPROVER_ensures(g_null || INV(XS))
/* every node the step adds to an element (a closed child element, a text node) gets its parent link: parent() of each child is the element that contains it */
__CPROVER_ensures(g_children == g_parented)
__CPROVER_assigns(*XS, g_ed, g_blen, g_reflen, g_null, g_b0, g_blast, g_ref, g_children, g_parented)
{ Xml_step(XS, c); }
void vf_harness(void) { XmlState* s; char c; vf_step(s, c); VF_CANARY(); }
''',
    entry='vf_step', unwind=8, timeout=600, checks=NO_OVF,
    desc='one step of Xml::decode for EVERY byte and EVERY configuration satisfying the invariant: element stack never underflows, character-reference buffer (bytes[5]) suffices for every 32-bit code, invariant preserved; '
         'by induction total and memory-safe on any byte string',
    functions=['Xml::decode (loop body)', 'Xml::operator<<(const Xml&)', 'Xml::operator<<(const String&)'],
    trusted=['Stack<Xml> modelled by its depth with the C01 top/pop preconditions; Strings b/ref by length + first characters; tag comparison abstracted (root tag empty, others non-empty)'],
)

# the WHOLE body of XmlCodec::escape(const String& s), run on one- and two-character strings
ESC_BODY = lambda: Cut('esc', XM, r'^void XmlCodec::escape\(const String& s\)\s*$',
                       rules=[(r'const char\* p = s;', 'const char* p = s_str;', None), (r'_xml << ("(?:[^"\\]|\\.)*");', r'OUT_STR(\1);', None), (r'_xml << c;', 'OUT_CH(c);', None),
                              (r'_xml << s;', 'OUT_STR(s_str);', None), (r'\bs\.length\(\)', '(int)strlen(s_str)', None), (r"\bs\.contains\(('(?:\\.|[^'\\])')\)", r'(strchr(s_str, \1) != 0)', None)])
escape_lemma = Unit(
    'xml_escape_roundtrip', 'C07',
    cuts=[c for c in xml_cuts() if c.name != 'step'] + [step_cut(), ESC_BODY()],
    text='#define VF_ENTITY_TABLE\n' + XML_C + r"""
char g_out[10]; int g_outlen;
static void OUT_CH(char c) { __CPROVER_assert(g_outlen < 9, "emit"); g_out[g_outlen++] = c; }
static void OUT_STR(const char* s) { for (int i = 0; i < 8 && s[i]; i++) OUT_CH(s[i]); }
static void XmlCodec_escape(const char* s_str) @@esc@@
void vf_harness(void) {
  char c = nondet_char(); __CPROVER_assume(c != 0);
  char d = nondet_char(); __CPROVER_assume(d == 0 || (d >= 'a' && d <= 'z'));      /* the byte alone, or followed by a plain letter */
  char text[3] = { c, d, 0 };
  int where = nondet_int(); __CPROVER_assume(0 <= where && where <= 2);      /* text content, "double-quoted" attribute value, 'single-quoted' attribute value */
  /* --- what XmlCodec::escape writes for the byte c --- */
  g_outlen = 0;
  XmlCodec_escape(text);
  /* --- fed to the decoder inside text / an attribute value --- */
  XmlState x; x.anglecount = 0; x.state = where == 0 ? FREE : where == 1 ? ATT_VAL : ATT_VALSQ; x.lastState = x.state;
  g_ed = 2; g_blen = 0; g_reflen = 0; g_null = 0;
  for (int i = 0; i < g_outlen; i++) Xml_step(&x, g_out[i]);
  __CPROVER_assert(!g_null && x.state == (where == 0 ? FREE : where == 1 ? ATT_VAL : ATT_VALSQ), "the decoder stays inside the text / attribute value");
  __CPROVER_assert(g_blen == (d ? 2 : 1) && g_b0 == c && (!d || g_blast == d), "exactly the original bytes are appended (markup characters come back from their entity references)");
  VF_CANARY();
}
""",
    entry=None, unwind=11, floor=4, expect=['assertion'], checks=NO_OVF,
    desc='for EVERY byte 1..255, in text and in attribute values: the text XmlCodec::escape writes for it (entity references for & < > \' ") is decoded back to exactly that byte and never ends the text/attribute',
    functions=['XmlCodec::escape (per character)', 'Xml::decode (FREE/ATT_VAL/REF_START/CHAR_REF states)'],
)
UNITS = [step_safety, escape_lemma]

# ---- XmlCodec::encode(e): the element structure it writes.  Output is abstracted to events; the recursion to "child i is encoded" (ghost index g_k);
# attribute writing (escape() per value: unit xml_escape_roundtrip) is cut out as a region.
ENC_RULES = [
    (r'const Map<>& attribs = e\.attribs\(\);\s*if \(attribs\.length\(\) > 0\)\s*\{.*?\n\t\}\n', 'OUT_ATTRIBS();\n', 1),
    (r'e\.isnull\(\) \|\| \(!e && !e\.isText\(\)\)', 'g_isnull', 1), (r'escape\(e\.text\(\)\);', 'OUT_TEXT();', 1),
    (r"_xml << '<' << e\.tag\(\);", 'OUT_OPEN();', 1), (r'_xml << "/>";', 'OUT_SELFCLOSE();', None), (r"_xml << '>';", 'OUT_GT();', None),
    (r"_xml << \"</\" << e\.tag\(\) << '>';", 'OUT_ENDTAG();', None), (r"_xml << '\\n';", 'OUT_NL();', None), (r'_xml << INDENT_CHAR;', 'OUT_INDENT();', None),
    (r'encode\(e\.child\((\w+)\)\);', r'ENC_CHILD(\1);', None), (r'e\.child\((\w+)\)\.isText\(\)', r'CHILD_ISTEXT(\1)', None), (r'e\.children\(\)\.last\(\)\.isText\(\)', 'CHILD_ISTEXT(g_nch - 1)', None),
    (r'e\.text\(\)\.ok\(\)', 'nondet_bool()', None), (r'e\.isText\(\)', 'g_istext', None), (r'e\.numChildren\(\)', 'g_nch', None),
    (r'\b_formatted\b', 'g_formatted', None), (r'\b_level\b', 'g_level', None),
    (r'for \(int i = 0; i < g_level; i\+\+\)\s*OUT_INDENT\(\);', 'OUT_INDENT_N(g_level);', None),   # indentation: g_level copies of INDENT_CHAR
]
encode_unit = Unit(
    'XmlCodec_encode_element', 'C07',
    cuts=[Cut('enc', XM, r'^void XmlCodec::encode\(const Xml& e\)\s*$', rules=ENC_RULES,
              loops=[(r'for \(int i = 0; i < g_nch; i\+\+\)\s*ENC_CHILD', 0, '''
  __CPROVER_assigns(i, g_calls, g_enc_k, g_order_ok)
  __CPROVER_loop_invariant(0 <= i && i <= g_nch && g_calls == i && g_enc_k == (i > g_k ? 1 : 0) && g_order_ok)
  __CPROVER_decreases(g_nch - i)
''', [])])],
    text=r'''
#include "vf_base.h"
bool nondet_bool(void);
int g_k;
bool g_isnull, g_istext, g_formatted; int g_nch, g_level;
int g_open, g_selfclose, g_gt, g_endtag, g_text, g_attribs, g_calls, g_enc_k, g_order_ok, g_gt_before_children, g_end_after_children;
static void OUT_OPEN(void) { g_open++; }
static void OUT_ATTRIBS(void) { __CPROVER_assert(g_open == 1 && g_gt == 0 && g_selfclose == 0, "attributes go inside the start tag"); g_attribs++; }
static void OUT_SELFCLOSE(void) { g_selfclose++; }
static void OUT_GT(void) { g_gt++; }
static void OUT_ENDTAG(void) { g_endtag++; g_end_after_children = (g_calls == g_nch); }
static void OUT_TEXT(void) { g_text++; }
static void OUT_NL(void) {} static void OUT_INDENT(void) {} static void OUT_INDENT_N(int n) {}
static bool CHILD_ISTEXT(int i) { __CPROVER_assert(0 <= i && i < g_nch, "Xml::child(i): index below numChildren"); return nondet_bool(); }
/* encode(e.child(i)): the recursive call (this same contract) */
static void ENC_CHILD(int i) { __CPROVER_assert(0 <= i && i < g_nch, "Xml::child(i): index below numChildren"); if (i != g_calls || g_gt != 1 || g_endtag != 0 || g_selfclose != 0) g_order_ok = 0; if (i == g_k) g_enc_k++; g_calls++; }
void XmlCodec_encode(void)
__CPROVER_requires(0 <= g_nch && g_nch <= 1000000 && 0 <= g_level && g_level <= 1000000 && 0 <= g_k && g_k < g_nch + 1)
__CPROVER_requires(g_open == 0 && g_selfclose == 0 && g_gt == 0 && g_endtag == 0 && g_text == 0 && g_attribs == 0 && g_calls == 0 && g_enc_k == 0 && g_order_ok == 1)
/* a text node: its escaped text and nothing else */
__CPROVER_ensures((!g_isnull && g_istext) ==> (g_text == 1 && g_open == 0 && g_calls == 0))
/* an element without children: <tag attrs/>;  with children: <tag attrs> then EVERY child, each once, in order, then </tag> - no child is dropped whatever the first child is */
__CPROVER_ensures((!g_isnull && !g_istext && g_nch == 0) ==> (g_open == 1 && g_attribs == 1 && g_selfclose == 1 && g_gt == 0 && g_endtag == 0 && g_calls == 0))
__CPROVER_ensures((!g_isnull && !g_istext && g_nch > 0) ==> (g_open == 1 && g_attribs == 1 && g_selfclose == 0 && g_gt == 1 && g_endtag == 1 && g_calls == g_nch && g_order_ok && g_end_after_children))
__CPROVER_ensures((!g_isnull && !g_istext && g_k < g_nch) ==> g_enc_k == 1)
__CPROVER_ensures(g_isnull ==> (g_open == 0 && g_text == 0 && g_calls == 0))
__CPROVER_ensures(g_level == __CPROVER_old(g_level))
__CPROVER_assigns(g_level, g_open, g_selfclose, g_gt, g_endtag, g_text, g_attribs, g_calls, g_enc_k, g_order_ok, g_end_after_children)
@@enc@@
void vf_harness(void) { XmlCodec_encode(); VF_CANARY(); }
''',
    entry='XmlCodec_encode', unwind=None,
    desc='XmlCodec::encode for an element with ANY number of children: <tag/> only when there are none, otherwise start tag, every child exactly once and in order (recursive calls), end tag; '
         'text nodes are written escaped; child indices in range; nesting level restored',
    functions=['XmlCodec::encode'],
    trusted=['output stream abstracted to events; attribute block cut out (R18); the recursive call is this contract'],
    planted=[('enc', r'if \(g_nch == 0\)', 'if (g_nch == 0 || (CHILD_ISTEXT(0) && nondet_bool()))')],
)
UNITS += [encode_unit]

# replay: step / structure units have no direct native input; the driver's battery (parent links after decoding mixed documents, encode->decode of generated trees,
# every byte in text and attribute values) runs on the real library instead
for _u in UNITS:
    if not _u.replay:
        _u.replay = replay.battery('C07/driver.cpp', ['battery'])
