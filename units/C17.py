"""C17 - File / TextFile: only what asl itself computes (src/TextFile.cpp); the OS round trip is not decidable here"""
from vf.core import Unit, Cut, do_while_rule
from vf import replay

TF = 'src/TextFile.cpp'
NOT_DECIDED = ['that bytes written come back from the file system', 'size()', 'append/reopen histories', 'Directory copy/move', 'lines() (Array<String>)', 'files containing NUL bytes in readLine']
PRE = r'''
#include "vf_base.h"
int nondet_int(void); bool nondet_bool(void); char nondet_char(void);
'''
# one turn of the do { } while (1) loop of TextFile::readLine(String&)
readline_turn = Unit(
    'TextFile_readLine_turn', 'C17',
    cuts=[Cut('rl', TF, r'^\tdo(?= \{\s*\n\t\ts\.resize\(m \+ chunk\))', kind='body',
              rules=[(r's\.resize\(m \+ chunk\);', 'S_RESIZE(m + chunk);', 1), (r'char\* r = fgets\(&s\[m\], chunk, _file\);', 'bool r = VF_FGETS(m, chunk);', 1),
                     (r'\(int\)strlen\(\*s \+ m\)', 'VF_STRLEN_FROM(m)', 1), (r's\.fix\(([^;]*)\);', r'S_FIX(\1);', None),
                     (r"s\[([^\]]*)\] = '\\0';", r'S_PUT0(\1);', None), (r"s\[([^\]]*)\] == '\\n'", r"(S_GET(\1) == '\\n')", None), (r"s\[([^\]]*)\] == '\\r'", r"(S_GET(\1) == '\\r')", None),
                     (r'return false;', '{ g_ret = 0; g_done = 1; return; }', None), (r'\bbreak;', '{ g_done = 2; goto vf_out; }', None)])],
    text=PRE + r'''
/* String s: capacity g_cap (resize(k): capacity > k, C03); the chunk fgets just stored is [g_at, g_at+g_L), NUL at g_at+g_L */
int g_cap, g_at, g_L, g_nl, g_cr, g_len, g_ret, g_done;
#define S_RESIZE(k) { __CPROVER_assert((k) >= 0, "resize"); if (g_cap <= (k)) g_cap = (k) + 1; }
/* fgets(buf, size, f) (ISO C): NULL at end of file, else stores 1..size-1 characters, stops after a '\n', appends a NUL.  NUL-free text files. */
static bool VF_FGETS(int at, int size) { __CPROVER_assert(at >= 0 && size >= 2 && at + size <= g_cap, "the buffer handed to fgets lies inside the string's capacity");
  if (nondet_bool()) return false; g_at = at; g_L = nondet_int(); __CPROVER_assume(1 <= g_L && g_L <= size - 1); g_nl = nondet_bool(); g_cr = nondet_bool(); return true; }
static int VF_STRLEN_FROM(int at) { __CPROVER_assert(at == g_at, "strlen from the start of the chunk just read"); return g_L; }
static char S_GET(int i) { __CPROVER_assert(0 <= i && i < g_cap, "String::operator[] inside the capacity");
  if (i == g_at + g_L - 1) return g_nl ? '\n' : 'x'; if (i == g_at + g_L - 2) return g_cr ? '\r' : 'y'; char c = nondet_char(); return c; }
static void S_PUT0(int i) { __CPROVER_assert(0 <= i && i < g_cap, "String::operator[] inside the capacity"); }
static void S_FIX(int n) { __CPROVER_assert(0 <= n && n < g_cap, "fix(n): n below the capacity"); g_len = n; }
void readLine_turn(int* m_p, int* n_p)
__CPROVER_requires(__CPROVER_is_fresh(m_p, sizeof(int)) && __CPROVER_is_fresh(n_p, sizeof(int)) && 0 <= *m_p && *m_p <= 1000000000 && g_cap >= 16 && g_cap > *m_p && g_cap <= 1100000000 && g_done == 0)
/* each turn either ends the line (newline found: the "\n" and one preceding "\r" are cut, nothing else), reports end of file, or appends >= 1 character and goes on */
__CPROVER_ensures(g_done == 0 ==> (*m_p == __CPROVER_old(*m_p) + g_L && !g_nl))
/* (the character before the newline may be the last one of the PREVIOUS chunk: a CR LF pair split by the 254-character chunk boundary is still one line end) */
__CPROVER_ensures(g_done == 2 ==> (g_nl && *n_p >= 0 && *n_p == __CPROVER_old(*m_p) + g_L - 1 - ((g_cr && __CPROVER_old(*m_p) + g_L - 1 > 0) ? 1 : 0)))
__CPROVER_assigns(*m_p, *n_p, g_cap, g_at, g_L, g_nl, g_cr, g_len, g_ret, g_done)
{
  int m = *m_p, n = *n_p; const int chunk = 255;
  @@rl@@
  vf_out: *m_p = m; *n_p = n;
}
void vf_harness(void) { int *a, *b; readLine_turn(a, b); VF_CANARY(); }
''',
    entry='readLine_turn',
    desc='one turn of TextFile::readLine for lines of ANY length across the 255-byte chunks: buffer handed to fgets inside the capacity, every index in range, newline (and one CR) cut, progress or exit each turn',
    functions=['TextFile::readLine(String&)'], trusted=['ISO C fgets contract; String resize/fix contracts (C03)'],
    assumes=['text files without NUL bytes (fgets result is measured with strlen)'],
)
UNITS = [readline_turn]

# TextFile::text(): one turn of the UTF-16LE / UTF-16BE loops, and the plain (UTF-8 / no BOM) tail
def utf16_turn(name, nth, le):
    return Unit(
        name, 'C17',
        cuts=[Cut('t', TF, r'^\t\t\twhile \(1\)\s*$', kind='body', nth=nth, count=2,
                  rules=[(r'if \(read\(b, 2\) < 2\)\s*break;', 'if (!VF_READ2(b)) { g_done = 1; goto vf_out; }', 1),
                         (r'a\.resize\(a\.length\(\) - 1\);', '{ __CPROVER_assert(g_alen - 1 >= 0, "Array::resize: new length is non-negative"); g_alen = g_alen - 1; g_dropped_cr = 1; }', 1),
                         (r'a << c;', '{ g_alen++; g_last = c; }', 1)])],
        text=PRE + r'''
#include <wchar.h>
int g_alen, g_done, g_dropped_cr; wchar_t g_last; byte g_b0, g_b1;
static bool VF_READ2(byte* b) { if (nondet_bool()) return false; b[0] = g_b0; b[1] = g_b1; return true; }      /* File::read(b, 2): two bytes, or fewer at the end */
void text_turn(wchar_t* c0_p)
__CPROVER_requires(__CPROVER_is_fresh(c0_p, sizeof(wchar_t)) && 0 <= g_alen && g_alen < 1000000000 && g_done == 0 && g_dropped_cr == 0)
__CPROVER_requires(*c0_p != 0 ==> (g_alen >= 1 && g_last == *c0_p))                 /* c0 is the unit appended by the previous turn */
/* the two bytes are assembled in the file's byte order; CR LF becomes LF (the CR just appended is dropped), everything else is appended unchanged */
__CPROVER_ensures(g_done == 0 ==> (g_last == (wchar_t)(%s) && *c0_p == g_last && g_alen >= 1))
__CPROVER_ensures(g_done == 0 ==> g_alen == __CPROVER_old(g_alen) + 1 - ((g_last == '\n' && __CPROVER_old(*c0_p) == '\r') ? 1 : 0))
__CPROVER_assigns(*c0_p, g_alen, g_done, g_dropped_cr, g_last)
{
  wchar_t c = 0, c0 = *c0_p; byte b[2];
  @@t@@
  vf_out: *c0_p = c0;
}
void vf_harness(void) { wchar_t* p; text_turn(p); VF_CANARY(); }
''' % ('g_b0 | (g_b1 << 8)' if le else 'g_b1 | (g_b0 << 8)'),
        entry='text_turn',
        desc='one turn of the UTF-16%s loop of TextFile::text(): unit assembled in that byte order, CR LF folded to LF without ever shrinking an empty array' % ('LE' if le else 'BE'),
        functions=['TextFile::text (UTF-16%s branch)' % ('LE' if le else 'BE')], trusted=['File::read(b, 2) delivers two bytes or reports fewer'],
    )
utf16le = utf16_turn('TextFile_text_utf16le_turn', 0, True)
utf16be = utf16_turn('TextFile_text_utf16be_turn', 1, False)

text_tail = Unit(
    'TextFile_text_tail', 'C17',
    cuts=[Cut('tt', TF, r'(\ttext\.resize\(n, false, false\);\s*n = read\(&text\[0\], n\);\s*text\[n\]=\'\\0\';\s*text\.fix\(n\);)', kind='expr',
              rules=[(r'text\.resize\(n, false, false\);', 'T_RESIZE(n);', 1), (r'read\(&text\[0\], n\)', 'VF_READ(n)', 1), (r"text\[n\]='\\0';", 'T_PUT0(n);', 1), (r'text\.fix\(n\);', 'T_FIX(n);', 1)])],
    text=PRE + r'''
int g_cap, g_len, g_fixed;
#define T_RESIZE(k) { __CPROVER_assert((k) >= 0, "resize"); g_cap = (k) < 16 ? 16 : (k) + 1; }
static int VF_READ(int n) { int r = nondet_int(); __CPROVER_assume(0 <= r && r <= n); return r; }            /* File::read = fread: 0..n bytes */
#define T_PUT0(i) __CPROVER_assert(0 <= (i) && (i) < g_cap, "String::operator[] inside the capacity")
#define T_FIX(k) { __CPROVER_assert(0 <= (k) && (k) < g_cap, "fix(n): n below the capacity"); g_len = (k); g_fixed = 1; }
void text_tail(int n)
__CPROVER_requires(0 <= n && n <= 2147483646 && g_fixed == 0)
__CPROVER_ensures(g_fixed && 0 <= g_len && g_len <= n)
__CPROVER_assigns(g_cap, g_len, g_fixed)
{
  @@tt@@
}
void vf_harness(void) { int n; text_tail(n); VF_CANARY(); }
''',
    entry='text_tail',
    desc='TextFile::text() plain branch: for every file size 0..2^31-1 and every read result, the terminator and the final length lie inside the buffer',
    functions=['TextFile::text (UTF-8 / no BOM branch)'], trusted=['fread returns 0..n'], assumes=['file size below 2^31-1 bytes (String::resize(n) needs n+1 to fit an int)'],
)
UNITS += [utf16le, utf16be, text_tail]

# ---- File::close(): the cached FileInfo (size, dates: filled lazily by size()/lastModified()) must not outlive the open file it was read from,
# otherwise size()/content()/text() after write...close report the size seen in the middle of writing.
FC = 'src/File.cpp'
file_close = Unit(
    'File_close', 'C17',
    cuts=[Cut('close', FC, r'^void File::close\(\)\s*$', members=('_file', '_info'),
              rules=[(r'fclose\(_file\);', 'VF_FCLOSE(_file);', None), (r'_info = FileInfo\(\);', '_info.size = -1;   /* FileInfo(): size -1 = "not read" */', None),
                     (r'_info\.clear\(\);', '_info.size = -1;', None)])],
    text=PRE + r'''
typedef struct FileInfo { long long size; } FileInfo;          /* File.h: operator!() is size == -1 */
typedef struct File { void* _file; FileInfo _info; } File;
int g_closed;
static void VF_FCLOSE(void* f) { __CPROVER_assert(f != 0, "fclose on an open stream"); g_closed++; }
void File_close(File* self)
__CPROVER_requires(__CPROVER_is_fresh(self, sizeof(File)) && g_closed == 0 && self->_info.size >= -1)
/* the stream is closed once if it was open, and the cached size/dates are dropped: the next size() asks the file system again */
__CPROVER_ensures(self->_file == 0 && g_closed == (__CPROVER_old(self->_file) != 0 ? 1 : 0))
__CPROVER_ensures(self->_info.size == -1)
__CPROVER_assigns(*self, g_closed)
@@close@@
void vf_harness(void) { File* f; File_close(f); VF_CANARY(); }
''',
    entry='File_close',
    desc='File::close(): closes an open stream exactly once and invalidates the cached FileInfo, so size()/content()/text() after a write...close sequence re-read the real size',
    functions=['File::close'], trusted=['fclose (libc)'],
)
UNITS += [file_close]

# ---- Directory::copy (POSIX branch): the block loop copies the whole file - it may stop with `true` only after a short read (end of the file)
DR = 'src/Directory.cpp'
dir_copy = Unit(
    'Directory_copy_loop', 'C17',
    cuts=[Cut('cp', DR, r'^bool Directory::copy\(const String& from, const String& to\)\s*$', nth=1, count=2,
              rules=[(r'File src\(from, File::READ\);\s*if\(!src\)\s*return false;', '', 1), (r'String topath = to;.*?if\(!dst\)\s*return false;', '', 1),
                     (r'Array<byte> buffer\((\d+)\);', r'byte vf_store[\1]; byte* buffer = vf_store; int buffer_len = \1;   /* an Array handle is one pointer */', None),
                     (r'buffer\.data\(\)', 'buffer', None), (r'buffer\.length\(\)', 'buffer_len', None),
                     (r'src\.read\(([^,]+), ([^;]+)\);', r'SRC_READ((byte*)(\1), (int)(\2));', 1), (r'dst\.write\(([^,]+), ([^;]+)\);', r'DST_WRITE((const byte*)(\1), \2);', 1),
                     (r'return false;', '{ g_ret = 0; return; }', None), (r'return true;', '{ g_ret = 1; return; }', 1), do_while_rule],
              loops=[(r'while \(vf_first', 0, '''
  __CPROVER_assigns(vf_first, n, g_left, g_written, g_k, g_ret)
  __CPROVER_loop_invariant((vf_first == 0 || vf_first == 1) && 0 <= g_written && g_written <= g_size && 0 <= g_left && g_left <= g_size && g_written + g_left == g_size && g_ret == -1)
  /* the request size of the last read is what the continuation test compares with: "a full block was read" */
  __CPROVER_loop_invariant(vf_first || (0 <= n && n <= g_k && (n < g_k ==> g_left == 0) && g_k == (int)sizeof(buffer)))
  __CPROVER_decreases(2 * g_left + vf_first + ((!vf_first && n == (int)sizeof(buffer)) ? 1 : 0))
''')])],
    text=PRE + r'''
long long g_size, g_left, g_written; int g_k, g_ret;
/* File::read(p, k) = fread: fills the k bytes unless the file ends first (then fewer, possibly 0); -1 on error */
static int SRC_READ(byte* p, int k) { __CPROVER_assert(k >= 1 && __CPROVER_w_ok(p, k), "read request fits the buffer"); g_k = k; if (nondet_bool()) return -1; int r = g_left < k ? (int)g_left : k; g_left -= r; return r; }
static int DST_WRITE(const byte* p, int n) { __CPROVER_assert(n >= 0 && (n == 0 || __CPROVER_r_ok(p, n)), "write of the bytes just read"); if (nondet_bool()) return n > 0 ? n - 1 : -1; g_written += n; return n; }
void Directory_copy(void)
__CPROVER_requires(0 <= g_size && g_size <= 1000000000000LL && g_left == g_size && g_written == 0 && g_ret == -1)
/* `true` means the destination received every byte of the source, for files of ANY size (below, at and above the block size) */
__CPROVER_ensures(g_ret == 1 ==> (g_left == 0 && g_written == g_size))
__CPROVER_ensures(g_ret == 0 || g_ret == 1)
__CPROVER_assigns(g_left, g_written, g_k, g_ret)
@@cp@@
void vf_harness(void) { Directory_copy(); VF_CANARY(); }
''',
    entry='Directory_copy',
    desc='Directory::copy block loop for files of ANY size: every read request fits the buffer, and the loop reports success only after a short read (end of file) with every byte written - so files larger than one block are copied whole',
    functions=['Directory::copy (POSIX)'], trusted=['File::read = fread (full request unless the file ends), File::write returns the count written'],
)
UNITS += [dir_copy]

# ---- TextFile::text(): byte-order-mark probe.  Whatever the first bytes are, the text that is read afterwards starts at offset 3 exactly when the file begins with the
# UTF-8 BOM EF BB BF, and at offset 0 otherwise (UTF-16 files take their own branches: units TextFile_text_utf16*_turn)
text_bom = Unit(
    'TextFile_text_bom_probe', 'C17',
    cuts=[Cut('tb', TF, r'^String TextFile::text\(\)\s*$',
              rules=[(r'\(int\)\(size\(\) & 0x7fffffff\)', '(int)(g_size & 0x7fffffff)', 1), (r'String text;\s*if \(!_file && !open\(READ\)\) \{\s*return text;\s*\}', '', 1),
                     (r'\{\s*Array<wchar_t> a;.*?return text;\s*\}', '{ g_utf16 = 1; return; }', 2),
                     (r'read\(head, 2\);', 'READ_HEAD(head, 2);', 1), (r'read<byte>\(\)', 'READ_BYTE()', None),
                     (r'seek\(([^,()]+), HERE\);', r'g_pos += (\1);', None), (r'seek\(([^,()]+)\);', r'g_pos = (\1);', None),
                     (r'text\.resize\(n, false, false\);.*?return text;', 'g_start = g_pos; return;', 1)])],
    text=PRE + r'''
long long g_size; int g_pos, g_start, g_utf16; byte g_f[3];
static void READ_HEAD(byte* h, int k) { __CPROVER_assert(g_pos == 0 && k <= g_size, "probe reads the first bytes of the file"); for (int i = 0; i < k && i < 3; i++) h[i] = g_f[i]; g_pos += k; }
static byte READ_BYTE(void) { __CPROVER_assert(g_pos < g_size && g_pos < 3, "a byte inside the file"); return g_f[g_pos++]; }
void text_probe(void)
__CPROVER_requires(0 <= g_size && g_size <= 2000000000 && g_pos == 0 && g_start == -1 && g_utf16 == 0)
__CPROVER_ensures(!g_utf16 ==> g_start == ((g_size >= 3 && g_f[0] == 0xef && g_f[1] == 0xbb && g_f[2] == 0xbf) ? 3 : 0))
__CPROVER_ensures(g_utf16 ==> (g_size >= 2 && ((g_f[0] == 0xff && g_f[1] == 0xfe) || (g_f[0] == 0xfe && g_f[1] == 0xff))))
__CPROVER_assigns(g_pos, g_start, g_utf16)
@@tb@@
void vf_harness(void) { text_probe(); VF_CANARY(); }
''',
    entry='text_probe', unwind=5,
    desc='TextFile::text() BOM probe for EVERY file size and first three bytes: the bytes returned start right after a UTF-8 BOM and at the first byte of the file otherwise (also when the file starts EF BB xx)',
    functions=['TextFile::text (BOM probe)'], trusted=['File::read / seek move the file position as fread / fseek do'],
)
UNITS += [text_bom]

# ---- File::put(data): the file is (re)created with exactly these bytes - for an empty array too (an existing file is truncated, a missing one created)
file_put = Unit(
    'File_put', 'C17',
    cuts=[Cut('put', FC, r'^bool File::put\(const ByteArray& data\)\s*$',
              rules=[(r'!_file && !open\(_path, WRITE\)', '!g_open && !VF_OPEN_WRITE()', None), (r'data\.length\(\)', 'g_n', None), (r'(?<![\w.>])write\(data\.data\(\), ([^;()]+)\)', r'VF_WRITE(\1)', None), (r'return ([^;]*);', r'{ g_ret = (\1); return; }', None)])],
    text=PRE + r'''
int g_n, g_open, g_opened_for_write, g_written, g_ret;
static bool VF_OPEN_WRITE(void) { if (nondet_bool()) return false; g_open = 1; g_opened_for_write = 1; return true; }      /* open(path, WRITE): creates / truncates */
static int VF_WRITE(int n) { __CPROVER_assert(g_open, "write on an open file"); int r = nondet_int(); __CPROVER_assume(0 <= r && r <= n); g_written = r; return r; }
void File_put(void)
__CPROVER_requires(0 <= g_n && g_n <= 1000000000 && (g_open == 0 || g_open == 1) && g_opened_for_write == 0 && g_written == 0 && g_ret == -1)
/* success means: the file was open for writing (created / truncated by this call unless it was open already) and all n bytes - also n == 0 - went into it */
__CPROVER_ensures(g_ret == 1 ==> ((__CPROVER_old(g_open) || g_opened_for_write) && g_written == g_n))
__CPROVER_ensures(g_ret == 0 || g_ret == 1)
__CPROVER_assigns(g_open, g_opened_for_write, g_written, g_ret)
@@put@@
void vf_harness(void) { File_put(); VF_CANARY(); }
''',
    entry='File_put',
    desc='File::put for ANY size including 0: returns true only after the file was opened for writing (created / truncated) and every byte was written',
    functions=['File::put'], trusted=['File::open(WRITE) creates or truncates; File::write returns the count written'],
)

# ---- TextFile << const char*: the characters are written as they are - the text is data, never a printf format
tf_stream = Unit(
    'TextFile_stream_cstr', 'C17',
    cuts=[Cut('op', TF, r'^TextFile& TextFile::operator<<\(const char\* x\)\s*$',
              rules=[(r'fputs\(x, _file\);', 'VF_PUTS(x);', None), (r'(?<![\w.>])open\(WRITE\)', 'VF_OPEN()', None), (r'(?<![\w.>])_file\b(?!\))', 'g_open', None), (r'fwrite\(x, 1, ([^,]+), _file\)', r'VF_WRITE(x, \1)', None),
                     (r'(?<![\w.>])printf\(([^;]*)\);', r'VF_PRINTF(\1);', None), (r'fprintf\(_file, ([^;]*)\);', r'VF_PRINTF(\1);', None), (r'return \*this;', 'return;', None)])],
    text=PRE + r'''
#include <string.h>
int g_open, g_verbatim, g_as_format; const char* g_x;
static bool VF_OPEN(void) { if (nondet_bool()) return false; g_open = 1; return true; }
static void VF_PUTS(const char* s) { if (s == g_x) g_verbatim++; }
static void VF_WRITE(const char* s, int n) { if (s == g_x) g_verbatim++; }
/* printf-style output: the first argument is a FORMAT; passing the text itself there makes every '%' in it a conversion */
#define VF_PRINTF(...) vf_printf(__VA_ARGS__, (const char*)0)
static void vf_printf(const char* fmt, ...) { if (fmt == g_x) g_as_format = 1; else g_verbatim++; }
void stream_cstr(const char* x)
__CPROVER_requires(__CPROVER_is_fresh(x, 8) && g_x == x && (g_open == 0 || g_open == 1) && g_verbatim == 0 && g_as_format == 0)
__CPROVER_ensures(!g_as_format && (g_open ==> g_verbatim == 1))
__CPROVER_assigns(g_open, g_verbatim, g_as_format)
@@op@@
void vf_harness(void) { const char* x; stream_cstr(x); VF_CANARY(); }
''',
    entry='stream_cstr',
    desc='TextFile::operator<<(const char*): the text is written verbatim once (fputs / fwrite / printf("%s", x)), never used as a printf format',
    functions=['TextFile::operator<<(const char*)'], trusted=['fputs / fwrite write the bytes; the first argument of printf is a format'],
)
UNITS += [file_put, tf_stream]

# ---- TextFile::write(text): the file is opened for writing (created / truncated) for EVERY text, the empty one included
tf_write = Unit(
    'TextFile_write', 'C17',
    cuts=[Cut('tw', TF, r'^bool TextFile::write\(const String& s\)\s*$',
              rules=[(r'(?<![\w.>])open\(WRITE\)', 'VF_OPENW()', None), (r'(?<![\w.>])_file\b(?!\))', 'g_open', None), (r'\(int\)fwrite\(\*s, 1, s\.length\(\), g_open\)', 'VF_FWRITE(g_n)', None), (r'\(int\)fwrite\(\*s, 1, s\.length\(\), _file\)', 'VF_FWRITE(g_n)', None),
                     (r's\.length\(\)', 'g_n', None), (r'return ([^;]*);', r'{ g_ret = (\1); return; }', None)])],
    text=PRE + r"""
int g_n, g_open, g_opened_w, g_written, g_ret;
static bool VF_OPENW(void) { if (nondet_bool()) return false; g_open = 1; g_opened_w = 1; return true; }
static int VF_FWRITE(int n) { __CPROVER_assert(g_open, "fwrite on an open file"); int r = nondet_int(); __CPROVER_assume(0 <= r && r <= n); g_written = r; return r; }
void TextFile_write(void)
__CPROVER_requires(0 <= g_n && g_n <= 1000000000 && (g_open == 0 || g_open == 1) && g_opened_w == 0 && g_written == 0 && g_ret == -1)
__CPROVER_ensures(g_ret == 1 ==> ((__CPROVER_old(g_open) || g_opened_w) && g_written == g_n))
__CPROVER_ensures(g_ret == 0 || g_ret == 1)
__CPROVER_assigns(g_open, g_opened_w, g_written, g_ret)
@@tw@@
void vf_harness(void) { TextFile_write(); VF_CANARY(); }
""",
    entry='TextFile_write',
    desc='TextFile::write(text) for any length including 0: success only after the file was opened for writing (an existing file is truncated also by the empty text) and all characters were written',
    functions=['TextFile::write(const String&)'], trusted=['open(WRITE) creates / truncates; fwrite returns the count written'],
)
# text() of UTF-16 files converts with utf16toUtf8: C08's per-scalar-value unit (every code point, surrogate pairs of all planes) is re-run here
from units.C08 import per_value as _c08_value
UNITS += [tf_write, _c08_value]

# replay: turn units have no direct native input; the driver's battery (lines of every length 0..1100 with LF / CRLF / lone CR / no final newline, byte round trips around
# 255 and 65536, write - size() - write - close - append histories on one object, the three BOM encodings) runs on the real library instead
for _u in UNITS:
    if not _u.replay:
        _u.replay = replay.battery('C17/driver.cpp', ['battery'])

# planted one-token breaks for the newer units (thorough tier: each must make an obligation fail)
dir_copy.planted = [('cp', r'n == sizeof\(buffer\)', 'n == 8')]
text_bom.planted = [('tb', r'g_pos = \(0\);', 'g_pos += (-2);')]
