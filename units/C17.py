"""C17 - File / TextFile: only what asl itself computes (src/TextFile.cpp); the OS round trip is not decidable here"""
from vf.core import Unit, Cut
from vf import replay

TF = 'src/TextFile.cpp'
NOT_DECIDED = ['that bytes written come back from the file system', 'size()', 'append/reopen histories', 'Directory copy/move', 'lines() (Array<String>)', 'files containing NUL bytes in readLine']
PRE = r'''
#include "vf_base.h"
int nondet_int(void); bool nondet_bool(void); char nondet_char(void);
'''
# one turn of the do { } while (1) loop of TextFile::readLine(String&)
readline_turn = Unit(
    'TextFile_readLine_turn', 'C17',
    cuts=[Cut('rl', TF, r'^\tdo(?= \{\s*\n\t\ts\.resize\(m \+ chunk\))', kind='body',
              rules=[(r's\.resize\(m \+ chunk\);', 'S_RESIZE(m + chunk);', 1), (r'char\* r = fgets\(&s\[m\], chunk, _file\);', 'bool r = VF_FGETS(m, chunk);', 1),
                     (r'\(int\)strlen\(\*s \+ m\)', 'VF_STRLEN_FROM(m)', 1), (r's\.fix\(([^;]*)\);', r'S_FIX(\1);', None),
                     (r"s\[([^\]]*)\] = '\\0';", r'S_PUT0(\1);', None), (r"s\[([^\]]*)\] == '\\n'", r"(S_GET(\1) == '\\n')", None), (r"s\[([^\]]*)\] == '\\r'", r"(S_GET(\1) == '\\r')", None),
                     (r'return false;', '{ g_ret = 0; g_done = 1; return; }', None), (r'\bbreak;', '{ g_done = 2; goto vf_out; }', None)])],
    text=PRE + r'''
/* String s: capacity g_cap (resize(k): capacity > k, C03); the chunk fgets just stored is [g_at, g_at+g_L), NUL at g_at+g_L */
int g_cap, g_at, g_L, g_nl, g_cr, g_len, g_ret, g_done;
#define S_RESIZE(k) { __CPROVER_assert((k) >= 0, "resize"); if (g_cap <= (k)) g_cap = (k) + 1; }
/* fgets(buf, size, f) (ISO C): NULL at end of file, else stores 1..size-1 characters, stops after a '\n', appends a NUL.  NUL-free text files. */
static bool VF_FGETS(int at, int size) { __CPROVER_assert(at >= 0 && size >= 2 && at + size <= g_cap, "the buffer handed to fgets lies inside the string's capacity");
  if (nondet_bool()) return false; g_at = at; g_L = nondet_int(); __CPROVER_assume(1 <= g_L && g_L <= size - 1); g_nl = nondet_bool(); g_cr = nondet_bool(); return true; }
static int VF_STRLEN_FROM(int at) { __CPROVER_assert(at == g_at, "strlen from the start of the chunk just read"); return g_L; }
static char S_GET(int i) { __CPROVER_assert(0 <= i && i < g_cap, "String::operator[] inside the capacity");
  if (i == g_at + g_L - 1) return g_nl ? '\n' : 'x'; if (i == g_at + g_L - 2) return g_cr ? '\r' : 'y'; char c = nondet_char(); return c; }
static void S_PUT0(int i) { __CPROVER_assert(0 <= i && i < g_cap, "String::operator[] inside the capacity"); }
static void S_FIX(int n) { __CPROVER_assert(0 <= n && n < g_cap, "fix(n): n below the capacity"); g_len = n; }
void readLine_turn(int* m_p, int* n_p)
__CPROVER_requires(__CPROVER_is_fresh(m_p, sizeof(int)) && __CPROVER_is_fresh(n_p, sizeof(int)) && 0 <= *m_p && *m_p <= 1000000000 && g_cap >= 16 && g_cap > *m_p && g_cap <= 1100000000 && g_done == 0)
/* each turn either ends the line (newline found: the "\n" and one preceding "\r" are cut, nothing else), reports end of file, or appends >= 1 character and goes on */
__CPROVER_ensures(g_done == 0 ==> (*m_p == __CPROVER_old(*m_p) + g_L && !g_nl))
/* (the character before the newline may be the last one of the PREVIOUS chunk: a CR LF pair split by the 254-character chunk boundary is still one line end) */
__CPROVER_ensures(g_done == 2 ==> (g_nl && *n_p >= 0 && *n_p == __CPROVER_old(*m_p) + g_L - 1 - ((g_cr && __CPROVER_old(*m_p) + g_L - 1 > 0) ? 1 : 0)))
__CPROVER_assigns(*m_p, *n_p, g_cap, g_at, g_L, g_nl, g_cr, g_len, g_ret, g_done)
{
  int m = *m_p, n = *n_p; const int chunk = 255;
  @@rl@@
  vf_out: *m_p = m; *n_p = n;
}
void vf_harness(void) { int *a, *b; readLine_turn(a, b); VF_CANARY(); }
''',
    entry='readLine_turn',
    desc='one turn of TextFile::readLine for lines of ANY length across the 255-byte chunks: buffer handed to fgets inside the capacity, every index in range, newline (and one CR) cut, progress or exit each turn',
    functions=['TextFile::readLine(String&)'], trusted=['ISO C fgets contract; String resize/fix contracts (C03)'],
    assumes=['text files without NUL bytes (fgets result is measured with strlen)'],
)
UNITS = [readline_turn]

# TextFile::text(): one turn of the UTF-16LE / UTF-16BE loops, and the plain (UTF-8 / no BOM) tail
def utf16_turn(name, nth, le):
    return Unit(
        name, 'C17',
        cuts=[Cut('t', TF, r'^\t\t\twhile \(1\)\s*$', kind='body', nth=nth, count=2,
                  rules=[(r'if \(read\(b, 2\) < 2\)\s*break;', 'if (!VF_READ2(b)) { g_done = 1; goto vf_out; }', 1),
                         (r'a\.resize\(a\.length\(\) - 1\);', '{ __CPROVER_assert(g_alen - 1 >= 0, "Array::resize: new length is non-negative"); g_alen = g_alen - 1; g_dropped_cr = 1; }', 1),
                         (r'a << c;', '{ g_alen++; g_last = c; }', 1)])],
        text=PRE + r'''
#include <wchar.h>
int g_alen, g_done, g_dropped_cr; wchar_t g_last; byte g_b0, g_b1;
static bool VF_READ2(byte* b) { if (nondet_bool()) return false; b[0] = g_b0; b[1] = g_b1; return true; }      /* File::read(b, 2): two bytes, or fewer at the end */
void text_turn(wchar_t* c0_p)
__CPROVER_requires(__CPROVER_is_fresh(c0_p, sizeof(wchar_t)) && 0 <= g_alen && g_alen < 1000000000 && g_done == 0 && g_dropped_cr == 0)
__CPROVER_requires(*c0_p != 0 ==> (g_alen >= 1 && g_last == *c0_p))                 /* c0 is the unit appended by the previous turn */
/* the two bytes are assembled in the file's byte order; CR LF becomes LF (the CR just appended is dropped), everything else is appended unchanged */
__CPROVER_ensures(g_done == 0 ==> (g_last == (wchar_t)(%s) && *c0_p == g_last && g_alen >= 1))
__CPROVER_ensures(g_done == 0 ==> g_alen == __CPROVER_old(g_alen) + 1 - ((g_last == '\n' && __CPROVER_old(*c0_p) == '\r') ? 1 : 0))
__CPROVER_assigns(*c0_p, g_alen, g_done, g_dropped_cr, g_last)
{
  wchar_t c = 0, c0 = *c0_p; byte b[2];
  @@t@@
  vf_out: *c0_p = c0;
}
void vf_harness(void) { wchar_t* p; text_turn(p); VF_CANARY(); }
''' % ('g_b0 | (g_b1 << 8)' if le else 'g_b1 | (g_b0 << 8)'),
        entry='text_turn',
        desc='one turn of the UTF-16%s loop of TextFile::text(): unit assembled in that byte order, CR LF folded to LF without ever shrinking an empty array' % ('LE' if le else 'BE'),
        functions=['TextFile::text (UTF-16%s branch)' % ('LE' if le else 'BE')], trusted=['File::read(b, 2) delivers two bytes or reports fewer'],
    )
utf16le = utf16_turn('TextFile_text_utf16le_turn', 0, True)
utf16be = utf16_turn('TextFile_text_utf16be_turn', 1, False)

text_tail = Unit(
    'TextFile_text_tail', 'C17',
    cuts=[Cut('tt', TF, r'(\ttext\.resize\(n, false, false\);\s*n = read\(&text\[0\], n\);\s*text\[n\]=\'\\0\';\s*text\.fix\(n\);)', kind='expr',
              rules=[(r'text\.resize\(n, false, false\);', 'T_RESIZE(n);', 1), (r'read\(&text\[0\], n\)', 'VF_READ(n)', 1), (r"text\[n\]='\\0';", 'T_PUT0(n);', 1), (r'text\.fix\(n\);', 'T_FIX(n);', 1)])],
    text=PRE + r'''
int g_cap, g_len, g_fixed;
#define T_RESIZE(k) { __CPROVER_assert((k) >= 0, "resize"); g_cap = (k) < 16 ? 16 : (k) + 1; }
static int VF_READ(int n) { int r = nondet_int(); __CPROVER_assume(0 <= r && r <= n); return r; }            /* File::read = fread: 0..n bytes */
#define T_PUT0(i) __CPROVER_assert(0 <= (i) && (i) < g_cap, "String::operator[] inside the capacity")
#define T_FIX(k) { __CPROVER_assert(0 <= (k) && (k) < g_cap, "fix(n): n below the capacity"); g_len = (k); g_fixed = 1; }
void text_tail(int n)
__CPROVER_requires(0 <= n && n <= 2147483646 && g_fixed == 0)
__CPROVER_ensures(g_fixed && 0 <= g_len && g_len <= n)
__CPROVER_assigns(g_cap, g_len, g_fixed)
{
  @@tt@@
}
void vf_harness(void) { int n; text_tail(n); VF_CANARY(); }
''',
    entry='text_tail',
    desc='TextFile::text() plain branch: for every file size 0..2^31-1 and every read result, the terminator and the final length lie inside the buffer',
    functions=['TextFile::text (UTF-8 / no BOM branch)'], trusted=['fread returns 0..n'], assumes=['file size below 2^31-1 bytes (String::resize(n) needs n+1 to fit an int)'],
)
UNITS += [utf16le, utf16be, text_tail]

# ---- File::close(): the cached FileInfo (size, dates: filled lazily by size()/lastModified()) must not outlive the open file it was read from,
# otherwise size()/content()/text() after write...close report the size seen in the middle of writing.
FC = 'src/File.cpp'
file_close = Unit(
    'File_close', 'C17',
    cuts=[Cut('close', FC, r'^void File::close\(\)\s*$', members=('_file', '_info'),
              rules=[(r'fclose\(_file\);', 'VF_FCLOSE(_file);', None), (r'_info = FileInfo\(\);', '_info.size = -1;   /* FileInfo(): size -1 = "not read" */', None),
                     (r'_info\.clear\(\);', '_info.size = -1;', None)])],
    text=PRE + r'''
typedef struct FileInfo { long long size; } FileInfo;          /* File.h: operator!() is size == -1 */
typedef struct File { void* _file; FileInfo _info; } File;
int g_closed;
static void VF_FCLOSE(void* f) { __CPROVER_assert(f != 0, "fclose on an open stream"); g_closed++; }
void File_close(File* self)
__CPROVER_requires(__CPROVER_is_fresh(self, sizeof(File)) && g_closed == 0 && self->_info.size >= -1)
/* the stream is closed once if it was open, and the cached size/dates are dropped: the next size() asks the file system again */
__CPROVER_ensures(self->_file == 0 && g_closed == (__CPROVER_old(self->_file) != 0 ? 1 : 0))
__CPROVER_ensures(self->_info.size == -1)
__CPROVER_assigns(*self, g_closed)
@@close@@
void vf_harness(void) { File* f; File_close(f); VF_CANARY(); }
''',
    entry='File_close',
    desc='File::close(): closes an open stream exactly once and invalidates the cached FileInfo, so size()/content()/text() after a write...close sequence re-read the real size',
    functions=['File::close'], trusted=['fclose (libc)'],
)
UNITS += [file_close]

# replay: turn units have no direct native input; the driver's battery (lines of every length 0..1100 with LF / CRLF / lone CR / no final newline, byte round trips around
# 255 and 65536, write - size() - write - close - append histories on one object, the three BOM encodings) runs on the real library instead
for _u in UNITS:
    if not _u.replay:
        _u.replay = replay.battery('C17/driver.cpp', ['battery'])
