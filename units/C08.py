"""C08 - UTF-8/16/32 conversions, code-point iteration, case mapping (src/String.cpp, src/unicodedata.cpp)"""
from vf.core import Unit, Cut, ifdef_rule
from units.common import *
from vf import replay

S, H, UD = 'src/String.cpp', 'include/asl/String.h', 'src/unicodedata.cpp'
NOANSI = ifdef_rule('ASL_ANSI', False)

PRE = r'''
#include "vf_string.h"
#include "utf.h"
#include <wchar.h>
int g_k;
/* byte distance between two pointers into the same object, as integers (no pointer-relation side conditions) */
#define DOFF(a, b) ((long)__CPROVER_POINTER_OFFSET(a) - (long)__CPROVER_POINTER_OFFSET(b))
'''
CONV_CUTS = lambda: [
    Cut('utf32toUtf8', S, r'^int utf32toUtf8\(const int\* p, char\* u, int n\)\s*$'),
    Cut('utf8toUtf32', S, r'^int utf8toUtf32\(const char\* u, int\* p, int n\)\s*$'),
    Cut('utf16toUtf8', S, r'^int utf16toUtf8\(const wchar_t\* p, char\* u, int n\)\s*$'),
    Cut('utf8toUtf16', S, r'^int utf8toUtf16\(const char\* u, wchar_t\* p, int n\)\s*$'),
]
CONV_C = r'''
int utf32toUtf8(const int* p, char* u, int n) @@utf32toUtf8@@
int utf8toUtf32(const char* u, int* p, int n) @@utf8toUtf32@@
int utf16toUtf8(const wchar_t* p, char* u, int n) @@utf16toUtf8@@
int utf8toUtf16(const char* u, wchar_t* p, int n) @@utf8toUtf16@@
'''

# per scalar value, the whole domain at once: one symbolic code point, loops run once (complete unwinding)
per_value = Unit(
    'utf_per_scalar_value', 'C08',
    cuts=CONV_CUTS(),
    text=PRE + CONV_C + r'''
int nondet_int(void);
void vf_harness(void) {
  int c = nondet_int(), nlim = nondet_int();
  __CPROVER_assume(c != 0 && SPEC_IS_SCALAR(c));
  __CPROVER_assume(nlim == 1 || nlim == 0 || nlim == 7);   /* n = 1 (fromCode), n = 0 / larger (stop at the terminator) */
  int in32[2] = { c, 0 };
  char u8[8]; int back32[4]; wchar_t u16[4]; char u8b[8];
  /* UTF-32 -> UTF-8: exactly the bytes of Unicode table 3-6 */
  int n8 = utf32toUtf8(in32, u8, nlim);
  __CPROVER_assert(n8 == SPEC_UTF8_LEN(c), "utf32toUtf8: number of bytes is that of table 3-6");
  __CPROVER_assert(u8[n8] == 0, "utf32toUtf8: output is NUL-terminated");
  __CPROVER_assert((unsigned char)u8[0] == SPEC_UTF8_BYTE(c, 0), "utf32toUtf8: byte 0");
  __CPROVER_assert(n8 < 2 || (unsigned char)u8[1] == SPEC_UTF8_BYTE(c, 1), "utf32toUtf8: byte 1");
  __CPROVER_assert(n8 < 3 || (unsigned char)u8[2] == SPEC_UTF8_BYTE(c, 2), "utf32toUtf8: byte 2");
  __CPROVER_assert(n8 < 4 || (unsigned char)u8[3] == SPEC_UTF8_BYTE(c, 3), "utf32toUtf8: byte 3");
  /* UTF-8 -> UTF-32 gives the scalar value back */
  int n32 = utf8toUtf32(u8, back32, n8);
  __CPROVER_assert(n32 == 1 && back32[0] == c && back32[1] == 0, "utf8toUtf32(utf32toUtf8(c)) == c");
  /* UTF-8 -> UTF-16: the units of table 3-5 */
  int n16 = utf8toUtf16(u8, u16, n8);
  __CPROVER_assert(n16 == SPEC_UTF16_LEN(c), "utf8toUtf16: number of units is that of table 3-5");
  __CPROVER_assert((unsigned)u16[0] == SPEC_UTF16_UNIT(c, 0) && (n16 < 2 || (unsigned)u16[1] == SPEC_UTF16_UNIT(c, 1)) && u16[n16] == 0, "utf8toUtf16: units");
  /* UTF-16 -> UTF-8 gives the same bytes back */
  int n8b = utf16toUtf8(u16, u8b, n16);
  __CPROVER_assert(n8b == n8 && u8b[0] == u8[0] && (n8 < 2 || u8b[1] == u8[1]) && (n8 < 3 || u8b[2] == u8[2]) && (n8 < 4 || u8b[3] == u8[3]) && u8b[n8b] == 0,
                   "utf16toUtf8(utf8toUtf16(x)) == x");
  VF_CANARY();
}
''',
    entry=None, unwind=6, floor=20, expect=['assertion'],
    desc='for EVERY Unicode scalar value (1..0x10FFFF without surrogates) at once: UTF-32->UTF-8 is table 3-6, ->UTF-32 is the identity, '
         'UTF-8->UTF-16 is table 3-5, ->UTF-8 is the identity',
    functions=['utf32toUtf8', 'utf8toUtf32', 'utf8toUtf16', 'utf16toUtf8'],
    replay=replay.from_trace('C08/driver.cpp', ['c'], lambda v: ['value', v['c']]),
    planted=[('utf16toUtf8', r'\+ 0x10000', '| 0x10000'), ('utf32toUtf8', r'c < 0x0800', 'c <= 0x0800')],
)

UNITS = [per_value]

# ---------------------------------------------------------------------------------------------
# any bytes: the converters stay inside their input (up to its terminator) and inside the output capacity their
# call sites provide, and terminate.  Loop contracts; pointers that the loops advance are re-anchored (see core).
NM = '-DNMAX=100000'
U0 = (r'\A\{', '{ const char* vf_u0 = u; VF_P0', 1)

def ptr_loop(assigns, inv, dec, anchors):
    return (r'while\s*\(', 0, '''
  __CPROVER_assigns(%s)
  __CPROVER_loop_invariant(%s)
  __CPROVER_decreases(%s)
''' % (assigns, inv, dec), anchors)

utf8to32_safe = Unit(
    'utf8toUtf32_anybytes', 'C08',
    cuts=[Cut('f', S, r'^int utf8toUtf32\(const char\* u, int\* p, int n\)\s*$', post=[U0],
              loops=[ptr_loop('u, p, c, n, __CPROVER_object_whole(p)',
                              '__CPROVER_same_object(u, vf_u0) && __CPROVER_same_object(p, p0) && 0 <= DOFF(u, vf_u0) && DOFF(u, vf_u0) <= g_len && 0 <= DOFF(p, p0) && DOFF(p, p0) % sizeof(*p) == 0 && DOFF(p, p0) / sizeof(*p) <= DOFF(u, vf_u0) && n >= -DOFF(u, vf_u0) - 1',
                              'g_len - DOFF(u, vf_u0)',
                              [('u', 'vf_u0 + (u - vf_u0)'), ('p', '(int*)p0 + (p - p0)')])])],
    text=PRE + r'''
#define VF_P0
int g_len;
int utf8toUtf32(const char* u, int* p, int n)
__CPROVER_requires(0 <= g_len && g_len <= NMAX && __CPROVER_is_fresh(u, g_len + 1) && u[g_len] == 0 && n >= 0)
__CPROVER_requires(__CPROVER_is_fresh(p, (g_len + 1) * sizeof(int)))   /* String::chars(): Array<int> c(length() + 1) */
__CPROVER_ensures(0 <= __CPROVER_return_value && __CPROVER_return_value <= g_len && p[__CPROVER_return_value] == 0)
__CPROVER_assigns(__CPROVER_object_whole(p))
@@f@@
void vf_harness(void) { const char* u; int* p; int n; utf8toUtf32(u, p, n); VF_CANARY(); }
''',
    entry='utf8toUtf32', variants={'': [NM]},
    desc='utf8toUtf32 on ANY NUL-terminated bytes (ill-formed, truncated, overlong), any n: reads stop at the terminator, at most length+1 ints written, terminates',
    functions=['utf8toUtf32'],
    planted=[('f', r'if \(c3 == 0\) break;', ';')],
)

utf8to16_safe = Unit(
    'utf8toUtf16_anybytes', 'C08',
    cuts=[Cut('f', S, r'^int utf8toUtf16\(const char\* u, wchar_t\* p, int n\)\s*$', post=[U0],
              loops=[ptr_loop('u, p, c, n, __CPROVER_object_whole(p)',
                              '__CPROVER_same_object(u, vf_u0) && __CPROVER_same_object(p, p0) && 0 <= DOFF(u, vf_u0) && DOFF(u, vf_u0) <= g_len && 0 <= DOFF(p, p0) && DOFF(p, p0) % sizeof(*p) == 0 && DOFF(p, p0) / sizeof(*p) <= DOFF(u, vf_u0) && n >= -DOFF(u, vf_u0) - 1',
                              'g_len - DOFF(u, vf_u0)',
                              [('u', 'vf_u0 + (u - vf_u0)'), ('p', '(wchar_t*)p0 + (p - p0)')])])],
    text=PRE + r'''
#define VF_P0
int g_len;
int utf8toUtf16(const char* u, wchar_t* p, int n)
__CPROVER_requires(0 <= g_len && g_len <= NMAX && __CPROVER_is_fresh(u, g_len + 1) && u[g_len] == 0 && n >= 0)
__CPROVER_requires(__CPROVER_is_fresh(p, (g_len + 1) * sizeof(wchar_t)))  /* String::dataw(): room for length+2 units */
__CPROVER_ensures(0 <= __CPROVER_return_value && __CPROVER_return_value <= g_len && p[__CPROVER_return_value] == 0)
__CPROVER_assigns(__CPROVER_object_whole(p))
@@f@@
void vf_harness(void) { const char* u; wchar_t* p; int n; utf8toUtf16(u, p, n); VF_CANARY(); }
''',
    entry='utf8toUtf16', variants={'': [NM]},
    desc='utf8toUtf16 on ANY NUL-terminated bytes: reads stop at the terminator, at most length+1 units written (a 4-byte sequence gives 2 units), terminates',
    functions=['utf8toUtf16'],
)

P0 = (r'\A\{', '{ const char* vf_u0 = u;', 1)
utf32to8_safe = Unit(
    'utf32toUtf8_anycodes', 'C08',
    cuts=[Cut('f', S, r'^int utf32toUtf8\(const int\* p, char\* u, int n\)\s*$', post=[(r'\A\{', '{ const int* vf_p0 = p;', 1)],
              loops=[ptr_loop('u, p, c, n, __CPROVER_object_whole(u)',
                              '__CPROVER_same_object(p, vf_p0) && __CPROVER_same_object(u, u0) && 0 <= DOFF(p, vf_p0) && DOFF(p, vf_p0) % sizeof(*p) == 0 && DOFF(p, vf_p0) / sizeof(*p) <= g_len && 0 <= DOFF(u, u0) && DOFF(u, u0) <= DOFF(p, vf_p0) && n >= -DOFF(p, vf_p0) - 1',
                              'g_len - DOFF(p, vf_p0) / sizeof(*p)',
                              [('p', 'vf_p0 + (p - vf_p0)'), ('u', '(char*)u0 + (u - u0)')])])],
    text=PRE + r'''
int g_len;
int utf32toUtf8(const int* p, char* u, int n)
__CPROVER_requires(0 <= g_len && g_len <= NMAX && __CPROVER_is_fresh(p, (g_len + 1) * sizeof(int)) && p[g_len] == 0 && n >= 0)
__CPROVER_requires(__CPROVER_is_fresh(u, 4 * g_len + 1))       /* String::fromCodes: String s(codes.length() * 4, 0) */
__CPROVER_ensures(0 <= __CPROVER_return_value && __CPROVER_return_value <= 4 * g_len && u[__CPROVER_return_value] == 0)
__CPROVER_assigns(__CPROVER_object_whole(u))
@@f@@
void vf_harness(void) { const int* p; char* u; int n; utf32toUtf8(p, u, n); VF_CANARY(); }
''',
    entry='utf32toUtf8', variants={'': [NM]},
    desc='utf32toUtf8 on ANY 0-terminated int array (negative, > 0x10FFFF, surrogates): at most 4 bytes per code + NUL, reads stop at the terminator',
    functions=['utf32toUtf8'],
)

utf16to8_safe = Unit(
    'utf16toUtf8_anyunits', 'C08',
    cuts=[Cut('f', S, r'^int utf16toUtf8\(const wchar_t\* p, char\* u, int n\)\s*$', post=[(r'\A\{', '{ const wchar_t* vf_p0 = p;', 1)],
              loops=[ptr_loop('u, p, c, n, __CPROVER_object_whole(u)',
                              '__CPROVER_same_object(p, vf_p0) && __CPROVER_same_object(u, u0) && 0 <= DOFF(p, vf_p0) && DOFF(p, vf_p0) % sizeof(*p) == 0 && DOFF(p, vf_p0) / sizeof(*p) <= g_len && 0 <= DOFF(u, u0) && DOFF(u, u0) <= DOFF(p, vf_p0) && n >= -DOFF(p, vf_p0) - 1',
                              'g_len - DOFF(p, vf_p0) / sizeof(*p)',
                              [('p', 'vf_p0 + (p - vf_p0)'), ('u', '(char*)u0 + (u - u0)')])])],
    text=PRE + r'''
int g_len;
int utf16toUtf8(const wchar_t* p, char* u, int n)
__CPROVER_requires(0 <= g_len && g_len <= NMAX && __CPROVER_is_fresh(p, (g_len + 1) * sizeof(wchar_t)) && p[g_len] == 0 && n >= 0)
__CPROVER_requires(__CPROVER_is_fresh(u, 4 * g_len + 1))       /* String(const wchar_t*): init(4 * wcslen(s)) */
__CPROVER_ensures(0 <= __CPROVER_return_value && __CPROVER_return_value <= 4 * g_len && u[__CPROVER_return_value] == 0)
__CPROVER_assigns(__CPROVER_object_whole(u))
@@f@@
void vf_harness(void) { const wchar_t* p; char* u; int n; utf16toUtf8(p, u, n); VF_CANARY(); }
''',
    entry='utf16toUtf8', variants={'': [NM]},
    desc='utf16toUtf8 on ANY 0-terminated wchar_t array (lone/reversed surrogates, values > 0xFFFF, negative): bounded output, reads stop at the terminator',
    functions=['utf16toUtf8'],
)
UNITS += [utf8to32_safe, utf8to16_safe, utf32to8_safe, utf16to8_safe]

# ---------------------------------------------------------------------------------------------
# code-point iteration: String::Enumerator::operator*()   (struct Enumerator { const char* u; int n; })
ENUM_C = r'''
typedef struct Enumerator { const char* u; int n; } Enumerator;
'''
ENUM_CUT = lambda: Cut('deref', S, r'^int String::Enumerator::operator\*\(\)\s*$', rules=[NOANSI], members=('u', 'n'))

enum_deref = Unit(
    'Enumerator_deref', 'C08',
    cuts=[ENUM_CUT()],
    text=PRE + ENUM_C + r'''
int g_len, g_at;
/* the enumerator stands on a non-NUL byte at offset g_at of a NUL-terminated buffer of ANY bytes */
int Enumerator_deref(Enumerator* self)
__CPROVER_requires(__CPROVER_is_fresh(self, sizeof(Enumerator)))
__CPROVER_requires(0 <= g_at && g_at < g_len && g_len <= NMAX && __CPROVER_is_fresh(self->u, g_len - g_at + 1))
__CPROVER_requires(self->u[0] != 0 && self->u[g_len - g_at] == 0)
/* advancing by n never steps over the terminator: the n bytes consumed are all non-NUL */
__CPROVER_ensures(self->n >= 1 && self->n <= 4)
__CPROVER_ensures((self->n < 2 || self->u[1] != 0) && (self->n < 3 || self->u[2] != 0) && (self->n < 4 || self->u[3] != 0))
__CPROVER_ensures(__CPROVER_return_value >= 0 && __CPROVER_return_value <= 0x1FFFFF)
/* an ASCII byte is itself and takes one byte; a code >= 0x80 consumed at least 2 bytes unless it is 0 (truncated) */
__CPROVER_ensures(((unsigned char)self->u[0] < 0x80) ==> (__CPROVER_return_value == self->u[0] && self->n == 1))
__CPROVER_ensures((__CPROVER_return_value >= 0x80) ==> self->n >= 2)
__CPROVER_ensures((__CPROVER_return_value >= 0x800) ==> self->n >= 3)
__CPROVER_ensures((__CPROVER_return_value >= 0x10000) ==> self->n == 4)
__CPROVER_assigns(self->n)
@@deref@@
void vf_harness(void) { Enumerator* e; Enumerator_deref(e); VF_CANARY(); }
''',
    entry='Enumerator_deref', variants={'': [NM]},
    desc='code-point iteration step on ANY bytes: 1 <= n <= 4, never steps over the terminator (truncated 2/3/4-byte sequences at the end), '
         'code in range; code >= 0x80/0x800/0x10000 consumed >= 2/3/4 bytes (what "case mapping never grows" needs)',
    functions=['String::Enumerator::operator*'],
    planted=[('deref', r'if \(c3 == 0\) \{ self->n = 2; return 0; \}\s*self->n = 3;', 'self->n = 3; if (c3 == 0) { return 0; }')],
)

enum_value = Unit(
    'Enumerator_per_scalar_value', 'C08',
    cuts=[ENUM_CUT()] + CONV_CUTS()[:1],
    text=PRE + ENUM_C + r'''
int utf32toUtf8(const int* p, char* u, int n) @@utf32toUtf8@@
int Enumerator_deref(Enumerator* self) @@deref@@
int nondet_int(void);
void vf_harness(void) {
  int c = nondet_int(); __CPROVER_assume(c != 0 && SPEC_IS_SCALAR(c));
  int in32[2] = { c, 0 }; char u8[8];
  int n8 = utf32toUtf8(in32, u8, 1);
  Enumerator e; e.u = u8; e.n = 1;
  int code = Enumerator_deref(&e);
  __CPROVER_assert(code == c, "iterating the UTF-8 of scalar value c yields c");
  __CPROVER_assert(e.n == SPEC_UTF8_LEN(c) && e.n == n8, "and advances by exactly its encoded length");
  VF_CANARY();
}
''',
    entry=None, unwind=4, floor=10, expect=['assertion'], replay=replay.from_trace('C08/driver.cpp', ['c'], lambda v: ['value', v['c']]),
    desc='for EVERY scalar value: the enumerator decodes the standard encoding to the same value and advances by its length',
    functions=['String::Enumerator::operator*'],
)

# String::count()
count = Unit(
    'String_count', 'C08',
    cuts=[Cut('count', S, r'^int String::count\(\) const\s*$', methods={'str': 'VF_STR'},
              post=[(r'VF_STR\(self\)', 'vf_text', None), (r'\A\{', '{ const char* vf_u0 = vf_text;', 1)],
              loops=[ptr_loop('u, c, count_', '__CPROVER_same_object(u, vf_u0) && 0 <= DOFF(u, vf_u0) && DOFF(u, vf_u0) <= g_len && 0 <= count_ && count_ <= DOFF(u, vf_u0)',
                              'g_len - DOFF(u, vf_u0)', [('u', 'vf_u0 + (u - vf_u0)')])])],
    text=PRE + r'''
int g_len;
int String_count(const char* vf_text)
__CPROVER_requires(0 <= g_len && g_len <= NMAX && __CPROVER_is_fresh(vf_text, g_len + 1) && vf_text[g_len] == 0)
__CPROVER_ensures(0 <= __CPROVER_return_value && __CPROVER_return_value <= g_len)
__CPROVER_assigns()
@@count@@
void vf_harness(void) { const char* t; String_count(t); VF_CANARY(); }
''',
    entry='String_count', variants={'': [NM]},
    desc='count() on ANY NUL-terminated bytes: never reads past the terminator (lead byte followed directly by NUL), terminates, 0 <= count <= length',
    functions=['String::count'],
)

count_value = Unit(
    'String_count_per_scalar_value', 'C08',
    cuts=[Cut('count', S, r'^int String::count\(\) const\s*$', methods={'str': 'VF_STR'}, post=[(r'VF_STR\(self\)', 'vf_text', None)])] + CONV_CUTS()[:1],
    text=PRE + r'''
int utf32toUtf8(const int* p, char* u, int n) @@utf32toUtf8@@
int String_count(const char* vf_text) @@count@@
int nondet_int(void);
void vf_harness(void) {
  int c = nondet_int(), d = nondet_int(); __CPROVER_assume(c != 0 && SPEC_IS_SCALAR(c) && d != 0 && SPEC_IS_SCALAR(d));
  int in32[3] = { c, d, 0 }; char u8[12];
  utf32toUtf8(in32, u8, 2);
  __CPROVER_assert(String_count(u8) == 2, "count() of the UTF-8 of two scalar values is 2");
  VF_CANARY();
}
''',
    entry=None, unwind=4, floor=10, expect=['assertion'],
    desc='for EVERY pair of scalar values: count() of their UTF-8 is 2 (agrees with the number of code points)',
    functions=['String::count'],
)
UNITS += [enum_deref, enum_value, count, count_value]

# ---------------------------------------------------------------------------------------------
# case mapping: one iteration of the loop of toUpperCase / toLowerCase, on top of the contract of the iteration step
def case_step(name, nth, table, upper):
    return Unit(
        name, 'C08',
        cuts=[Cut('tbl', UD, r'^char %s\[\]=""' % table, kind='stmt'), CONV_CUTS()[0],
              Cut('body', S, r'^\tfor \(Enumerator e = all\(\); e; \+\+e\)\s*$', nth=nth, count=2, rules=[(r'int\s+code = \*e;', 'int code = g_code;', 1)])],
        text=PRE + r'''
@@tbl@@
int utf32toUtf8(const int* p, char* u, int n) @@utf32toUtf8@@
int nondet_int(void);
void vf_harness(void) {
  /* (code, n) as delivered by String::Enumerator::operator* - its contract, proved by unit Enumerator_deref in the same run */
  int g_code = nondet_int(), n = nondet_int();
  __CPROVER_assume(0 <= g_code && g_code <= 0x1FFFFF && 1 <= n && n <= 4 && (g_code >= 0x80 ==> n >= 2) && (g_code >= 0x800 ==> n >= 3) && (g_code >= 0x10000 ==> n == 4));
  char out[8]; char* p = out; int u[2] = { 0, 0 };
  @@body@@
  __CPROVER_assert(p - out >= 1 && p - out <= n, "case mapping of one code point never produces more bytes than the code point occupied in the input");
  __CPROVER_assert(g_code >= 128 || (p - out == 1 && out[0] == (char)(%s)), "on ASCII the mapping is that of the C locale");
  VF_CANARY();
}
''' % ("(g_code >= 'a' && g_code <= 'z') ? g_code - 32 : g_code" if upper else "(g_code >= 'A' && g_code <= 'Z') ? g_code + 32 : g_code"),
        entry=None, unwind=4, floor=5, expect=['assertion'],
        desc='%s, one code point: table index inside the table for every code below the cut-over, output never longer than the input bytes consumed, ASCII = C locale' % ('toUpperCase' if upper else 'toLowerCase'),
        functions=['String::%s (loop body)' % ('toUpperCase' if upper else 'toLowerCase'), table],
    )
upper_step = case_step('toUpperCase_step', 0, 'toUppercaseU8', True)
lower_step = case_step('toLowerCase_step', 1, 'toLowercaseU8', False)
UNITS += [upper_step, lower_step]

# equalsNocase: the per-code-point comparison coincides with equality of the lower-cased bytes
nocase_pair = Unit(
    'equalsNocase_pair', 'C08',
    cuts=[Cut('tbl', UD, r'^char toLowercaseU8\[\]=""', kind='stmt'), CONV_CUTS()[0],
          Cut('lbody', S, r'^\tfor \(Enumerator e = all\(\); e; \+\+e\)\s*$', nth=1, count=2, rules=[(r'int\s+code = \*e;', 'int code = g_code;', 1)]),
          Cut('cmp', S, r'^\tfor \(; e1 && e2; \+\+e1, \+\+e2\)\s*$', rules=[(r'int code1 = \*e1, code2 = \*e2;', 'int code1 = g_c1, code2 = g_c2;', 1), (r'return false;', '{ g_differ = 1; goto vf_done; }', None)])],
    text=PRE + r'''
@@tbl@@
int utf32toUtf8(const int* p, char* u, int n) @@utf32toUtf8@@
int nondet_int(void);
/* the bytes toLowerCase produces for one code point (its extracted loop body) */
static int lower_bytes(int g_code, char* out) { char* p = out; int u[2] = { 0, 0 }; @@lbody@@ return (int)(p - out); }
void vf_harness(void) {
  int g_c1 = nondet_int(), g_c2 = nondet_int(), g_differ = 0;
  __CPROVER_assume(1 <= g_c1 && g_c1 <= 0x1FFFFF && 1 <= g_c2 && g_c2 <= 0x1FFFFF);
  @@cmp@@
  vf_done: ;
  char a[8], b[8]; int na = lower_bytes(g_c1, a), nb = lower_bytes(g_c2, b);
  int same = na == nb && a[0] == b[0] && (na < 2 || a[1] == b[1]) && (na < 3 || a[2] == b[2]) && (na < 4 || a[3] == b[3]);
  __CPROVER_assert((g_differ == 0) == (same != 0), "two code points compare equal ignoring case exactly when their lower-cased forms are the same bytes");
  VF_CANARY();
}
''',
    entry=None, unwind=4, floor=5, expect=['assertion'],
    desc='equalsNocase, one pair of code points (all pairs up to 0x1FFFFF): the comparison made equals equality of the two lower-cased byte sequences, including the 1415 cut-over asymmetry between the comparison and the mapper',
    functions=['String::equalsNocase (loop body)', 'String::toLowerCase (loop body)', 'toLowercaseU8'],
)
UNITS += [nocase_pair]

# equalsNocase as a whole, on short strings: equal exactly when the lower-cased forms are equal (also when their byte lengths differ)
nocase_whole = Unit(
    'equalsNocase_short_strings', 'C08',
    cuts=[Cut('tbl', UD, r'^char toLowercaseU8\[\]=""', kind='stmt'), CONV_CUTS()[0], ENUM_CUT(),
          Cut('lbody', S, r'^\tfor \(Enumerator e = all\(\); e; \+\+e\)\s*$', nth=1, count=2, rules=[(r'int\s+code = \*e;', 'int code = Enumerator_deref(&e);', 1)]),
          Cut('eq', S, r'^bool String::equalsNocase\(const String& s\) const\s*$',
              rules=[NOANSI, (r'Enumerator e1 = all\(\);', 'Enumerator e1; e1.u = s1; e1.n = 1;', None), (r'Enumerator e2 = s\.all\(\);', 'Enumerator e2; e2.u = s2; e2.n = 1;', None),
                     (r'for \(; e1 && e2; \+\+e1, \+\+e2\)', 'for (; EOK(e1) && EOK(e2); e1.u += e1.n, e2.u += e2.n)', None),
                     (r'int code1 = \*e1, code2 = \*e2;', 'int code1 = Enumerator_deref(&e1), code2 = Enumerator_deref(&e2);', None),
                     (r'\(e1 && !e2\) \|\| \(!e1 && e2\)', '(EOK(e1) && !EOK(e2)) || (!EOK(e1) && EOK(e2))', None),
                     (r'(?<![\w.>])length\(\)', 'vf_len(s1)', None), (r'\bs\.length\(\)', 'vf_len(s2)', None)])],
    text=PRE + ENUM_C + r'''
@@tbl@@
#define EOK(e) (*(e).u != 0)
static int vf_len(const char* p) { int n = 0; while (p[n]) n++; return n; }
int utf32toUtf8(const int* p, char* u, int n) @@utf32toUtf8@@
int Enumerator_deref(Enumerator* self) @@deref@@
/* toLowerCase of a short string into out (its extracted loop body, driven by the same enumerator) */
static int lower(const char* txt, char* out) { char* p = out; int u[2] = { 0, 0 }; Enumerator e; e.u = txt; e.n = 1;
  for (; EOK(e); e.u += e.n) @@lbody@@
  *p = 0; return (int)(p - out); }
static bool equalsNocase(const char* s1, const char* s2) @@eq@@
char nondet_char(void);
void vf_harness(void) {
  char a[3], b[3]; a[0] = nondet_char(); a[1] = nondet_char(); a[2] = 0; b[0] = nondet_char(); b[1] = nondet_char(); b[2] = 0;
  /* well-formed short texts: ASCII letters or one 2-byte sequence (ill-formed input is covered by the any-bytes units) */
  __CPROVER_assume(((a[0] & 0x80) == 0 && (a[1] & 0x80) == 0) || ((a[0] & 0xe0) == 0xc0 && (a[1] & 0xc0) == 0x80));
  __CPROVER_assume(((b[0] & 0x80) == 0 && (b[1] & 0x80) == 0) || ((b[0] & 0xe0) == 0xc0 && (b[1] & 0xc0) == 0x80));
  char la[8], lb[8]; int na = lower(a, la), nb = lower(b, lb);
  bool same = na == nb && la[0] == lb[0] && (na < 2 || la[1] == lb[1]) && (na < 3 || la[2] == lb[2]) && (na < 4 || la[3] == lb[3]);
  __CPROVER_assert(equalsNocase(a, b) == same, "case-insensitive equality coincides with equality of the lower-cased forms (texts of different byte length included)");
  VF_CANARY();
}
''',
    entry=None, unwind=6, floor=5, expect=['assertion'], kind='bounded', bound='texts of at most 2 bytes (two ASCII characters or one 2-byte character)',
    desc='String::equalsNocase as a whole on short well-formed texts: true exactly when toLowerCase of both are the same bytes - e.g. U+0130 vs "i", whose byte lengths differ',
    functions=['String::equalsNocase', 'String::toLowerCase (loop body)', 'String::Enumerator::operator*'],
)
UNITS += [nocase_whole]

# ---- toUpperCase / toLowerCase as wholes, with the per-code-point loop abstracted to "w bytes were written, w <= length" (its steps are units to*Case_step):
# the result is NUL-terminated where the written bytes end AND its length() is that offset - case mapping may write fewer bytes than the input has
def enum_loop_rule(text):
    """the whole `for (Enumerator e = all(); e; ++e) { ... }` statement (brace-matched) -> `p += VF_LOOP_WROTE(p);`"""
    import re
    from vf.core import find_code, match_close
    m = re.search(r'for \(Enumerator e = all\(\); e; \+\+e\)', text)
    if not m:
        return text, 0
    b = find_code(text, '{', m.end())
    if text[m.end():b].strip():
        return text, 0
    e = match_close(text, b)
    return text[:m.start()] + 'p += VF_LOOP_WROTE(p);' + text[e + 1:], 1
enum_loop_rule.must_fire = True
def case_frame(name, fn):
    return Unit(
        name, 'C08',
        cuts=string_helper_cuts() + [Cut('body', S, r'^String String::%s\(\) const\s*$' % fn, members=STRING_FIELDS, methods=STRING_METHODS,
              rules=[ifdef_rule('ASL_ANSI', False), string_local_rules,
                     enum_loop_rule, (r'int\s+u\[2\] = \{ 0, 0 \};', '', None),
                     (r'\bs\.str\(\)', 'String_str(&s)', None), (r'\bs\.fix\(([^;]*)\);', r'String_fix(&s, \1);', None), (r'return s;', '{ g_res = s; return; }', 1)])],
        text=r'''
#include "vf_string.h"
int g_k;
''' + STRING_HELPERS_C + r'''
static void String_fix(String* self, int n) { self->_len = n; }                    /* String.h: fix(int n) { _len = n; } */
int g_w; String g_res;
/* the loop: writes g_w bytes (none of them NUL) starting at p, g_w <= length of the input (units toUpperCase_step / toLowerCase_step: never more bytes than the code point had) */
static int VF_LOOP_WROTE(char* p) { __CPROVER_assert(__CPROVER_w_ok(p, g_w + 1), "room for the mapped text and its terminator"); if (g_k < g_w) p[g_k] = 'x'; return g_w; }
void String_case(String* self)
__CPROVER_requires(__CPROVER_is_fresh(self, sizeof(String)) && WF_STRING_P(self) && self->_len <= NMAX && 0 <= g_w && g_w <= self->_len && 0 <= g_k && g_k < g_w)
__CPROVER_ensures(g_res._len == g_w && STR(g_res)[g_w] == 0 && STR(g_res)[g_k] == 'x')
__CPROVER_ensures((g_res._size == 0 && g_res._len < ASL_STR_SPACE) || g_res._size > g_res._len)
__CPROVER_assigns(g_res)
@@body@@
void vf_harness(void) { String* s; String_case(s); VF_CANARY(); }
''',
        entry='String_case', variants={'': ['-DNMAX=100000']},
        desc='String::%s as a whole (loop abstracted to "w <= length bytes written"): the result has length() == w with its NUL there - also when the mapped text is shorter than the input' % fn,
        functions=['String::%s (frame)' % fn],
        trusted=['the per-code-point loop by its step contract (units to*Case_step): writes w <= length bytes'],
    )
from vf.core import ifdef_rule
lower_frame = case_frame('toLowerCase_frame', 'toLowerCase')
upper_frame = case_frame('toUpperCase_frame', 'toUpperCase')
UNITS += [lower_frame, upper_frame]

# ---- String::dataw(): the UTF-16 copy lives in the string's own buffer behind the text; the room reserved must hold the alignment padding, one unit per byte and the terminator
dataw_unit = Unit(
    'String_dataw_room', 'C08',
    cuts=[Cut('rs', S, r'^const wchar_t\* String::dataw\(\) const\s*\{\s*\(\(String\*\)this\)->resize\(((?:[^(),]|\([^()]*\))*), true, false\);', kind='expr', rules=[(r'\b_len\b', 'len', None), (r'sizeof\(wchar_t\)', '4', None)]),
          Cut('of', S, r'^const wchar_t\* String::dataw\(\) const\s*\{[^;]*;\s*(int\s+offset = [^;]*;)', kind='expr', rules=[(r'\b_len\b', 'len', None)])],
    text=PRE + r'''
void vf_harness(void) {
  int len = nondet_int(); __CPROVER_assume(0 <= len && len <= 100000000);
  long long reserved = @@rs@@;                 /* resize(reserved): the capacity becomes > reserved (C03 String_resize) */
  @@of@@
  __CPROVER_assert(offset >= len + 1 && offset % 4 == 0, "the wide copy starts behind the text and its NUL, 4-byte aligned from the start of the buffer");
  /* utf8toUtf16 writes at most one unit per byte of text plus the terminator (unit utf8toUtf16_anybytes): (len + 1) * 4 bytes from offset */
  __CPROVER_assert((long long)offset + 4LL * (len + 1) <= reserved + 1, "offset + (len + 1) wide characters fit the capacity that was reserved, for EVERY length (alignment padding of 0..3 bytes included)");
  VF_CANARY();
}
''',
    entry=None, floor=2, expect=['assertion'],
    desc='String::dataw() for every length: the buffer reservation covers text + NUL + alignment padding + (len+1) UTF-16 units',
    functions=['String::dataw (buffer arithmetic)'], trusted=['resize(n) leaves capacity > n (C03); utf8toUtf16 output bound (unit utf8toUtf16_anybytes)'],
)
UNITS += [dataw_unit]

# bounded twin of the loop-contract unit String_count: same contract, loops unwound for texts of at most 6 bytes (every sequence shape up to a 4-byte sequence plus more lead bytes).
# (Twins of the four converters were tried and dropped: without the pointer anchors that come with the loop contracts their writes through walking pointers do not finish.)
from vf.core import bounded_twin
UNITS += [bounded_twin(count, 'String_count_small', ['-DNMAX=6'], 12, 'texts of at most 6 bytes; loops unwound completely')]

# replay: where the trace recipe of a unit does not reproduce (or there is none) the driver's battery runs on the real library: all 1,112,064 scalar values through the
# converters, truncated / malformed tails after 0..40 bytes in exact-size heap copies (ASan), case mapping and equalsNocase against the lower-cased forms
_bat = replay.battery('C08/driver.cpp', ['battery'])
for _u in UNITS:
    _u.replay = replay.first_of(_u.replay, _bat) if _u.replay else _bat

# planted one-token breaks for the newer units (thorough tier: each must make an obligation fail)
lower_frame.planted = [('body', r'String_fix\(&s, [^;]*\);', ';')]
