// Native replay for C19: real asl::Date on the day number / fields found by the verifier.
#include <asl/Date.h>
#include <stdio.h>
#include <stdlib.h>
#include <math.h>
#include <unistd.h>
#include <string>
using namespace asl;
static long dfy(long y) { auto fd = [](long a, long b) { return a >= 0 ? a / b : -((-a + b - 1) / b); }; return 365 * (y - 1970) + fd(y - 1969, 4) - fd(y - 1901, 100) + fd(y - 1601, 400); }
static bool leap(long y) { return y % 4 == 0 && (y % 100 != 0 || y % 400 == 0); }
static const int cum[2][14] = { {0, 0, 31, 59, 90, 120, 151, 181, 212, 243, 273, 304, 334, 365}, {0, 0, 31, 60, 91, 121, 152, 182, 213, 244, 274, 305, 335, 366} };
static int check_day(long day) {
	long y = 1; while (dfy(y + 1) <= day) y++;          // reference: linear search
	int l = leap(y), yd = int(day - dfy(y)), m = 1; while (cum[l][m + 1] <= yd) m++;
	int d = yd - cum[l][m] + 1, wd = int(((day + 4) % 7 + 7) % 7);
	Date t(double(day) * 86400.0 + 43200);
	DateData f = t.split(); // local? use UTC
	DateData u = Date(double(day) * 86400.0 + 43200).splitUTC();
	if (u.year != y || u.month != m || u.day != d || u.weekDay != wd) { printf("REPRODUCED day %ld: splitUTC gives %d-%d-%d wd %d, calendar says %ld-%d-%d wd %d\n", day, u.year, u.month, u.day, u.weekDay, y, m, d, wd); return 1; }
	Date c(Date::UTC, (int)y, m, d, 0, 0, 0);
	if (c.time() != double(day) * 86400.0) { printf("REPRODUCED construct(%ld-%d-%d) = %.1f, want %.1f\n", y, m, d, c.time(), double(day) * 86400.0); return 1; }
	printf("OK %ld-%02d-%02d\n", y, m, d); return 0;
}
static int check_day_quiet(long day) { fflush(stdout); int fd = dup(1); FILE* nul = freopen("/dev/null", "w", stdout); (void)nul; int r = check_day(day); fflush(stdout); dup2(fd, 1); close(fd); if (r) check_day(day); return r; }
int main(int argc, char** argv)
{
	std::string cmd = argc > 1 ? argv[1] : "";
	if (cmd == "day") return check_day(atol(argv[2]));
	if (cmd == "instant") { long day = atol(argv[2]), sec = atol(argv[3]); DateData u = Date(double(day) * 86400.0 + double(sec)).splitUTC(); int wd = int(((day + 4) % 7 + 7) % 7);
		if (u.weekDay != wd) { printf("REPRODUCED day %ld second %ld: weekDay %d, calendar says %d\n", day, sec, u.weekDay, wd); return 1; } printf("OK\n"); return 0; }
	if (cmd == "year") { long y = atol(argv[2]); return check_day(dfy(y)) || check_day(dfy(y + 1) - 1) || check_day(dfy(y) + 59) || check_day(dfy(y) + 60); }
	if (cmd == "fields") { long y = atol(argv[2]); int m = atoi(argv[3]), d = atoi(argv[4]); Date c(Date::UTC, (int)y, m, d, 0, 0, 0); double want = double(dfy(y) + cum[leap(y)][m] + d - 1) * 86400.0;
		if (c.time() != want) { printf("REPRODUCED construct(%ld,%d,%d) = %.1f want %.1f\n", y, m, d, c.time(), want); return 1; } printf("OK\n"); return 0; }
	if (cmd == "parse") { String txt(argv[2]); Date t(txt); printf("OK %f\n", t.time()); return 0; }
	if (cmd == "battery") {
		// calendar: every day of 1582..2400, every 97th day of years 1..9999, first/last days and leap days of every century year
		for (long d = dfy(1582); d < dfy(2401); d++) if (check_day_quiet(d)) return 1;
		for (long d = dfy(1); d <= dfy(10000) - 1; d += 97) if (check_day_quiet(d)) return 1;
		for (long y = 100; y <= 9900; y += 100) if (check_day_quiet(dfy(y)) || check_day_quiet(dfy(y + 1) - 1) || check_day_quiet(dfy(y) + 58) || check_day_quiet(dfy(y) + 59) || check_day_quiet(dfy(y) + 60)) return 1;
		// weekday / time of day at every hour boundary of days on both sides of 1970
		for (long d = -800; d <= 800; d += 1) for (long sec = 0; sec < 86400; sec += 3599) { DateData u = Date(double(d) * 86400.0 + double(sec)).splitUTC(); int wd = int(((d + 4) % 7 + 7) % 7);
			if (u.weekDay != wd || u.hours != sec / 3600 || u.minutes != (sec / 60) % 60 || u.seconds != sec % 60) { printf("REPRODUCED day %ld second %ld: weekDay %d h:m:s %d:%d:%d, want weekDay %d %ld:%ld:%ld\n", d, sec, u.weekDay, u.hours, u.minutes, u.seconds, wd, sec / 3600, (sec / 60) % 60, sec % 60); return 1; } }
		// ISO 8601 texts with numeric zones: the instant is the UTC reading minus the offset
		{ struct { const char* zone; int offset; } zs[] = { { "Z", 0 }, { "+00:00", 0 }, { "+00:30", 1800 }, { "-00:30", -1800 }, { "+01:00", 3600 }, { "-01:00", -3600 }, { "+05:45", 20700 }, { "-09:30", -34200 }, { "+0130", 5400 }, { "-0130", -5400 }, { "+02", 7200 }, { "-11", -39600 }, { "+14:00", 50400 }, { "+00:01", 60 }, { "-00:01", -60 } };
		  const char* stamps[] = { "2020-02-29T12:34:56", "1969-12-31T23:59:59", "1970-01-01T00:00:00", "2000-01-01T00:00:00", "1999-12-31T23:59:59", "2038-01-19T03:14:08" };
		  for (const char* st : stamps) { Date base(String(st) + "Z"); for (auto& z : zs) { Date t(String(st) + z.zone); if (t.time() != base.time() - z.offset) { printf("REPRODUCED Date(\"%s%s\") is %.0f s from the same reading in UTC, the offset says %d\n", st, z.zone, base.time() - t.time(), z.offset); return 1; } } }
		  Date e("2020-02-29T12:34:56Z"); DateData u = e.splitUTC(); if (u.year != 2020 || u.month != 2 || u.day != 29 || u.hours != 12 || u.minutes != 34 || u.seconds != 56) { printf("REPRODUCED fields of a parsed ISO date\n"); return 1; } }
		// fractions of a second with 1..9 digits; SHORT / LONG / DATE_ONLY formats of years 1..9999 read back
		for (int digits = 1; digits <= 9; digits++) { String f = "2001-02-03T04:05:06."; for (int i = 0; i < digits; i++) f << char('1' + i); f << "Z"; Date d(f); Date base("2001-02-03T04:05:06Z"); if (!(d.time() == d.time()) || d.time() < base.time() || d.time() > base.time() + 1) { printf("REPRODUCED Date(\"%s\") is invalid / outside its second\n", *f); return 1; } }
		for (int y : { 1, 9, 99, 100, 999, 1000, 1969, 2024, 9999 }) { Date d(Date::UTC, y, 3, 4, 5, 6, 7); for (Date::Format fm : { Date::LONG, Date::SHORT, Date::FULL }) { String txt = d.toString(fm, true); Date back(txt); if (!(back.time() == back.time()) || fabs(back.time() - d.time()) > 0.002) { printf("REPRODUCED year %d: toString gives \"%s\", which parses back as %.0f instead of %.0f\n", y, *txt, back.time(), d.time()); return 1; } } }
		// FULL format (milliseconds) round trip, also before 1970
		for (double base : { -62135596800.0 + 86400, -1e9, -86400.0, -1.0, 0.0, 1.0, 1e9, 253402300799.0 - 86400 }) for (int ms = 0; ms < 1000; ms += 37) { double t = base + ms / 1000.0; Date d(t); String txt = d.toString(Date::FULL, true);
			Date back(txt); if (!(back.time() == back.time()) || fabs(back.time() - t) > 0.0011) { printf("REPRODUCED Date(%.3f).toString(FULL) = \"%s\" parses back as %.3f\n", t, *txt, back.time()); return 1; } }
		printf("OK\n"); return 0;
	}
	return 2;
}
