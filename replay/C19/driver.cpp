// Native replay for C19: real asl::Date on the day number / fields found by the verifier.
#include <asl/Date.h>
#include <stdio.h>
#include <stdlib.h>
#include <string>
using namespace asl;
static long dfy(long y) { auto fd = [](long a, long b) { return a >= 0 ? a / b : -((-a + b - 1) / b); }; return 365 * (y - 1970) + fd(y - 1969, 4) - fd(y - 1901, 100) + fd(y - 1601, 400); }
static bool leap(long y) { return y % 4 == 0 && (y % 100 != 0 || y % 400 == 0); }
static const int cum[2][14] = { {0, 0, 31, 59, 90, 120, 151, 181, 212, 243, 273, 304, 334, 365}, {0, 0, 31, 60, 91, 121, 152, 182, 213, 244, 274, 305, 335, 366} };
static int check_day(long day) {
	long y = 1; while (dfy(y + 1) <= day) y++;          // reference: linear search
	int l = leap(y), yd = int(day - dfy(y)), m = 1; while (cum[l][m + 1] <= yd) m++;
	int d = yd - cum[l][m] + 1, wd = int(((day + 4) % 7 + 7) % 7);
	Date t(double(day) * 86400.0 + 43200);
	DateData f = t.split(); // local? use UTC
	DateData u = Date(double(day) * 86400.0 + 43200).splitUTC();
	if (u.year != y || u.month != m || u.day != d || u.weekDay != wd) { printf("REPRODUCED day %ld: splitUTC gives %d-%d-%d wd %d, calendar says %ld-%d-%d wd %d\n", day, u.year, u.month, u.day, u.weekDay, y, m, d, wd); return 1; }
	Date c(Date::UTC, (int)y, m, d, 0, 0, 0);
	if (c.time() != double(day) * 86400.0) { printf("REPRODUCED construct(%ld-%d-%d) = %.1f, want %.1f\n", y, m, d, c.time(), double(day) * 86400.0); return 1; }
	printf("OK %ld-%02d-%02d\n", y, m, d); return 0;
}
int main(int argc, char** argv)
{
	std::string cmd = argc > 1 ? argv[1] : "";
	if (cmd == "day") return check_day(atol(argv[2]));
	if (cmd == "instant") { long day = atol(argv[2]), sec = atol(argv[3]); DateData u = Date(double(day) * 86400.0 + double(sec)).splitUTC(); int wd = int(((day + 4) % 7 + 7) % 7);
		if (u.weekDay != wd) { printf("REPRODUCED day %ld second %ld: weekDay %d, calendar says %d\n", day, sec, u.weekDay, wd); return 1; } printf("OK\n"); return 0; }
	if (cmd == "year") { long y = atol(argv[2]); return check_day(dfy(y)) || check_day(dfy(y + 1) - 1) || check_day(dfy(y) + 59) || check_day(dfy(y) + 60); }
	if (cmd == "fields") { long y = atol(argv[2]); int m = atoi(argv[3]), d = atoi(argv[4]); Date c(Date::UTC, (int)y, m, d, 0, 0, 0); double want = double(dfy(y) + cum[leap(y)][m] + d - 1) * 86400.0;
		if (c.time() != want) { printf("REPRODUCED construct(%ld,%d,%d) = %.1f want %.1f\n", y, m, d, c.time(), want); return 1; } printf("OK\n"); return 0; }
	if (cmd == "parse") { String txt(argv[2]); Date t(txt); printf("OK %f\n", t.time()); return 0; }
	return 2;
}
