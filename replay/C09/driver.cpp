// Native replay for C09: a raw TCP client sends a request to the REAL library HttpServer (ASan/UBSan build).
//   target <hex of request target>   : "GET <target> HTTP/1.1"; the handler must get a path without ".." (length-aware), no memory error
//   url <hex>                        : Url(<text>) and Url::decode(<text>) must not crash
#include <asl/HttpServer.h>
#include <asl/Http.h>
#include <asl/Socket.h>
#include <asl/File.h>
#include <stdio.h>
#include <stdlib.h>
#include <unistd.h>
#include <signal.h>
#include <string.h>
#include <sys/socket.h>
#include <string>
using namespace asl;
static std::string unhex(const char* h) { std::string r; if (h[0] == '-') return r; for (size_t i = 0; h[i] && h[i + 1]; i += 2) { char b[3] = { h[i], h[i + 1], 0 }; r.push_back((char)strtoul(b, 0, 16)); } return r; }
struct Srv : public HttpServer {
	void serve(HttpRequest& request, HttpResponse& response) {
		String p = request.path(); bool dd = false;
		for (int i = 0; i + 1 < p.length(); i++) if (p[i] == '.' && p[i + 1] == '.') dd = true;     // length-aware: also behind a NUL byte
		if (dd) { printf("REPRODUCED request.path() contains \"..\" (length %d)\n", p.length()); fflush(stdout); _exit(1); }
		printf("OK path length %d\n", p.length()); fflush(stdout); _exit(0);
	}
};
int main(int argc, char** argv)
{
	std::string cmd = argc > 1 ? argv[1] : "", t = unhex(argc > 2 ? argv[2] : "-");
	if (cmd == "url") { String s(t.c_str()); Url u(s); String d = Url::decode(s); printf("OK %s %d\n", *u.host, u.port); return 0; }
	if (cmd == "target") {
		int port = 0; Srv server;
		for (int p = 40100 + (getpid() % 500); p < 40900; p++) if (server.bind("127.0.0.1", p)) { port = p; break; }
		if (!port) { printf("cannot bind\n"); return 0; }
		server.start(true);
		Socket s; if (!s.connect("127.0.0.1", port)) { printf("cannot connect\n"); return 0; }
		String req; req << "GET " << t.c_str() << " HTTP/1.1\r\nHost: x\r\n\r\n";
		s.write(*req, req.length());
		sleep(3); printf("OK (connection dropped / no dispatch)\n"); fflush(stdout); _exit(0);
	}
	if (cmd == "range") {            // range <hex of the Range header value>: file server, must not crash
		{ FILE* f = fopen("/tmp/vf_c09_root_file.txt", "wb"); fputs("0123456789", f); fclose(f); }
		struct FS : public HttpServer { void serve(HttpRequest& rq, HttpResponse& rs) { serveFile(rq, rs); } } server;
		server.setRoot("/tmp");
		int port = 0; for (int p = 40100 + (getpid() % 500); p < 40900; p++) if (server.bind("127.0.0.1", p)) { port = p; break; }
		if (!port) { printf("cannot bind\n"); return 0; }
		server.start(true);
		Socket s; if (!s.connect("127.0.0.1", port)) { printf("cannot connect\n"); return 0; }
		String req; req << "GET /vf_c09_root_file.txt HTTP/1.1\r\nHost: x\r\nRange: " << t.c_str() << "\r\nConnection: close\r\n\r\n";
		s.write(*req, req.length());
		s.waitInput(3); String line = s.readLine();
		printf("OK %s\n", *line); fflush(stdout); _exit(0);
	}
	if (cmd == "stream") {           // stream <hex of the bytes the peer sends before closing>: reading the request must terminate promptly
		int fd[2]; if (socketpair(AF_UNIX, SOCK_STREAM, 0, fd) != 0) { printf("socketpair failed\n"); return 0; }
		if (t.size() && write(fd[0], t.data(), t.size()) != (ssize_t)t.size()) { printf("write failed\n"); return 0; }
		close(fd[0]);
		signal(SIGALRM, [](int) { const char* m = "REPRODUCED reading the request did not terminate within 5 s after the peer closed\n"; if (write(1, m, strlen(m))) {} _exit(1); });
		Socket sock(fd[1]); alarm(5);
		HttpRequest req(sock);
		alarm(0); printf("OK method=%s body=%d bytes\n", *req.method(), req.body().length()); return 0;
	}
	if (cmd == "battery") {          // the real request parser fed through a socketpair: decoded path never contains "..", query parsing order, odd URLs
		const char* targets[] = { "/a/../b", "/a/%2e%2e/secret", "/%2E%2E/%2e%2E/etc/passwd", "/a/..%2fb", "/a%00/../secret", "/x/%2e./y", "/x/.%2e/y", "/..", "/a/b/../../../c?q=../z#../f", "/plain/path?x=1", "/a#b?c", "/?", "/#", "/%", "/%4", "/%zz/..", "/a/%252e%252e/b" };
		for (const char* t : targets) { int fd[2]; if (socketpair(AF_UNIX, SOCK_STREAM, 0, fd) != 0) return 2; std::string rq = std::string("GET ") + t + " HTTP/1.1\r\nHost: h\r\n\r\n";
			if (write(fd[0], rq.data(), rq.size()) != (ssize_t)rq.size()) return 2; close(fd[0]);
			Socket sock(fd[1]); HttpRequest req(sock); String p = req.path();
			for (int i = 0; i + 1 < p.length(); i++) if (p[i] == '.' && p[i + 1] == '.') { printf("REPRODUCED target \"%s\": request.path() still contains \"..\" (length %d)\n", t, p.length()); return 1; } }
		{ Dic<> q = Url::parseQuery("a=1%26b%3D2&c=%2B+d&e=x%3Dy&f="); if (q.length() != 4 || q["a"] != "1&b=2" || q["c"] != "+ d" || q["e"] != "x=y" || q["f"] != "") { printf("REPRODUCED parseQuery: an encoded '&', '=' or '+' acted as a delimiter / space (a='%s' c='%s' e='%s', %d entries)\n", *q["a"], *q["c"], *q["e"], q.length()); return 1; } }
		{ Dic<> q2 = Url::parseQuery("tel=%2B34+600&sum=1%2B1%3D2&b64=ab%2Bcd%2F%3D&sp=a+b"); if (q2["tel"] != "+34 600" || q2["sum"] != "1+1=2" || q2["b64"] != "ab+cd/=" || q2["sp"] != "a b") { printf("REPRODUCED parseQuery: a literal plus sent as %%2B arrives as '%s' / '%s'\n", *q2["tel"], *q2["sum"]); return 1; } }
		{ const char* urls[] = { "http://h:80/p?q#f", "[/]:80", "http://[::1]:8080/x", "h", "", ":", "//", "http://", "http://h:/", "a:b@c:1/d", "http://h:99999999999/", "x://[", "?", "#", "http://h/p#f?q", "http://[fe80::1:fe80::1", "http://[::1:2:3", "[", "http://[" };
		  for (const char* u : urls) { Url x(u); String d = Url::decode(u); (void)x; (void)d; } }
		printf("OK\n"); return 0;
	}
	return 2;
}
