// Native replay for C01: the REAL asl::Array against a std::vector reference, under ASan/UBSan.
#include <asl/Array.h>
#include <asl/String.h>
#include <stdio.h>
#include <stdlib.h>
#include <vector>
#include <string>
using namespace asl;
struct Counted { static int live, ctor, dtor; int v; Counted() : v(0) { ctor++; live++; } Counted(int x) : v(x) { ctor++; live++; } Counted(const Counted& o) : v(o.v) { ctor++; live++; } ~Counted() { dtor++; live--; } bool operator==(const Counted& o) const { return v == o.v; } bool operator!=(const Counted& o) const { return v != o.v; } };
int Counted::live = 0, Counted::ctor = 0, Counted::dtor = 0;
template<class A, class V> static int same(const char* what, const A& a, const V& v) {
	if (a.length() != (int)v.size()) { printf("REPRODUCED %s: length %d, reference %d\n", what, a.length(), (int)v.size()); return 1; }
	for (int i = 0; i < a.length(); i++) if (!(a[i] == v[i])) { printf("REPRODUCED %s: element %d differs from the reference sequence\n", what, i); return 1; }
	return 0;
}
int main(int argc, char** argv)
{
	std::string cmd = argc > 1 ? argv[1] : "";
	if (cmd == "insert_alias") {           // insert_alias <n> <k> <j>: a = [100..100+n) with capacity == max(n,3); a.insert(k, a[j])
		int n = atoi(argv[2]), k = atoi(argv[3]), j = atoi(argv[4]);
		Array<int> a(n); std::vector<int> v(n);
		for (int i = 0; i < n; i++) a[i] = v[i] = 100 + i;
		int x = v[j];
		a.insert(k, a[j]); v.insert(v.begin() + (k == -1 ? n : k), x);
		if (same("insert(k, a[j])", a, v)) return 1;
		printf("OK\n"); return 0;
	}
	if (cmd == "insert") { int n = atoi(argv[2]), k = atoi(argv[3]); Array<int> a(n); std::vector<int> v(n); for (int i = 0; i < n; i++) a[i] = v[i] = 100 + i;
		a.insert(k, 7); v.insert(v.begin() + (k == -1 ? n : k), 7); if (same("insert", a, v)) return 1; printf("OK\n"); return 0; }
	if (cmd == "remove") {                 // remove <n> <i> <c> with a counted element type
		int n = atoi(argv[2]), i = atoi(argv[3]), c = atoi(argv[4]);
		{
			Array<Counted> a; std::vector<int> v;
			for (int q = 0; q < n; q++) { a << Counted(100 + q); v.push_back(100 + q); }
			int d0 = Counted::dtor;
			a.remove(i, c); if (i + c <= n) v.erase(v.begin() + i, v.begin() + i + c);
			std::vector<Counted> vv(v.begin(), v.end());
			if (same("remove", a, vv)) return 1;
		}
		if (Counted::live != 0) { printf("REPRODUCED remove: %d elements constructed but not destroyed exactly once (live=%d)\n", Counted::ctor, Counted::live); return 1; }
		printf("OK\n"); return 0;
	}
	if (cmd == "selfassign") { Array<int> a(3); a[0] = 1; a[1] = 2; a[2] = 3; Array<int>& b = a; a = b; if (a.length() != 3 || a[2] != 3) { printf("REPRODUCED self-assignment\n"); return 1; } printf("OK\n"); return 0; }
	if (cmd == "append_self") { int n = atoi(argv[2]); Array<int> a(n); std::vector<int> v(n); for (int i = 0; i < n; i++) a[i] = v[i] = 100 + i; a.append(a); std::vector<int> w = v; v.insert(v.end(), w.begin(), w.end()); if (same("a.append(a)", a, v)) return 1; printf("OK\n"); return 0; }
	if (cmd == "shared_growth") {          // two handles to one block; growing through one of them
		Array<int> a(3); a[0] = 1; a[1] = 2; a[2] = 3;
		Array<int> b = a;                    // shares the block (rc == 2)
		a << 4;                              // capacity 3 exhausted: the block is reallocated
		int n = b.length();                  // b still points at the old block
		if (n != 3 && n != 4) { printf("REPRODUCED second handle reports length %d\n", n); return 1; }
		printf("OK\n"); return 0;
	}
	return 2;
}
