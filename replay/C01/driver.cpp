// Native replay for C01: the REAL asl::Array against a std::vector reference, under ASan/UBSan.
#include <asl/Array.h>
#include <asl/String.h>
#include <stdio.h>
#include <stdlib.h>
#include <vector>
#include <algorithm>
#include <string>
using namespace asl;
struct Counted { static int live, ctor, dtor; int v; Counted() : v(0) { ctor++; live++; } Counted(int x) : v(x) { ctor++; live++; } Counted(const Counted& o) : v(o.v) { ctor++; live++; } ~Counted() { dtor++; live--; } bool operator==(const Counted& o) const { return v == o.v; } bool operator!=(const Counted& o) const { return v != o.v; } };
int Counted::live = 0, Counted::ctor = 0, Counted::dtor = 0;
template<class A, class V> static int same(const char* what, const A& a, const V& v) {
	if (a.length() != (int)v.size()) { printf("REPRODUCED %s: length %d, reference %d\n", what, a.length(), (int)v.size()); return 1; }
	for (int i = 0; i < a.length(); i++) if (!(a[i] == v[i])) { printf("REPRODUCED %s: element %d differs from the reference sequence\n", what, i); return 1; }
	return 0;
}
int main(int argc, char** argv)
{
	std::string cmd = argc > 1 ? argv[1] : "";
	if (cmd == "insert_alias") {           // insert_alias <n> <k> <j>: a = [100..100+n) with capacity == max(n,3); a.insert(k, a[j])
		int n = atoi(argv[2]), k = atoi(argv[3]), j = atoi(argv[4]);
		Array<int> a(n); std::vector<int> v(n);
		for (int i = 0; i < n; i++) a[i] = v[i] = 100 + i;
		int x = v[j];
		a.insert(k, a[j]); v.insert(v.begin() + (k == -1 ? n : k), x);
		if (same("insert(k, a[j])", a, v)) return 1;
		printf("OK\n"); return 0;
	}
	if (cmd == "insert") { int n = atoi(argv[2]), k = atoi(argv[3]); Array<int> a(n); std::vector<int> v(n); for (int i = 0; i < n; i++) a[i] = v[i] = 100 + i;
		a.insert(k, 7); v.insert(v.begin() + (k == -1 ? n : k), 7); if (same("insert", a, v)) return 1; printf("OK\n"); return 0; }
	if (cmd == "remove") {                 // remove <n> <i> <c> with a counted element type
		int n = atoi(argv[2]), i = atoi(argv[3]), c = atoi(argv[4]);
		{
			Array<Counted> a; std::vector<int> v;
			for (int q = 0; q < n; q++) { a << Counted(100 + q); v.push_back(100 + q); }
			int d0 = Counted::dtor;
			a.remove(i, c); if (i + c <= n) v.erase(v.begin() + i, v.begin() + i + c);
			std::vector<Counted> vv(v.begin(), v.end());
			if (same("remove", a, vv)) return 1;
		}
		if (Counted::live != 0) { printf("REPRODUCED remove: %d elements constructed but not destroyed exactly once (live=%d)\n", Counted::ctor, Counted::live); return 1; }
		printf("OK\n"); return 0;
	}
	if (cmd == "selfassign") { Array<int> a(3); a[0] = 1; a[1] = 2; a[2] = 3; Array<int>& b = a; a = b; if (a.length() != 3 || a[2] != 3) { printf("REPRODUCED self-assignment\n"); return 1; } printf("OK\n"); return 0; }
	if (cmd == "append_self") { int n = atoi(argv[2]); Array<int> a(n); std::vector<int> v(n); for (int i = 0; i < n; i++) a[i] = v[i] = 100 + i; a.append(a); std::vector<int> w = v; v.insert(v.end(), w.begin(), w.end()); if (same("a.append(a)", a, v)) return 1; printf("OK\n"); return 0; }
	if (cmd == "shared_growth") {          // two handles to one block; growing through one of them
		Array<int> a(3); a[0] = 1; a[1] = 2; a[2] = 3;
		Array<int> b = a;                    // shares the block (rc == 2)
		a << 4;                              // capacity 3 exhausted: the block is reallocated
		int n = b.length();                  // b still points at the old block
		if (n != 3 && n != 4) { printf("REPRODUCED second handle reports length %d\n", n); return 1; }
		printf("OK\n"); return 0;
	}
	if (cmd == "battery") {               // small-scope exhaustive over the operations the C01 units verify, with an element type that owns heap memory and one that counts its life cycle
		auto name = [](int i) { char b[80]; snprintf(b, 80, "element-%03d-with-a-heap-allocated-payload-%03d", i, i * 7 + 1); return std::string(b); };
		auto eq = [](const Array<String>& a, const std::vector<std::string>& v) { if (a.length() != (int)v.size()) return false; for (int i = 0; i < a.length(); i++) if (std::string(*a[i], a[i].length()) != v[i]) return false; return true; };
		for (int n = 0; n <= 9; n++) {
			// insert(k, x) for a separate x and for x = a[src]; operator<< of an own element at every fill level; remove(i, c); resize both ways
			for (int k = 0; k <= n; k++) for (int src = -1; src < n; src++) { Array<String> a; std::vector<std::string> v; for (int i = 0; i < n; i++) { a << String(name(i).c_str()); v.push_back(name(i)); }
				std::string x = src < 0 ? name(500) : v[src]; if (src < 0) a.insert(k, String(x.c_str())); else a.insert(k, a[src]); v.insert(v.begin() + k, x);
				if (!eq(a, v)) { printf("REPRODUCED Array<String>(%d).insert(%d, %s): differs from the reference sequence\n", n, k, src < 0 ? "x" : "a[src]"); return 1; } }
			for (int src = 0; src < n; src++) { Array<String> a; std::vector<std::string> v; for (int i = 0; i < n; i++) { a << String(name(i).c_str()); v.push_back(name(i)); } a << a[src]; v.push_back(v[src]);
				if (!eq(a, v)) { printf("REPRODUCED a << a[%d] with %d elements\n", src, n); return 1; } }
			{ Array<String> a; std::vector<std::string> v; for (int i = 0; i < n; i++) { a << String(name(i).c_str()); v.push_back(name(i)); } a.append(a); std::vector<std::string> w = v; v.insert(v.end(), w.begin(), w.end());
			  if (!eq(a, v)) { printf("REPRODUCED a.append(a) with %d elements\n", n); return 1; }
			  Array<String> b; b << String("x"); b.append(a); if (b.length() != 2 * n + 1) { printf("REPRODUCED b.append(a) length\n"); return 1; } }
			for (int i = 0; i < n; i++) for (int c = 0; i + c <= n; c++) { Counted::live = Counted::ctor = Counted::dtor = 0; { Array<Counted> a; std::vector<int> v; for (int q = 0; q < n; q++) { a << Counted(q); v.push_back(q); }
				a.remove(i, c); v.erase(v.begin() + i, v.begin() + i + c); if (a.length() != (int)v.size()) { printf("REPRODUCED remove(%d,%d) of %d: length\n", i, c, n); return 1; }
				for (int q = 0; q < a.length(); q++) if (a[q].v != v[q]) { printf("REPRODUCED remove(%d,%d) of %d: element %d\n", i, c, n, q); return 1; }
				if (Counted::live != a.length()) { printf("REPRODUCED remove(%d,%d) of %d: %d elements alive, array holds %d (destroyed twice or not at all)\n", i, c, n, Counted::live, a.length()); return 1; } }
				if (Counted::live != 0) { printf("REPRODUCED after the array is gone %d elements are still alive / destroyed twice\n", Counted::live); return 1; } }
			for (int m = 0; m <= 12; m += 3) { Counted::live = 0; { Array<Counted> a; for (int q = 0; q < n; q++) a << Counted(q); a.resize(m); if (a.length() != m || Counted::live != m) { printf("REPRODUCED resize(%d) of %d elements: %d alive\n", m, n, Counted::live); return 1; }
				for (int q = 0; q < m && q < n; q++) if (a[q].v != q) { printf("REPRODUCED resize(%d) lost element %d\n", m, q); return 1; } } if (Counted::live != 0) { printf("REPRODUCED life cycle after resize\n"); return 1; } }
			// handles: copy, assignment, self-assignment, clear through one handle
			{ Counted::live = 0; { Array<Counted> a; for (int q = 0; q < n; q++) a << Counted(q); Array<Counted> b = a, c; c = a; Array<Counted>& r = a; a = r; if (b.length() != n || c.length() != n || a.length() != n) { printf("REPRODUCED copy / assignment / self-assignment lengths\n"); return 1; }
				for (int q = 0; q < n; q++) if (a[q].v != q || b[q].v != q || c[q].v != q) { printf("REPRODUCED copy / assignment contents\n"); return 1; } Array<Counted> d = a.clone(); if (Counted::live != 2 * n) { printf("REPRODUCED clone: %d alive, want %d\n", Counted::live, 2 * n); return 1; } }
			  if (Counted::live != 0) { printf("REPRODUCED %d elements alive after all handles are gone\n", Counted::live); return 1; } }
		}
		// clone() / dup() give independent arrays also when there is nothing to copy; growth through reserve / resize / append(array) keeps the life cycle balanced
		{ Array<int> e; Array<int> c = e.clone(); c << 1 << 2; if (e.length() != 0) { printf("REPRODUCED clone of an empty array shares its storage: the source has %d elements after appending to the clone\n", e.length()); return 1; }
		  Array<String> s; s << String("x"); s.clear(); Array<String> c2 = s.clone(); s << String("y"); if (c2.length() != 0) { printf("REPRODUCED clone of a cleared array shares its storage\n"); return 1; }
		  Array<int> sh; Array<int> h2 = sh; h2.dup(); h2 << 5; if (sh.length() != 0) { printf("REPRODUCED dup() of a shared empty array does not detach it\n"); return 1; } }
		for (int n = 1; n <= 40; n += 3) { Counted::live = Counted::ctor = Counted::dtor = 0; { Array<Counted> a; for (int q = 0; q < n; q++) a << Counted(q); a.reserve(4 * n + 7); a.resize(2 * n); Array<Counted> b; b << Counted(1); b.append(a);
			if (Counted::live != 2 * n + 1 + 2 * n) { printf("REPRODUCED after reserve / resize / append(array) of %d elements %d are alive, the arrays hold %d\n", n, Counted::live, 4 * n + 1); return 1; } }
			if (Counted::live != 0 || Counted::ctor != Counted::dtor) { printf("REPRODUCED growth through reserve: %d elements constructed but %d destroyed\n", Counted::ctor, Counted::dtor); return 1; } }
		// sort(): every permutation of up to 7 distinct values and every sequence over {0,1,2} up to length 7; slice(): every range, independent of the source
		{ for (int n = 0; n <= 7; n++) { std::vector<int> v(n); for (int i = 0; i < n; i++) v[i] = i; do { Array<int> a; for (int x : v) a << x; a.sort(); for (int i = 0; i < n; i++) if (a[i] != i) { printf("REPRODUCED sort() of a permutation of %d values leaves %d at position %d\n", n, a[i], i); return 1; } } while (std::next_permutation(v.begin(), v.end())); }
		  for (int n = 0; n <= 7; n++) { int total = 1; for (int i = 0; i < n; i++) total *= 3; for (int code = 0; code < total; code++) { Array<int> a; std::vector<int> v; int c = code; for (int i = 0; i < n; i++, c /= 3) { a << c % 3; v.push_back(c % 3); } a.sort(); std::sort(v.begin(), v.end()); for (int i = 0; i < n; i++) if (a[i] != v[i]) { printf("REPRODUCED sort() with duplicates\n"); return 1; } } }
		  for (int n = 0; n <= 6; n++) for (int i1 = 0; i1 <= n; i1++) for (int i2 = i1; i2 <= n; i2++) { if (i2 == 0 && n > 0) continue; Array<int> a; for (int q = 0; q < n; q++) a << 10 + q; Array<int> sl = a.slice(i1, i2); int want = i2 - i1;
			if (sl.length() != want) { printf("REPRODUCED slice(%d,%d) of %d has %d elements\n", i1, i2, n, sl.length()); return 1; } for (int q = 0; q < want; q++) if (sl[q] != 10 + i1 + q) { printf("REPRODUCED slice content\n"); return 1; }
			a << 99; if (n) a[0] = -1; if (sl.length() != want || (want && i1 == 0 && sl[0] != 10)) { printf("REPRODUCED slice(%d,%d) of a %d-element array changes when the source is changed afterwards\n", i1, i2, n); return 1; } } }
		printf("OK\n"); return 0;
	}
	return 2;
}
