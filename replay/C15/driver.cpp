// Native replay for C15: real encodeBase64/decodeBase64/encodeHex/decodeHex/Url/SHA1 against references written from the standards.
#include <asl/util.h>
#include <asl/SHA1.h>
#include <asl/Http.h>
#include <stdio.h>
#include <stdlib.h>
#include <stdint.h>
#include <string.h>
#include <string>
#include <vector>
using namespace asl;
static std::string unhex(const char* h) { std::string r; if (h[0] == '-') return r; for (size_t i = 0; h[i] && h[i + 1]; i += 2) { char b[3] = { h[i], h[i + 1], 0 }; r.push_back((char)strtoul(b, 0, 16)); } return r; }
static std::string b64ref(const std::string& d) {       // RFC 4648 section 4
	static const char* A = "ABCDEFGHIJKLMNOPQRSTUVWXYZabcdefghijklmnopqrstuvwxyz0123456789+/"; std::string o; size_t n = d.size();
	for (size_t i = 0; i < n; i += 3) { unsigned a = (unsigned char)d[i], b = i + 1 < n ? (unsigned char)d[i + 1] : 0, c = i + 2 < n ? (unsigned char)d[i + 2] : 0, u = a << 16 | b << 8 | c;
		o += A[u >> 18 & 63]; o += A[u >> 12 & 63]; o += i + 1 < n ? A[u >> 6 & 63] : '='; o += i + 2 < n ? A[u & 63] : '='; }
	return o;
}
static void sha1ref(const std::vector<unsigned char>& msg, unsigned char out[20]) {   // FIPS 180-4 section 6.1
	uint32_t h[5] = { 0x67452301, 0xEFCDAB89, 0x98BADCFE, 0x10325476, 0xC3D2E1F0 };
	std::vector<unsigned char> m = msg; uint64_t bits = (uint64_t)msg.size() * 8; m.push_back(0x80); while (m.size() % 64 != 56) m.push_back(0);
	for (int i = 7; i >= 0; i--) m.push_back((unsigned char)(bits >> (8 * i)));
	for (size_t off = 0; off < m.size(); off += 64) {
		uint32_t w[80]; for (int t = 0; t < 16; t++) w[t] = m[off + 4 * t] << 24 | m[off + 4 * t + 1] << 16 | m[off + 4 * t + 2] << 8 | m[off + 4 * t + 3];
		for (int t = 16; t < 80; t++) { uint32_t x = w[t - 3] ^ w[t - 8] ^ w[t - 14] ^ w[t - 16]; w[t] = x << 1 | x >> 31; }
		uint32_t a = h[0], b = h[1], c = h[2], d = h[3], e = h[4];
		for (int t = 0; t < 80; t++) { uint32_t f = t < 20 ? (b & c) ^ (~b & d) : t < 40 ? b ^ c ^ d : t < 60 ? (b & c) ^ (b & d) ^ (c & d) : b ^ c ^ d, k = t < 20 ? 0x5a827999 : t < 40 ? 0x6ed9eba1 : t < 60 ? 0x8f1bbcdc : 0xca62c1d6;
			uint32_t T = (a << 5 | a >> 27) + f + e + k + w[t]; e = d; d = c; c = b << 30 | b >> 2; b = a; a = T; }
		h[0] += a; h[1] += b; h[2] += c; h[3] += d; h[4] += e;
	}
	for (int i = 0; i < 20; i++) out[i] = (unsigned char)(h[i / 4] >> (8 * (3 - i % 4)));
}
int main(int argc, char** argv)
{
	std::string cmd = argc > 1 ? argv[1] : "";
	if (cmd == "b64") { std::string d = unhex(argv[2]); String e = encodeBase64((const byte*)d.data(), (int)d.size()); if (std::string(*e, e.length()) != b64ref(d)) { printf("REPRODUCED encodeBase64: got %s want %s\n", *e, b64ref(d).c_str()); return 1; }
		ByteArray back = decodeBase64(e); if (back.length() != (int)d.size() || memcmp(back.data(), d.data(), d.size())) { printf("REPRODUCED decodeBase64(encodeBase64(x)) != x\n"); return 1; } printf("OK\n"); return 0; }
	if (cmd == "b64len") { int n = atoi(argv[2]); std::string d(n, 0); for (int i = 0; i < n; i++) d[i] = char(i * 37 + 11); String e = encodeBase64((const byte*)d.data(), n); if (std::string(*e, e.length()) != b64ref(d)) { printf("REPRODUCED encodeBase64 for %d bytes\n", n); return 1; } printf("OK\n"); return 0; }
	if (cmd == "unb64") { std::string t = unhex(argv[2]); ByteArray a = decodeBase64(t.c_str()); if (a.length() < 0) { printf("REPRODUCED decodeBase64 returned length %d\n", a.length()); return 1; } printf("OK %d\n", a.length()); return 0; }
	if (cmd == "b64ws") {       // b64ws <char code>: RFC text of a fixed message with that character put between the symbols must decode to the message
		int ch = atoi(argv[2]); std::string d = "Many hands make light work."; std::string e = b64ref(d), t;
		for (size_t i = 0; i < e.size(); i++) { t += e[i]; if (i % 3 == 1) t += char(ch); }
		ByteArray a = decodeBase64(t.c_str());
		if (a.length() != (int)d.size() || memcmp(a.data(), d.data(), d.size()) != 0) { printf("REPRODUCED decodeBase64 of text interleaved with character %d: %d bytes, differs from the %d encoded\n", ch, a.length(), (int)d.size()); return 1; }
		printf("OK\n"); return 0; }
	if (cmd == "unhex") { std::string t = unhex(argv[2]); ByteArray a = decodeHex(String(t.c_str())); printf("OK %d\n", a.length()); return 0; }
	if (cmd == "sha1") {        // sha1 <len>: message of that length (and the neighbours of every 64-byte boundary)
		int len = atoi(argv[2]);
		for (int L = len > 2 ? len - 2 : 0; L <= len + 2; L++) { std::vector<unsigned char> m(L); for (int i = 0; i < L; i++) m[i] = (unsigned char)(i * 131 + 7);
			unsigned char want[20]; sha1ref(m, want); SHA1::Hash got = SHA1::hash(m.data(), L);
			if (memcmp(&got[0], want, 20)) { printf("REPRODUCED SHA1::hash differs from FIPS 180-4 for a %d-byte message\n", L); return 1; } }
		printf("OK\n"); return 0; }
	if (cmd == "url") { std::string t = unhex(argv[2]); String s(t.c_str()); for (int comp = 0; comp < 2; comp++) { String e = Url::encode(s, comp != 0), d = Url::decode(e); if (d != s) { printf("REPRODUCED Url::decode(Url::encode(s)) != s (component=%d)\n", comp); return 1; } } printf("OK\n"); return 0; }
	if (cmd == "battery") {
		// Base64: every length 0..400, RFC text, decode back, decode with whitespace interleaved; hex both ways
		for (int n = 0; n <= 400; n++) { std::string d(n, 0); for (int i = 0; i < n; i++) d[i] = char(i * 37 + 11 + n);
			byte* exact = (byte*)malloc(n ? n : 1); memcpy(exact, d.data(), n);      /* exact-size heap copy: ASan sees a read of data[n] */
			String e = encodeBase64(exact, n); free(exact); std::string want = b64ref(d);
			if (std::string(*e, e.length()) != want) { printf("REPRODUCED encodeBase64 of %d bytes differs from RFC 4648\n", n); return 1; }
			ByteArray back = decodeBase64(e); if (back.length() != n || (n && memcmp(back.data(), d.data(), n))) { printf("REPRODUCED decodeBase64(encodeBase64(x)) != x for %d bytes\n", n); return 1; }
			const char ws[4] = { ' ', '\t', '\r', '\n' }; std::string t; for (size_t i = 0; i < want.size(); i++) { t += want[i]; if (i % 3 == 1) t += ws[(i / 3) % 4]; if (i % 76 == 75) t += "\r\n"; }
			ByteArray b2 = decodeBase64(t.c_str()); if (b2.length() != n || (n && memcmp(b2.data(), d.data(), n))) { printf("REPRODUCED decodeBase64 of text interleaved with whitespace differs for %d bytes (%d decoded)\n", n, b2.length()); return 1; }
			String h = encodeHex((const byte*)d.data(), n); if (h.length() != 2 * n) { printf("REPRODUCED encodeHex length\n"); return 1; }
			for (int i = 0; i < n; i++) { char x[3]; snprintf(x, 3, "%02x", (unsigned char)d[i]); if (h[2 * i] != x[0] || h[2 * i + 1] != x[1]) { printf("REPRODUCED encodeHex is not lowercase hex of the bytes (%d bytes)\n", n); return 1; } }
			ByteArray hb = decodeHex(h); if (hb.length() != n || (n && memcmp(hb.data(), d.data(), n))) { printf("REPRODUCED decodeHex(encodeHex(x)) != x for %d bytes\n", n); return 1; } }
		// malformed input: every string over { A = - space junk } up to length 6, odd-length hex
		{ const char alpha[] = { 'A', '=', '-', ' ', '\n', '/' }; for (int len = 0; len <= 6; len++) { int total = 1; for (int i = 0; i < len; i++) total *= 6;
			for (int code = 0; code < total; code++) { char t[8]; int c = code; for (int i = 0; i < len; i++, c /= 6) t[i] = alpha[c % 6]; t[len] = 0; ByteArray a = decodeBase64(t); if (a.length() < 0 || a.length() > len) { printf("REPRODUCED decodeBase64(\"%s\") returned length %d\n", t, a.length()); return 1; } } }
		  for (int len = 0; len <= 41; len++) { std::string t(len, 'a'); for (int i = 0; i < len; i++) t[i] = "0123456789abcdefXYZ"[i % 19]; ByteArray a = decodeHex(String(t.c_str())); if (a.length() != len / 2) { printf("REPRODUCED decodeHex of %d characters returned %d bytes\n", len, a.length()); return 1; } } }
		// percent-encoding: every byte alone and inside text, both modes; query dictionaries with reserved characters
		for (int c = 1; c < 256; c++) for (int comp = 0; comp < 2; comp++) { String s1; s1 << (char)c; String s2; s2 << "a b" << (char)c << "z/?&=+%41";
			if (Url::decode(Url::encode(s1, comp != 0)) != s1 || Url::decode(Url::encode(s2, comp != 0)) != s2) { printf("REPRODUCED Url::decode(Url::encode(s)) != s for byte 0x%02x (component=%d)\n", c, comp); return 1; } }
		{ Dic<> d; d["plain"] = "value"; d["a&b"] = "c=d"; d["sp ace"] = "1 + 1 = 2"; d["pct%"] = "%26%3D%2B"; d["u\xC3\xA9"] = "\xE2\x82\xAC" "5"; d["e"] = "";
		  Dic<> back = Url::parseQuery(Url::params(d)); if (back.length() != d.length()) { printf("REPRODUCED parseQuery(params(d)) has %d entries, d has %d\n", back.length(), d.length()); return 1; }
		  foreach2(String& k, String& v, d) if (!back.has(k) || back[k] != v) { printf("REPRODUCED parseQuery(params(d)): key '%s' -> '%s', expected '%s'\n", *k, back.has(k) ? *back[k] : "(missing)", *v); return 1; } }
		// SHA-1: every length 0..260 (all padding cases) and a few larger ones, one-shot (update() is private)
		for (int L = 0; L <= 260 || L == 1000 || L == 4096 + 63; L = L < 260 ? L + 1 : L == 260 ? 1000 : L == 1000 ? 4096 + 63 : 1 << 30) { std::vector<unsigned char> m(L); for (int i = 0; i < L; i++) m[i] = (unsigned char)(i * 131 + 7);
			unsigned char want[20]; sha1ref(m, want); SHA1::Hash got = SHA1::hash(L ? m.data() : (const unsigned char*)"", L); if (memcmp(&got[0], want, 20)) { printf("REPRODUCED SHA1::hash differs from FIPS 180-4 for a %d-byte message\n", L); return 1; }
			if (L >= 1 << 20) break; }
		printf("OK\n"); return 0;
	}
	return 2;
}
