// Native replay for C17: real File / TextFile against what was written (ASan/UBSan build of the working tree).
#include <asl/File.h>
#include <asl/TextFile.h>
#include <asl/Directory.h>
#include <stdio.h>
#include <stdlib.h>
#include <string.h>
#include <string>
#include <vector>
using namespace asl;
static const char* P = "/tmp/vf_c17_battery.tmp";
static void put(const std::string& bytes) { FILE* f = fopen(P, "wb"); fwrite(bytes.data(), 1, bytes.size(), f); fclose(f); }
// reference: the pieces obtained by splitting the text at LF, one CR before each LF removed.  lines() returns all pieces (so a final newline gives a last empty piece);
// the readLine() sequence is the same without that empty piece after the end of the text
static std::vector<std::string> ref_split(const std::string& t) { std::vector<std::string> r; std::string cur; for (size_t i = 0; i < t.size(); i++) { if (t[i] == '\n') { if (!cur.empty() && cur[cur.size() - 1] == '\r') cur.erase(cur.size() - 1); r.push_back(cur); cur.clear(); } else cur.push_back(t[i]); } r.push_back(cur); return r; }
static int check_lines(const std::string& text, const char* what, int len) {
	put(text); std::vector<std::string> all = ref_split(text);
	// (the documented reading idiom: while(!f.end()) line = f.readLine(); - the bool result of readLine(String&) is false for a last line without newline, so it is not used)
	{ TextFile f(P, File::READ); size_t i = 0; while (!f.end()) { String s = f.readLine(); if (i >= all.size() || std::string(*s, s.length()) != all[i]) { printf("REPRODUCED readLine: line %d of a file of %s lines of %d characters is wrong (got %d characters%s)\n", (int)i, what, len, s.length(), s.length() && s[s.length() - 1] == '\r' ? ", trailing CR" : ""); return 1; } i++; }
	  if (i != all.size()) { printf("REPRODUCED readLine returned %d lines, want %d (%s, %d)\n", (int)i, (int)all.size(), what, len); return 1; } }
	{ Array<String> ls = TextFile(P).lines(); if (ls.length() != (int)all.size()) { printf("REPRODUCED lines() returned %d lines, want %d (%s, %d)\n", ls.length(), (int)all.size(), what, len); return 1; }
	  for (int i = 0; i < ls.length(); i++) if (std::string(*ls[i], ls[i].length()) != all[i]) { printf("REPRODUCED lines(): line %d differs (%s, %d)\n", i, what, len); return 1; } }
	return 0;
}
int main(int argc, char** argv)
{
	std::string cmd = argc > 1 ? argv[1] : "";
	if (cmd == "battery") {
		// lines of every length 0..1100 (around the 254-character fgets chunks), LF and CRLF, with and without a final newline
		for (int len = 0; len <= 1100; len++) { std::string line; for (int i = 0; i < len; i++) line.push_back(char('a' + i % 26));
			if (check_lines(line + "\n" + "x" + line + "\n", "LF", len) || check_lines(line + "\r\n" + "y\r\n", "CRLF", len) || check_lines("first\n" + line, "unterminated", len)) return 1;
			if (len % 50 == 0 && check_lines(line + "\r" + line + "\n\r\n\n", "lone-CR", len)) return 1; }
		// bytes written = bytes read back, size(); one File object reused across write / size() in the middle / close / append / reopen
		{ int sizes[] = { 0, 1, 2, 3, 254, 255, 256, 65535, 65536, 65537, 200000 };
		  for (unsigned k = 0; k < sizeof(sizes) / sizeof(sizes[0]); k++) { int n = sizes[k]; ByteArray a(n); for (int i = 0; i < n; i++) a[i] = byte(i * 7 + (i >> 8) + k);
			File f(P); f.put(a); f.close(); if (f.size() != n) { printf("REPRODUCED size() = %d after put of %d bytes\n", (int)f.size(), n); return 1; }
			ByteArray b = File(P).content(); if (b.length() != n || (n && memcmp(b.data(), a.data(), n) != 0)) { printf("REPRODUCED content() differs from the %d bytes written\n", n); return 1; }
			ByteArray fb = File(P).firstBytes(10); if (fb.length() != (n < 10 ? n : 10) || (fb.length() && memcmp(fb.data(), a.data(), fb.length()) != 0)) { printf("REPRODUCED firstBytes(10) of a %d-byte file\n", n); return 1; } } }
		{ File f(P); f.open(File::WRITE); ByteArray part(100); for (int i = 0; i < 100; i++) part[i] = byte(i); f << part; f.flush(); Long mid = f.size(); f << part << part; f.close();
		  if (mid != 100) { printf("REPRODUCED size() = %d after flushing 100 bytes\n", (int)mid); return 1; }
		  if (f.size() != 300) { printf("REPRODUCED size() = %d after write / size() / write / close of 300 bytes (stale cached size)\n", (int)f.size()); return 1; }
		  if (f.content().length() != 300) { printf("REPRODUCED content() returns %d of 300 bytes after write / size() / write / close\n", f.content().length()); return 1; }
		  f.open(File::APPEND); f << part; f.close(); if (f.size() != 400 || File(P).content().length() != 400) { printf("REPRODUCED size after append: %d, want 400\n", (int)f.size()); return 1; } }
		{ TextFile t(P); t.open(File::WRITE); t << "0123456789\n"; t.flush(); Long mid = t.size(); t << "abcdefghijklmnopqrstuvwxyz\n" << "end"; t.close();
		  String all = t.text(); if (mid != 11 || all != "0123456789\nabcdefghijklmnopqrstuvwxyz\nend") { printf("REPRODUCED text() after write / size() / write / close returns %d characters, want 41\n", all.length()); return 1; } }
		// text streamed through operator<<(const char*) is data, not a printf format
		{ TextFile t(P, File::WRITE); t << "a%%b%d%s 100%" << "\n" << "%"; t.close(); String got = TextFile(P).text(); if (got != "a%%b%d%s 100%\n%") { printf("REPRODUCED text streamed with << (const char*) containing '%%' comes back as %d bytes: %s\n", got.length(), *got); return 1; } }
		{ ByteArray e; File f(P); { ByteArray full(300); f.put(full); f.close(); } f.put(e); f.close(); if (File(P).size() != 0) { printf("REPRODUCED put of 0 bytes over a 300-byte file leaves size() = %d\n", (int)File(P).size()); return 1; } }
		// writing the empty text truncates / creates the file
		{ { TextFile t(P); t.put("old content"); } { TextFile t(P); t.put(""); } if (File(P).size() != 0) { printf("REPRODUCED put(\"\") over an existing file leaves %d bytes\n", (int)File(P).size()); return 1; }
		  remove(P); { TextFile t(P); t.write(""); } if (!File(P).exists() || File(P).size() != 0) { printf("REPRODUCED write(\"\") on a fresh path does not create an empty file\n"); return 1; } }
		// UTF-16 files with characters of every plane
		{ int cps[] = { 0x41, 0xE9, 0x20AC, 0xFFFD, 0x10000, 0x1F600, 0x20000, 0x2A6DF, 0xE0001, 0x10FFFF }; for (int be = 0; be < 2; be++) { std::string t = be ? "\xFE\xFF" : "\xFF\xFE", want; for (int cp : cps) { unsigned short u[2]; int nu = 1; if (cp >= 0x10000) { int v = cp - 0x10000; u[0] = 0xD800 + (v >> 10); u[1] = 0xDC00 + (v & 0x3ff); nu = 2; } else u[0] = (unsigned short)cp;
				for (int q = 0; q < nu; q++) { char lo = char(u[q] & 255), hi = char(u[q] >> 8); if (be) { t.push_back(hi); t.push_back(lo); } else { t.push_back(lo); t.push_back(hi); } }
				if (cp < 0x80) want.push_back(char(cp)); else if (cp < 0x800) { want.push_back(char(0xC0 | cp >> 6)); want.push_back(char(0x80 | (cp & 63))); } else if (cp < 0x10000) { want.push_back(char(0xE0 | cp >> 12)); want.push_back(char(0x80 | ((cp >> 6) & 63))); want.push_back(char(0x80 | (cp & 63))); } else { want.push_back(char(0xF0 | cp >> 18)); want.push_back(char(0x80 | ((cp >> 12) & 63))); want.push_back(char(0x80 | ((cp >> 6) & 63))); want.push_back(char(0x80 | (cp & 63))); } }
			put(t); String got = TextFile(P).text(); if (std::string(*got, got.length()) != want) { printf("REPRODUCED text() of a UTF-16%s file with supplementary-plane characters differs from their UTF-8\n", be ? "BE" : "LE"); return 1; } } }
		// byte-order marks: the same text in UTF-8
		{ const char* u8 = "h\xC3\xA9llo \xE2\x82\xAC\nline2\nx"; std::string bom8 = std::string("\xEF\xBB\xBF") + u8; put(bom8);
		  if (TextFile(P).text() != u8) { printf("REPRODUCED text() of a UTF-8 BOM file\n"); return 1; }
		  unsigned short units[] = { 'h', 0xE9, 'l', 'l', 'o', ' ', 0x20AC, '\r', '\n', 'l', 'i', 'n', 'e', '2', '\n', 'x' };
		  for (int be = 0; be < 2; be++) { std::string t = be ? "\xFE\xFF" : "\xFF\xFE"; for (unsigned i = 0; i < sizeof(units) / 2; i++) { char lo = char(units[i] & 255), hi = char(units[i] >> 8); if (be) { t.push_back(hi); t.push_back(lo); } else { t.push_back(lo); t.push_back(hi); } }
			put(t); String got = TextFile(P).text(); if (got != u8) { printf("REPRODUCED text() of a UTF-16%s file differs from the UTF-8 text (%d bytes, want %d)\n", be ? "BE" : "LE", got.length(), (int)strlen(u8)); return 1; } } }
		// Directory::copy / File::copy for sizes around the 65536-byte block
		{ const char* Q = "/tmp/vf_c17_battery.copy"; for (int n : { 0, 1, 65535, 65536, 65537, 65544, 131071, 131072, 131073, 200000 }) { ByteArray a(n); for (int i = 0; i < n; i++) a[i] = byte(i * 11 + (i >> 9)); { File f(P); f.put(a); f.close(); } remove(Q);
			if (!Directory::copy(P, Q)) { printf("REPRODUCED Directory::copy of a %d-byte file fails\n", n); return 1; } ByteArray b = File(Q).content(); remove(Q);
			if (b.length() != n || (n && memcmp(b.data(), a.data(), n) != 0)) { printf("REPRODUCED Directory::copy of a %d-byte file produced %d bytes\n", n, b.length()); return 1; } } }
		// text() of files without a BOM whose first bytes resemble one
		{ const char* starts[] = { "\xEF\xBB\xBB" "rest", "\xEF\xBB\xBE", "\xEF\xBB", "\xEF", "\xEF\xBBx-text", "\xFFx", "\xFE", "\xEF\xBB\xBF" "after-bom" };
		  for (const char* st : starts) { std::string t = st; put(t); String got = TextFile(P).text(); std::string want = t.compare(0, 3, "\xEF\xBB\xBF") == 0 ? t.substr(3) : t;
			if (std::string(*got, got.length()) != want) { printf("REPRODUCED text() of a %d-byte file starting %02x %02x %02x returns %d bytes, want %d\n", (int)t.size(), (unsigned char)t[0], t.size() > 1 ? (unsigned char)t[1] : 0, t.size() > 2 ? (unsigned char)t[2] : 0, got.length(), (int)want.size()); return 1; } } }
		remove(P); printf("OK\n"); return 0;
	}
	return 2;
}
