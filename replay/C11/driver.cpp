// Native replay for C11: a raw TCP client sends hand-made frames to the REAL library WebSocketServer (ASan/UBSan build).
//   hostile <hex of raw frame bytes>   : the library must not crash and must not deliver a message of negative length
//   echo <len>                         : one masked binary message of that length must come back byte-identical, framed per RFC 6455
#include <asl/Socket.h>
#include <asl/SocketServer.h>
#include <asl/WebSocket.h>
#include <asl/Thread.h>
#include <stdio.h>
#include <stdlib.h>
#include <string.h>
#include <string>
#include <unistd.h>
using namespace asl;
static volatile int g_len = 0, g_got = 0, g_hostile = 0;
struct Srv : public WebSocketServer {
	void serve(WebSocket& ws) {
		while (!ws.closed()) {
			if (!ws.wait(3)) break;
			WebSocketMsg m = ws.receive();
			g_len = m.length(); g_got = 1;
			if (m.length() < 0) { printf("REPRODUCED the library delivered a message of length %d\n", m.length()); fflush(stdout); _exit(1); }
			if (g_hostile) { printf("OK (delivered length %d)\n", m.length()); fflush(stdout); _exit(0); }   // leave before the handler thread deletes itself (SocketServer tear-down is C14, not this property)
			if (ws.closed() || m.length() <= 0) break;
			if (m.length() > 0 && (*m)[0] == 'S') { String t = m; ws.send(t); }          /* the application takes the message as text */
			else { ByteArray data = m; ws.send(data); }
		}
	}
};
static std::string unhex(const char* h) { std::string r; for (size_t i = 0; h[i] && h[i + 1]; i += 2) { char b[3] = { h[i], h[i + 1], 0 }; r.push_back((char)strtoul(b, 0, 16)); } return r; }
static bool readAll(Socket& s, void* p, int n) { return n == 0 || s.read(p, n) == n; }
static int echo_one(Socket& s, int n, int pieces) {
	ByteArray msg(n); for (int i = 0; i < n; i++) msg[i] = byte(i * 13 + 5 + n);
	byte key[4] = { 0x37, 0x00, 0x21, 0xff }; ByteArray f;
	// the message goes out in `pieces` frames (fragmentation, RFC 6455 5.4): first opcode 2 (binary), then continuation frames, FIN on the last
	for (int p = 0; p < pieces; p++) { int from = (int)((long long)n * p / pieces), to = (int)((long long)n * (p + 1) / pieces), m = to - from;
		f << byte((p == pieces - 1 ? 0x80 : 0x00) | (p == 0 ? 0x02 : 0x00));
		if (m < 126) f << byte(0x80 | m); else if (m < 65536) f << byte(0x80 | 126) << byte(m >> 8) << byte(m); else { f << byte(0x80 | 127); for (int i = 7; i >= 0; i--) f << byte((unsigned long long)m >> (8 * i)); }
		for (int i = 0; i < 4; i++) f << key[i];
		for (int i = 0; i < m; i++) f << byte(msg[from + i] ^ key[i & 3]); }
	s.write(f.data(), f.length());
	if (!s.waitInput(5)) { printf("REPRODUCED no echo for a %d-byte message sent in %d frame(s)\n", n, pieces); return 1; }
	byte h[2]; if (!readAll(s, h, 2)) { printf("REPRODUCED truncated header\n"); return 1; }
	unsigned long long len = h[1] & 0x7f; int form = (int)len;
	if (len == 126) { byte e[2]; readAll(s, e, 2); len = (unsigned)e[0] << 8 | e[1]; } else if (len == 127) { byte e[8]; readAll(s, e, 8); len = 0; for (int i = 0; i < 8; i++) len = len << 8 | e[i]; }
	int wantform = n <= 125 ? n : n <= 65535 ? 126 : 127;
	if (h[0] != 0x82 || form != wantform || len != (unsigned long long)n) { printf("REPRODUCED echo of %d bytes (sent in %d frame(s)) framed as first=%02x form=%d length=%llu\n", n, pieces, h[0], form, len); return 1; }
	ByteArray back((int)len); if (!readAll(s, back.data(), (int)len) || back != msg) { printf("REPRODUCED echoed payload of %d bytes (sent in %d frame(s)) differs\n", n, pieces); return 1; }
	return 0;
}
int main(int argc, char** argv)
{
	std::string cmd = argc > 1 ? argv[1] : "";
	int port = 0; Srv server;
	for (int p = 39300 + (getpid() % 500); p < 39900; p++) if (server.bind("127.0.0.1", p)) { port = p; break; }
	if (!port) { printf("cannot bind\n"); return 0; }
	server.start(true);
	Socket s; if (!s.connect("127.0.0.1", port)) { printf("cannot connect\n"); return 0; }
	s.setBlocking(true);
	s << String("GET / HTTP/1.1\r\nHost: localhost\r\nUpgrade: websocket\r\nConnection: Upgrade\r\nSec-WebSocket-Key: dGhlIHNhbXBsZSBub25jZQ==\r\nSec-WebSocket-Version: 13\r\n\r\n");
	bool accept = false;
	for (int k = 0; k < 20; k++) { String line = s.readLine(); if (line.contains("s3pPLMBiTxaQ9kYGzzhZRbK+xOo=")) accept = true; if (line == "\r" || line == "") break; }
	if (!accept) { printf("REPRODUCED handshake accept key is not the RFC 6455 value\n"); return 1; }
	if (cmd == "hostile") { g_hostile = 1;
		std::string f = unhex(argv[2]); s.write(f.data(), (int)f.size()); sleep(0.5); s.close();
		for (int i = 0; i < 40 && !g_got; i++) sleep(0.1);
		if (g_got && g_len < 0) { printf("REPRODUCED the library delivered a message of length %d\n", g_len); return 1; }
		printf("OK (delivered length %d)\n", g_len); return 0;
	}
	if (cmd == "echo") {
		if (echo_one(s, atoi(argv[2]), 1)) return 1;
		printf("OK\n"); fflush(stdout); _exit(0);
	}
	if (cmd == "battery") {            // every length form boundary, then fragmented messages, on one connection (messages must stay in order and separate)
		int lens[] = { 1, 2, 125, 126, 127, 1000, 32767, 32768, 40000, 65535, 65536, 70000, 3 };
		for (int n : lens) if (echo_one(s, n, 1)) return 1;
		{ // payloads ending in 0x00 (and a single 0x00 byte) keep their length
		  for (int n : { 1, 2, 126, 1000 }) { byte key[4] = { 9, 8, 7, 6 }; ByteArray msg(n); for (int i = 0; i < n; i++) msg[i] = byte(i + 1); msg[n - 1] = 0; ByteArray f; f << byte(0x82); if (n < 126) f << byte(0x80 | n); else f << byte(0x80 | 126) << byte(n >> 8) << byte(n); for (int i = 0; i < 4; i++) f << key[i]; for (int i = 0; i < n; i++) f << byte(msg[i] ^ key[i & 3]);
			s.write(f.data(), f.length()); if (!s.waitInput(5)) { printf("REPRODUCED no echo of a %d-byte message ending in 0x00 (it arrived empty?)\n", n); return 1; } byte h[2]; readAll(s, h, 2); int len = h[1] & 0x7f; if (len == 126) { byte e[2]; readAll(s, e, 2); len = e[0] << 8 | e[1]; } ByteArray back(len); readAll(s, back.data(), len);
			if (len != n) { printf("REPRODUCED a %d-byte message ending in 0x00 comes back with %d bytes\n", n, len); return 1; } } }
		for (int pieces : { 2, 3, 5 }) for (int n : { 10, 300, 70000 }) if (echo_one(s, n, pieces)) return 1;
		{ // a text message containing U+0000, received by the application as a String
		  const char txt[] = { 'S', 'a', 0, 'b', 'c', 0, 0, 'd' }; int n = sizeof(txt); byte key[4] = { 1, 2, 3, 4 }; ByteArray f; f << byte(0x81) << byte(0x80 | n); for (int i = 0; i < 4; i++) f << key[i]; for (int i = 0; i < n; i++) f << byte(txt[i] ^ key[i & 3]);
		  s.write(f.data(), f.length()); if (!s.waitInput(5)) { printf("REPRODUCED no echo of the text message\n"); return 1; } byte h[2]; readAll(s, h, 2); int len = h[1] & 0x7f; ByteArray back(len); readAll(s, back.data(), len);
		  if (len != n || memcmp(back.data(), txt, n) != 0) { printf("REPRODUCED a text message of %d bytes containing zero bytes reached the application as %d bytes\n", n, len); return 1; } }
		{ // the same handshake with lower-case header names (HTTP header names are case-insensitive)
		  Socket& s2 = *new Socket();   /* never closed: a closing connection ends in the handler thread tear-down that ASan aborts on (C14, DESIGN 7) */
		  if (s2.connect("127.0.0.1", port)) { s2.setBlocking(true);
			s2 << String("GET / HTTP/1.1\r\nhost: localhost\r\nupgrade: websocket\r\nconnection: Upgrade\r\nsec-websocket-key: dGhlIHNhbXBsZSBub25jZQ==\r\nsec-websocket-version: 13\r\n\r\n");
			bool ok = false, first = true; String status; for (int k = 0; k < 20; k++) { if (!s2.waitInput(5)) break; String line = s2.readLine(); if (first) { status = line; first = false; } if (line.contains("s3pPLMBiTxaQ9kYGzzhZRbK+xOo=")) ok = true; if (line == "\r" || line == "") break; }
			if (!ok) { printf("REPRODUCED handshake with lower-case header names: %s, accept key not the RFC 6455 value\n", *status); return 1; } } }
		printf("OK\n"); fflush(stdout); _exit(0);
	}
	return 2;
}
