// Native replay for C04: real asl::Var under ASan/UBSan.
#include <asl/Var.h>
#include <asl/String.h>
#include <stdio.h>
#include <stdlib.h>
#include <string>
using namespace asl;
static std::string unhex(const char* h) { std::string r; if (h[0] == '-') return r; for (size_t i = 0; h[i] && h[i + 1]; i += 2) { char b[3] = { h[i], h[i + 1], 0 }; r.push_back((char)strtoul(b, 0, 16)); } return r; }
int main(int argc, char** argv)
{
	std::string cmd = argc > 1 ? argv[1] : "";
	if (cmd == "self_element") {       // assigning to a Var one of its own elements / properties
		{ Var a = Var::ARRAY; a << Var(7) << Var("second"); Var expect = 7; a = a[0]; if (!(a == expect)) { printf("REPRODUCED a = a[0] (type changing)\n"); return 1; } }
		{ Var in = Var::ARRAY; in << 1 << 2; Var a = Var::ARRAY; a << in << 5; Var expect = in.clone(); a = a[0]; if (!(a == expect)) { printf("REPRODUCED a = a[0] (array element)\n"); return 1; } }
		{ Var a; a["x"] = "a long string value here"; a["y"] = 2; Var expect = "a long string value here"; a = a["x"]; if (!(a == expect)) { printf("REPRODUCED a = a[\"x\"]\n"); return 1; } }
		{ Var in; in["k"] = 1; Var a; a["x"] = in; Var expect = in.clone(); a = a["x"]; if (!(a == expect)) { printf("REPRODUCED a = a[\"x\"] (object property)\n"); return 1; } }
		printf("OK\n"); return 0;
	}
	if (cmd == "assign_string") {      // assign_string <target kind 0:none 1:int 2:short string 3:long string> <hex text>
		int kind = atoi(argv[2]); std::string t = unhex(argv[3]);
		struct { Var v; unsigned char guard[16]; } box; for (int i = 0; i < 16; i++) box.guard[i] = 0xA5;
		if (kind == 1) box.v = 5; else if (kind == 2) box.v = String("abc"); else if (kind == 3) box.v = String("a fairly long string");
		box.v = String(t.c_str());
		for (int i = 0; i < 16; i++) if (box.guard[i] != 0xA5) { printf("REPRODUCED Var = String(%d chars) wrote past the Var object\n", (int)t.size()); return 1; }
		if (!box.v.is(Var::STRING) || std::string(*box.v.toString()) != t) { printf("REPRODUCED Var = String lost the text\n"); return 1; }
		printf("OK\n"); return 0;
	}
	if (cmd == "eq_strings") {         // a heap-represented Var holding a short text vs an inline one
		Var h = String("a fairly long string"); h = String("abc"); Var s = String("abc");
		if (!(h == s) || !(s == h)) { printf("REPRODUCED Var == depends on the string representation\n"); return 1; }
		printf("OK\n"); return 0;
	}
	if (cmd == "battery") {            // small-scope search over the operations the C04 units verify
		// Var = String: every target kind x every length 0..20 (7/8 inline boundary), neighbours guarded
		for (int kind = 0; kind < 4; kind++) for (int n = 0; n <= 20; n++) {
			std::string t; for (int i = 0; i < n; i++) t.push_back(char('a' + i));
			struct { unsigned char g0[16]; Var v; unsigned char g1[16]; } box; for (int i = 0; i < 16; i++) box.g0[i] = box.g1[i] = 0xA5;
			if (kind == 1) box.v = 5; else if (kind == 2) box.v = String("abc"); else if (kind == 3) box.v = String("a fairly long string");
			box.v = String(t.c_str());
			for (int i = 0; i < 16; i++) if (box.g0[i] != 0xA5 || box.g1[i] != 0xA5) { printf("REPRODUCED Var = String(%d chars) onto target kind %d wrote outside the Var\n", n, kind); return 1; }
			if (!box.v.is(Var::STRING) || std::string(*box.v.toString()) != t) { printf("REPRODUCED Var = String(%d chars) onto target kind %d lost the text\n", n, kind); return 1; }
			// == must depend on the text only: inline vs heap representation of the same / a different text
			Var heap = String("a fairly long string!"); heap = String(t.c_str()); Var fresh = String(t.c_str()); Var other = String((t + "x").c_str());
			if (!(heap == fresh) || !(fresh == heap) || heap == other || other == heap || fresh == Var(5)) { printf("REPRODUCED Var == on strings of %d chars depends on the representation\n", n); return 1; }
		}
		// a = own child, for scalar, short/long string, array and object children, by index and by key
		for (int child = 0; child < 6; child++) {
			Var c; if (child == 0) c = 7; else if (child == 1) c = 2.5; else if (child == 2) c = "short"; else if (child == 3) c = "a string that is long enough for the heap"; else if (child == 4) { c = Var::ARRAY; c << 1 << "two"; } else { c["k"] = 1; c["l"] = "x"; }
			Var expect = c.clone();
			{ Var a = Var::ARRAY; a << c.clone() << Var("second") << 3; a = a[0]; if (!(a == expect)) { printf("REPRODUCED a = a[0] with child kind %d\n", child); return 1; } }
			{ Var a = Var::ARRAY; a << 1 << c.clone(); a = a[1]; if (!(a == expect)) { printf("REPRODUCED a = a[1] with child kind %d\n", child); return 1; } }
			{ Var o; o["x"] = c.clone(); o["y"] = 2; o = o["x"]; if (!(o == expect)) { printf("REPRODUCED o = o[\"x\"] with child kind %d\n", child); return 1; } }
			{ Var n = Var::ARRAY; Var in = Var::ARRAY; in << 0 << c.clone(); n << in; n[0] = n[0][1]; if (!(n[0] == expect)) { printf("REPRODUCED n[0] = n[0][1] with child kind %d\n", child); return 1; } }
		}
		// clone(): deep at every level - changing the original's nested containers afterwards must not show in the clone, and vice versa
		{ Var o; o["name"] = "n"; o["list"] = Var::ARRAY; o["list"] << 1 << 2; o["sub"]["deep"] = Var::ARRAY; o["sub"]["deep"] << "a"; o["sub"]["v"] = 1;
		  Var c = o.clone(); if (!(c == o)) { printf("REPRODUCED clone != original\n"); return 1; }
		  o["list"] << 3; o["sub"]["deep"] << "b"; o["sub"]["v"] = 2;
		  if (c["list"].length() != 2 || c["sub"]["deep"].length() != 1 || !(c["sub"]["v"] == Var(1))) { printf("REPRODUCED clone of an object shares a nested container with the original\n"); return 1; }
		  c["list"] << 9 << 9; if (o["list"].length() != 3) { printf("REPRODUCED original changed through its clone\n"); return 1; } }
		{ Var a = Var::ARRAY; Var in = Var::ARRAY; in << 1; a << in << "s"; Var c = a.clone(); a[0] << 2; if (c[0].length() != 1) { printf("REPRODUCED clone of an array shares a nested array\n"); return 1; } }
		// appending an array's own element at every fill level (the append may reallocate the array); extend() copies falsy values
		for (int n = 1; n <= 30; n++) for (int src : { 0, n - 1 }) { Var a = Var::ARRAY; for (int i = 0; i < n; i++) a << String::f("element-%i-with-a-long-heap-allocated-text", i); Var want = a[src].clone(); a << a[src]; if (a.length() != n + 1 || !(a[n] == want) || !(a[src] == want)) { printf("REPRODUCED a << a[%d] with %d elements\n", src, n); return 1; } }
		{ Var base; base["count"] = 7; base["name"] = "n"; base["flag"] = true; base["keep"] = 1; Var upd; upd["count"] = 0; upd["name"] = ""; upd["flag"] = false; upd["nul"] = Var::NUL; upd["x"] = 0.0; base.extend(upd);
		  if (!(base["count"] == Var(0)) || !(base["name"] == Var("")) || !(base["flag"] == Var(false)) || !base.has("nul") || !base.has("x") || !(base["keep"] == Var(1))) { printf("REPRODUCED extend() skipped a property whose value is 0 / false / \"\" / null\n"); return 1; } }
		// a copy of a string Var is a value of its own: assigning to one leaves the other unchanged, for every pair of lengths around the inline boundary
		for (int n1 : { 0, 3, 7, 8, 9, 20, 40 }) for (int n2 : { 0, 7, 8, 12, 30, 200 }) { std::string t1(n1, 'p'), t2(n2, 'q'); Var a = String(t1.c_str()); Var b = a; Var arr = Var::ARRAY; arr << a;
			a = String(t2.c_str()); if (std::string(*b.toString()) != t1 || std::string(*arr[0].toString()) != t1) { printf("REPRODUCED a copy of a %d-character string Var changed when the original was assigned a %d-character string\n", n1, n2); return 1; }
			b = String(t2.c_str()); b = String("zz"); if (std::string(*a.toString()) != t2) { printf("REPRODUCED the original changed through its copy\n"); return 1; } }
		// unsigned values around 2^31 keep their value
		for (unsigned u : { 0u, 1u, 2147483647u, 2147483648u, 2147483649u, 4294967295u }) { Var v(u); Var w; w = u; if ((double)v != (double)u || (double)w != (double)u || !(v == Var((double)u)) || !(v == w)) { printf("REPRODUCED Var(%uu) holds %.0f\n", u, (double)v); return 1; } }
		printf("OK\n"); return 0;
	}
	return 2;
}
