// Native replay for C04: real asl::Var under ASan/UBSan.
#include <asl/Var.h>
#include <asl/String.h>
#include <stdio.h>
#include <stdlib.h>
#include <string>
using namespace asl;
static std::string unhex(const char* h) { std::string r; if (h[0] == '-') return r; for (size_t i = 0; h[i] && h[i + 1]; i += 2) { char b[3] = { h[i], h[i + 1], 0 }; r.push_back((char)strtoul(b, 0, 16)); } return r; }
int main(int argc, char** argv)
{
	std::string cmd = argc > 1 ? argv[1] : "";
	if (cmd == "self_element") {       // assigning to a Var one of its own elements / properties
		{ Var a = Var::ARRAY; a << Var(7) << Var("second"); Var expect = 7; a = a[0]; if (!(a == expect)) { printf("REPRODUCED a = a[0] (type changing)\n"); return 1; } }
		{ Var in = Var::ARRAY; in << 1 << 2; Var a = Var::ARRAY; a << in << 5; Var expect = in.clone(); a = a[0]; if (!(a == expect)) { printf("REPRODUCED a = a[0] (array element)\n"); return 1; } }
		{ Var a; a["x"] = "a long string value here"; a["y"] = 2; Var expect = "a long string value here"; a = a["x"]; if (!(a == expect)) { printf("REPRODUCED a = a[\"x\"]\n"); return 1; } }
		{ Var in; in["k"] = 1; Var a; a["x"] = in; Var expect = in.clone(); a = a["x"]; if (!(a == expect)) { printf("REPRODUCED a = a[\"x\"] (object property)\n"); return 1; } }
		printf("OK\n"); return 0;
	}
	if (cmd == "assign_string") {      // assign_string <target kind 0:none 1:int 2:short string 3:long string> <hex text>
		int kind = atoi(argv[2]); std::string t = unhex(argv[3]);
		struct { Var v; unsigned char guard[16]; } box; for (int i = 0; i < 16; i++) box.guard[i] = 0xA5;
		if (kind == 1) box.v = 5; else if (kind == 2) box.v = String("abc"); else if (kind == 3) box.v = String("a fairly long string");
		box.v = String(t.c_str());
		for (int i = 0; i < 16; i++) if (box.guard[i] != 0xA5) { printf("REPRODUCED Var = String(%d chars) wrote past the Var object\n", (int)t.size()); return 1; }
		if (!box.v.is(Var::STRING) || std::string(*box.v.toString()) != t) { printf("REPRODUCED Var = String lost the text\n"); return 1; }
		printf("OK\n"); return 0;
	}
	if (cmd == "eq_strings") {         // a heap-represented Var holding a short text vs an inline one
		Var h = String("a fairly long string"); h = String("abc"); Var s = String("abc");
		if (!(h == s) || !(s == h)) { printf("REPRODUCED Var == depends on the string representation\n"); return 1; }
		printf("OK\n"); return 0;
	}
	return 2;
}
