// Native replay for C05/C06: real Json/Xdl encode + decode.
#include <asl/JSON.h>
#include <asl/Xdl.h>
#include <asl/Var.h>
#include <stdio.h>
#include <stdlib.h>
#include <string>
using namespace asl;
static std::string unhex(const char* h) { std::string r; if (h[0] == '-') return r; for (size_t i = 0; h[i] && h[i + 1]; i += 2) { char b[3] = { h[i], h[i + 1], 0 }; r.push_back((char)strtoul(b, 0, 16)); } return r; }
int main(int argc, char** argv)
{
	std::string cmd = argc > 1 ? argv[1] : "";
	if (cmd == "strbyte") {           // strbyte <byte value> <0: in a string value | 1: in an object key>
		int c = atoi(argv[2]) & 255, key = atoi(argv[3]);
		String s; s << 'a' << (char)c << 'b';
		Var v; if (key) v[s] = 1; else v = s;
		for (int mode = 0; mode < 2; mode++) {
			String text = Json::encode(v, mode ? Json::PRETTY : Json::NONE);
			for (int i = 0; i < text.length(); i++) if ((unsigned char)text[i] < 0x20 && text[i] != '\n' && text[i] != '\r' && text[i] != '\t' && !(mode && text[i] == ' ')) { printf("REPRODUCED Json::encode emits raw control byte 0x%02x (not strict JSON)\n", (unsigned char)text[i]); return 1; }
			Var back = Json::decode(text);
			if (!(back == v)) { printf("REPRODUCED Json::decode(Json::encode(v)) != v for byte 0x%02x %s: text %s\n", c, key ? "in an object key" : "in a string", *text); return 1; }
		}
		printf("OK\n"); return 0;
	}
	if (cmd == "decode") { std::string t = unhex(argv[2]); Var v = Json::decode(t.c_str()); printf("OK %s\n", v.ok() ? "value" : "invalid"); return 0; }
	if (cmd == "file") {              // file <hex of JSON text>: write the text to a file, Json::read it, compare with Json::decode of the text
		std::string t = unhex(argv[2]); String path = "/tmp/vf_c05_replay.json";
		{ FILE* f = fopen(*path, "wb"); fwrite(t.data(), 1, t.size(), f); fclose(f); }
		Var fromFile = Json::read(path), fromText = Json::decode(t.c_str()); remove(*path);
		if (!(fromFile == fromText) || fromFile.ok() != fromText.ok()) { printf("REPRODUCED Json::read of a %d-byte file differs from Json::decode of the same text\n", (int)t.size()); return 1; }
		printf("OK %s\n", fromFile.ok() ? "value" : "invalid"); return 0;
	}
	if (cmd == "intbuf") {            // an 11-character int written when the output string is exactly at capacity (ASan sees a write past it)
		for (int pre = 0; pre < 2300; pre++) { Var v = Var::ARRAY; String s; for (int i = 0; i < pre; i++) s << 'x'; v << s << (-2147483647 - 1);
			String t = Json::encode(v); Var back = Json::decode(t); if (!(back == v)) { printf("REPRODUCED round trip with a %d-character prefix\n", pre); return 1; } }
		printf("OK\n"); return 0;
	}
	return 2;
}
