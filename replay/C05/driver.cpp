// Native replay for C05/C06: real Json/Xdl encode + decode.
#include <asl/JSON.h>
#include <asl/Xdl.h>
#include <asl/Var.h>
#include <stdio.h>
#include <stdlib.h>
#include <string.h>
#include <string>
using namespace asl;
static std::string unhex(const char* h) { std::string r; if (h[0] == '-') return r; for (size_t i = 0; h[i] && h[i + 1]; i += 2) { char b[3] = { h[i], h[i + 1], 0 }; r.push_back((char)strtoul(b, 0, 16)); } return r; }
int main(int argc, char** argv)
{
	std::string cmd = argc > 1 ? argv[1] : "";
	if (cmd == "strbyte") {           // strbyte <byte value> <0: in a string value | 1: in an object key>
		int c = atoi(argv[2]) & 255, key = atoi(argv[3]);
		String s; s << 'a' << (char)c << 'b';
		Var v; if (key) v[s] = 1; else v = s;
		for (int mode = 0; mode < 2; mode++) {
			String text = Json::encode(v, mode ? Json::PRETTY : Json::NONE);
			for (int i = 0; i < text.length(); i++) if ((unsigned char)text[i] < 0x20 && text[i] != '\n' && text[i] != '\r' && text[i] != '\t' && !(mode && text[i] == ' ')) { printf("REPRODUCED Json::encode emits raw control byte 0x%02x (not strict JSON)\n", (unsigned char)text[i]); return 1; }
			Var back = Json::decode(text);
			if (!(back == v)) { printf("REPRODUCED Json::decode(Json::encode(v)) != v for byte 0x%02x %s: text %s\n", c, key ? "in an object key" : "in a string", *text); return 1; }
		}
		printf("OK\n"); return 0;
	}
	if (cmd == "decode") { std::string t = unhex(argv[2]); Var v = Json::decode(t.c_str()); printf("OK %s\n", v.ok() ? "value" : "invalid"); return 0; }
	if (cmd == "file") {              // file <hex of JSON text>: write the text to a file, Json::read it, compare with Json::decode of the text
		std::string t = unhex(argv[2]); String path = "/tmp/vf_c05_replay.json";
		{ FILE* f = fopen(*path, "wb"); fwrite(t.data(), 1, t.size(), f); fclose(f); }
		Var fromFile = Json::read(path), fromText = Json::decode(t.c_str()); remove(*path);
		if (fromFile.ok() != fromText.ok() || (fromFile.ok() && !(fromFile == fromText))) { printf("REPRODUCED Json::read of a %d-byte file differs from Json::decode of the same text\n", (int)t.size()); return 1; }
		printf("OK %s\n", fromFile.ok() ? "value" : "invalid"); return 0;
	}
	if (cmd == "intbuf") {            // an 11-character int written when the output string is exactly at capacity (ASan sees a write past it)
		for (int pre = 0; pre < 2300; pre++) { Var v = Var::ARRAY; String s; for (int i = 0; i < pre; i++) s << 'x'; v << s << (-2147483647 - 1);
			String t = Json::encode(v); Var back = Json::decode(t); if (!(back == v)) { printf("REPRODUCED round trip with a %d-character prefix\n", pre); return 1; } }
		printf("OK\n"); return 0;
	}
	if (cmd == "battery") {            // small-scope search over what the C05/C06 units verify, on the real encoder/decoder
		// every byte in string values and keys, round trip in both modes
		for (int c = 1; c < 256; c++) for (int key = 0; key < 2; key++) {
			String t; t << 'a' << (char)c << 'b'; Var v; if (key) v[t] = 1; else v = t;
			for (int mode = 0; mode < 2; mode++) { Var back = Json::decode(Json::encode(v, mode ? Json::PRETTY : Json::NONE)); if (!(back == v)) { printf("REPRODUCED byte %d in a %s does not survive Json::encode/decode\n", c, key ? "key" : "string value"); return 1; } }
		}
		// member names of every length 0..40 (inline and heap Strings), nested
		for (int n = 1; n <= 40; n++) { std::string k; for (int i = 0; i < n; i++) k.push_back(char('a' + i % 26));
			std::string doc = "{\"" + k + "\":{\"" + k + "x\":[1,{\"" + k + "\":2}]},\"z\":3}"; Var v = Json::decode(doc.c_str());
			if (!v.ok() || !v.has(k.c_str()) || !v[k.c_str()].has((k + "x").c_str()) || !(v[k.c_str()][(k + "x").c_str()][1][k.c_str()] == Var(2)) || !(v["z"] == Var(3))) { printf("REPRODUCED member name of %d characters is not the key of its value after Json::decode\n", n); return 1; } }
		// integers around every decimal-length and 32-bit boundary decode to their value
		{ const char* nums[] = { "0", "-0", "7", "-7", "999999999", "-999999999", "1000000000", "-1000000000", "2147483647", "-2147483647", "-2147483648", "2147483648", "-2147483649", "-3000000000", "3000000000",
		    "9999999999", "-9999999999", "10000000000", "-10000000000", "123456789012", "-123456789012" };
		  for (unsigned i = 0; i < sizeof(nums) / sizeof(nums[0]); i++) { std::string d = std::string("[") + nums[i] + "]"; Var v = Json::decode(d.c_str()); double want = strtod(nums[i], 0);
		    if (!v.ok() || v.length() != 1 || (double)v[0] != want) { printf("REPRODUCED Json::decode(\"%s\") gives %.17g, not %.17g\n", d.c_str(), v.ok() && v.length() == 1 ? (double)v[0] : 0.0, want); return 1; } } }
		// int / boundary encodings with the output buffer at every fill level
		for (int pre = 0; pre < 1100; pre += 1) { Var v = Var::ARRAY; String s2; for (int i = 0; i < pre; i++) s2 << 'x'; v << s2 << (-2147483647 - 1) << 2147483647 << 0.1 << 1e300 << -1.5e-30f << -1.2345678901234567e-300 << -2.2250738585072014e-308 << -1.7976931348623157e+308;
			Var back = Json::decode(Json::encode(v)); if (!back.ok() || back.length() != v.length() || !(back[1] == v[1]) || !(back[2] == v[2])) { printf("REPRODUCED number round trip with a %d-character prefix\n", pre); return 1; } }
		// prefix rejection and chunk independence on documents with nesting, strings with brackets and escapes, comments
		{ const char* docs[] = { "[1,[2,{\"a]\":\"}\\\"]\"}],\"x\"]", "{\"k\":[true,null,{\"q\":-1.5e3}],\"s\":\"\\u00e9\\n/\"}", "\"a string ] with } brackets\"", "[[[[[]]]],{},\"\"]", "{\"a/b\":[1,2] /*c*/ ,\"c\":\"//\"}",
			"[1 \n2]", "[1\r\n2\r\n]", "{x=1 \n y=\"s\"}", "[ 1 , 2 \t\n 3 ]", "[ true \n false ]" };   // XDL: a newline separates items, also after blanks
		  for (unsigned d = 0; d < sizeof(docs) / sizeof(docs[0]); d++) { std::string doc = docs[d]; Var whole = Json::decode(doc.c_str());
			if (!whole.ok()) { printf("REPRODUCED valid document %u rejected\n", d); return 1; }
			for (size_t cut = 0; cut < doc.size(); cut++) { Var v = Json::decode(doc.substr(0, cut).c_str()); if (v.ok()) { printf("REPRODUCED prefix of %d characters of document %u accepted\n", (int)cut, d); return 1; }
				XdlParser parser; parser.parse(doc.substr(0, cut).c_str()); parser.parse(doc.substr(cut).c_str()); parser.parse(" "); Var w = parser.value();
				if (!(w == whole) || !w.ok()) { printf("REPRODUCED feeding document %u in two chunks cut at %d differs from feeding it whole\n", d, (int)cut); return 1; } } } }
		// decode then encode (compact JSON) gives the same text back: values following other values in arrays, empty strings, nested objects
		{ const char* docs2[] = { "[1,{\"a\":2}]", "[\"abc\",\"\"]", "[12,\"\",3]", "[true,{\"k\":[\"x\",\"\",{}]},\"\",null]", "{\"o\":{\"b\\u0041\":1}}", "{\"k\\u0041\":[\"\\u0042\"]}", "[\"z\",{},[],\"\"]", "{\"a\":1\n,\"b\":2}", "[1\n,2\n ,3]", "{\"a\":[1\n,2]\n\t,\"b\":{\"c\":null\n,\"d\":\"x\"}}" };
		  const char* want2[] = { "[1,{\"a\":2}]", "[\"abc\",\"\"]", "[12,\"\",3]", "[true,{\"k\":[\"x\",\"\",{}]},\"\",null]", "{\"o\":{\"bA\":1}}", "{\"kA\":[\"B\"]}", "[\"z\",{},[],\"\"]", "{\"a\":1,\"b\":2}", "[1,2,3]", "{\"a\":[1,2],\"b\":{\"c\":null,\"d\":\"x\"}}" };
		  for (unsigned i = 0; i < sizeof(docs2) / sizeof(docs2[0]); i++) { Var v = Json::decode(docs2[i]); String back = v.ok() ? Json::encode(v) : String("(invalid)"); if (back != want2[i]) { printf("REPRODUCED Json::decode(%s) re-encodes as %s\n", docs2[i], *back); return 1; } } }
		// bare top-level literals and numbers (completed by the flush in decode), several \\u escapes in one document
		{ struct { const char* t; int kind; } tops[] = { { "true", 1 }, { "false", 1 }, { "null", 2 }, { " true", 1 }, { "12", 3 }, { "-1.5e3", 3 }, { "\"s\"", 4 } };
		  for (auto& t : tops) { Var v = Json::decode(t.t); bool ok = t.kind == 1 ? v.is(Var::BOOL) : t.kind == 2 ? v.is(Var::NUL) : t.kind == 3 ? v.is(Var::NUMBER) : v.is(Var::STRING); if (!ok) { printf("REPRODUCED Json::decode(\"%s\") does not give the top-level value\n", t.t); return 1; } }
		  Var u = Json::decode("[\"a\\u0001b\\u0002c\\u00e9\\u0003\",{\"k\\u0004\\u0005\":\"\\ud83d\\ude00\\u0006\"}]"); std::string s0 = u.ok() ? std::string(*u[0].toString(), u[0].toString().length()) : std::string("(invalid)");
		  if (s0 != std::string("a\x01" "b\x02" "c\xC3\xA9\x03") || !u[1].has("k\x04\x05") || std::string(*u[1]["k\x04\x05"].toString()) != "\xF0\x9F\x98\x80\x06") { printf("REPRODUCED several \\u escapes in one document decode wrongly (first string has %d bytes)\n", (int)s0.size()); return 1; } }
		// the JSON two-character escapes
		{ Var v = Json::decode("[\"\\\" \\\\ \\/ \\b \\f \\n \\r \\t\"]"); if (!v.ok() || v.length() != 1 || std::string(*v[0].toString()) != "\" \\ / \b \f \n \r \t") { printf("REPRODUCED JSON escapes do not decode to their characters\n"); return 1; } }
		// floats and doubles come back bit-exact in exact mode: neighbours of powers of 2 and 10, and a sweep of bit patterns
		{ unsigned x = 0x12345678u; for (int i = 0; i < 60000; i++) { x = x * 1664525u + 1013904223u; unsigned bits = (i % 3 == 0) ? x : (i % 3 == 1) ? (0x3f800000u + (x & 0x7fffffu)) : (0x447a0000u + (x & 0xffffu)); float f; memcpy(&f, &bits, 4);
			if (f != f || f - f != 0) continue; Var v = Var::ARRAY; v << f; Var back = Json::decode(Json::encode(v)); float g = (float)(double)back[0]; if (memcmp(&f, &g, 4) != 0) { printf("REPRODUCED float %.9g (bits %08x) comes back as %.9g\n", f, bits, g); return 1; } }
		  unsigned long long y = 0x9E3779B97F4A7C15ull; for (int i = 0; i < 20000; i++) { y = y * 6364136223846793005ull + 1442695040888963407ull; double d; memcpy(&d, &y, 8); if (d != d || d - d != 0) continue;
			Var v = Var::ARRAY; v << d; Var back = Json::decode(Json::encode(v)); double g = (double)back[0]; if (memcmp(&d, &g, 8) != 0) { printf("REPRODUCED double %.17g comes back as %.17g\n", d, g); return 1; } } }
		// files: every size 0..8 with and without BOM
		{ const char* texts[] = { "", "7", "[]", "[1]", "\"ab\"", "[1,2]", "{\"a\":1}", "\"\xC2\xBFx\"", "[\"\xC2\xBB\"]", "\"\xEF\xBB\"" };
		  for (unsigned i = 0; i < sizeof(texts) / sizeof(texts[0]); i++) for (int bom = 0; bom < 2; bom++) { std::string t = std::string(bom ? "\xEF\xBB\xBF" : "") + texts[i]; String path = "/tmp/vf_c05_battery.json";
			{ FILE* f = fopen(*path, "wb"); fwrite(t.data(), 1, t.size(), f); fclose(f); }
			Var a = Json::read(path), b = Json::decode(texts[i]); remove(*path);
			if (a.ok() != b.ok() || (a.ok() && !(a == b))) {   /* (an invalid Var equals nothing, not even itself) */ printf("REPRODUCED Json::read of the %d-byte file '%s' (BOM %d) differs from decoding the text\n", (int)t.size(), texts[i], bom); return 1; } } }
		// history: what one text leaves behind must not change how the next one is read (every pair of a text that stops early and a complete one)
		{ const char* first[] = { "[1 /", "[1 /*", "[1 //", "\"\\u12", "\"\\ud83d", "\"a\\", "[1,", "{\"a\":", "{\"a\"", "[[[", "tru", "-", "1e", "{a=", "\"abc", "]" };
		  const char* second[] = { "[1,2]", "{\"a\":\"\\u00e9\"}", "7", "\"x\"", "true", "[]", "{}", "[1 /*c*/ ,2]" };
		  for (unsigned j = 0; j < sizeof(second) / sizeof(second[0]); j++) {
			Var ref = Json::decode(second[j]); String refs = ref.ok() ? Json::encode(ref) : String("<invalid>");
			for (unsigned i = 0; i < sizeof(first) / sizeof(first[0]); i++) for (int x = 0; x < 2; x++) {
				if (x) Xdl::decode(first[i]); else Json::decode(first[i]);
				Var r = x ? Xdl::decode(second[j]) : Json::decode(second[j]); String rs = r.ok() ? Json::encode(r) : String("<invalid>");
				if (rs != refs) { printf("REPRODUCED %s::decode('%s') gives %s after decoding '%s', but %s on its own\n", x ? "Xdl" : "Json", second[j], *rs, first[i], *refs); return 1; } } } }
		printf("OK\n"); return 0;
	}
	return 2;
}
