// Native replay for C03 units: runs the REAL asl::String (built from /repo's working tree with ASan+UBSan)
// on the concrete input found by the verifier and checks the same byte-string model.
#include <asl/String.h>
#include <stdio.h>
#include <stdlib.h>
#include <string>
#include <vector>
using namespace asl;

static std::string unhex(const char* h) {
	std::string r; if (h[0] == '-') return r;
	for (size_t i = 0; h[i] && h[i + 1]; i += 2) { char b[3] = { h[i], h[i + 1], 0 }; r.push_back((char)strtoul(b, 0, 16)); }
	return r;
}
static int fail(const char* what, const std::string& got, const std::string& want) {
	printf("REPRODUCED %s: got len %d \"", what, (int)got.size());
	for (unsigned char c : got) printf("\\x%02x", c);
	printf("\" want len %d \"", (int)want.size());
	for (unsigned char c : want) printf("\\x%02x", c);
	printf("\"\n"); return 1;
}
static int check(const char* what, const String& s, const std::string& want) {
	std::string got(s.data(), s.length());
	if (got != want) return fail(what, got, want);
	if ((int)strlen(s.data()) != s.length() && want.find('\0') == std::string::npos) { printf("REPRODUCED %s: length() %d != strlen %d\n", what, s.length(), (int)strlen(s.data())); return 1; }
	printf("OK %s\n", what); return 0;
}

int main(int argc, char** argv)
{
	if (argc < 2) return 2;
	std::string cmd = argv[1];
	if (cmd == "append_alias" || cmd == "assign_alias") {     // <content-hex> <off> <n>
		std::string c = unhex(argv[2]); int off = atoi(argv[3]), n = atoi(argv[4]);
		String s(c.data(), (int)c.size());
		std::string want = cmd == "append_alias" ? c + c.substr(off, n) : c.substr(off, n);
		if (cmd == "append_alias") s.append(s.data() + off, n); else s.assign(s.data() + off, n);
		return check(cmd.c_str(), s, want);
	}
	if (cmd == "append" || cmd == "assign") {                   // <content-hex> <b-hex>
		std::string c = unhex(argv[2]), b = unhex(argv[3]);
		String s(c.data(), (int)c.size());
		if (cmd == "append") s.append(b.data(), (int)b.size()); else s.assign(b.data(), (int)b.size());
		return check(cmd.c_str(), s, cmd == "append" ? c + b : b);
	}
	if (cmd == "resize") {                                      // <content-hex> <n> <keep> <newlen>
		std::string c = unhex(argv[2]); int n = atoi(argv[3]), keep = atoi(argv[4]), newlen = atoi(argv[5]);
		String s(c.data(), (int)c.size());
		s.resize(n, keep != 0, newlen != 0);
		if (s.cap() < n + 1) { printf("REPRODUCED resize: cap %d < n+1\n", s.cap()); return 1; }
		s.data()[n] = 0;                                          // must be writable (ASan checks)
		if (keep) { std::string got(s.data(), std::min((size_t)n, c.size())); if (got != c.substr(0, std::min((size_t)n, c.size()))) return fail("resize keep", got, c); }
		printf("OK resize\n"); return 0;
	}
	if (cmd == "substring" || cmd == "substr") {                // <content-hex> <i> <j|n>
		std::string c = unhex(argv[2]); int i = atoi(argv[3]), j = atoi(argv[4]);
		String s(c.data(), (int)c.size());
		if (cmd == "substring") return check("substring", s.substring(i, j), c.substr(i, j - i));
		int len = (int)c.size(); int ii = i < 0 ? i + len : i; if (ii > len) ii = len; if (ii < 0) ii = 0;
		return check("substr", s.substr(i, j), c.substr(ii, j));
	}
	if (cmd == "itoa") { int x = atoi(argv[2]); String s(x); char b[32]; snprintf(b, 32, "%d", x); if (check("String(int)", s, b)) return 1; if ((int)s != x) { printf("REPRODUCED int round trip %d -> %d\n", x, (int)s); return 1; } return 0; }
	if (cmd == "ltoa") { Long x = atoll(argv[2]); String s(x); char b[32]; snprintf(b, 32, "%lld", x); if (check("String(Long)", s, b)) return 1; if (s.toLong() != x) { printf("REPRODUCED Long round trip\n"); return 1; } return 0; }
	if (cmd == "fmt") { int L = atoi(argv[2]); std::string w(L, 'x'); for (int i = 0; i < L; i++) w[i] = (char)('a' + i % 26);   // output of exactly L bytes
		return check("String::f", String::f("%s", w.c_str()), w); }
	printf("unknown command\n"); return 2;
}
