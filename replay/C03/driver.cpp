// Native replay for C03 units: runs the REAL asl::String (built from /repo's working tree with ASan+UBSan)
// on the concrete input found by the verifier and checks the same byte-string model.
#include <asl/String.h>
#include <stdio.h>
#include <stdlib.h>
#include <string>
#include <vector>
using namespace asl;

static std::string unhex(const char* h) {
	std::string r; if (h[0] == '-') return r;
	for (size_t i = 0; h[i] && h[i + 1]; i += 2) { char b[3] = { h[i], h[i + 1], 0 }; r.push_back((char)strtoul(b, 0, 16)); }
	return r;
}
static int fail(const char* what, const std::string& got, const std::string& want) {
	printf("REPRODUCED %s: got len %d \"", what, (int)got.size());
	for (unsigned char c : got) printf("\\x%02x", c);
	printf("\" want len %d \"", (int)want.size());
	for (unsigned char c : want) printf("\\x%02x", c);
	printf("\"\n"); return 1;
}
static bool g_quiet = false;
static int check(const char* what, const String& s, const std::string& want) {
	std::string got(s.data(), s.length());
	if (got != want) return fail(what, got, want);
	if ((int)strlen(s.data()) != s.length() && want.find('\0') == std::string::npos) { printf("REPRODUCED %s: length() %d != strlen %d\n", what, s.length(), (int)strlen(s.data())); return 1; }
	if (!g_quiet) printf("OK %s\n", what); return 0;
}

int main(int argc, char** argv)
{
	if (argc < 2) return 2;
	std::string cmd = argv[1];
	if (cmd == "append_alias" || cmd == "assign_alias") {     // <content-hex> <off> <n>
		std::string c = unhex(argv[2]); int off = atoi(argv[3]), n = atoi(argv[4]);
		String s(c.data(), (int)c.size());
		std::string want = cmd == "append_alias" ? c + c.substr(off, n) : c.substr(off, n);
		if (cmd == "append_alias") s.append(s.data() + off, n); else s.assign(s.data() + off, n);
		return check(cmd.c_str(), s, want);
	}
	if (cmd == "append" || cmd == "assign") {                   // <content-hex> <b-hex>
		std::string c = unhex(argv[2]), b = unhex(argv[3]);
		String s(c.data(), (int)c.size());
		if (cmd == "append") s.append(b.data(), (int)b.size()); else s.assign(b.data(), (int)b.size());
		return check(cmd.c_str(), s, cmd == "append" ? c + b : b);
	}
	if (cmd == "resize") {                                      // <content-hex> <n> <keep> <newlen>
		std::string c = unhex(argv[2]); int n = atoi(argv[3]), keep = atoi(argv[4]), newlen = atoi(argv[5]);
		String s(c.data(), (int)c.size());
		s.resize(n, keep != 0, newlen != 0);
		if (s.cap() < n + 1) { printf("REPRODUCED resize: cap %d < n+1\n", s.cap()); return 1; }
		s.data()[n] = 0;                                          // must be writable (ASan checks)
		if (keep) { std::string got(s.data(), std::min((size_t)n, c.size())); if (got != c.substr(0, std::min((size_t)n, c.size()))) return fail("resize keep", got, c); }
		printf("OK resize\n"); return 0;
	}
	if (cmd == "substring" || cmd == "substr") {                // <content-hex> <i> <j|n>
		std::string c = unhex(argv[2]); int i = atoi(argv[3]), j = atoi(argv[4]);
		String s(c.data(), (int)c.size());
		if (cmd == "substring") return check("substring", s.substring(i, j), c.substr(i, j - i));
		int len = (int)c.size(); int ii = i < 0 ? i + len : i; if (ii > len) ii = len; if (ii < 0) ii = 0;
		return check("substr", s.substr(i, j), c.substr(ii, j));
	}
	if (cmd == "itoa") { int x = atoi(argv[2]); String s(x); char b[32]; snprintf(b, 32, "%d", x); if (check("String(int)", s, b)) return 1; if ((int)s != x) { printf("REPRODUCED int round trip %d -> %d\n", x, (int)s); return 1; } return 0; }
	if (cmd == "ltoa") { Long x = atoll(argv[2]); String s(x); char b[32]; snprintf(b, 32, "%lld", x); if (check("String(Long)", s, b)) return 1; if (s.toLong() != x) { printf("REPRODUCED Long round trip\n"); return 1; } return 0; }
	if (cmd == "fmt") { int L = atoi(argv[2]); std::string w(L, 'x'); for (int i = 0; i < L; i++) w[i] = (char)('a' + i % 26);   // output of exactly L bytes
		return check("String::f", String::f("%s", w.c_str()), w); }
	if (cmd == "battery") { g_quiet = true;   // asl::String against std::string for lengths straddling 15/16 (inline), 20/24 (first heap size), 255/256 (format buffer) and 1 KiB (growth policy)
		int lens[] = { 0, 1, 2, 7, 8, 14, 15, 16, 17, 19, 20, 23, 24, 25, 31, 32, 33, 63, 64, 100, 254, 255, 256, 257, 511, 1023, 1024, 1025, 2049 };
		const int NL = sizeof(lens) / sizeof(lens[0]);
		auto mk = [](int n, int seed) { std::string r; for (int i = 0; i < n; i++) r.push_back(char('a' + (i * 7 + seed) % 26)); return r; };
		for (int a = 0; a < NL; a++) { std::string x = mk(lens[a], 1);
			if (check("String(const char*)", String(x.c_str()), x)) return 1;
			if (check("String(const char*, n)", String(x.c_str(), (int)x.size()), x)) return 1;
			{ String c(x.c_str()); String d = c; d += 'q'; if (check("copy then += char", d, x + "q") || check("original after copy", c, x)) return 1; }
			for (int b = 0; b < NL; b += 2) { std::string y = mk(lens[b], 5);
				{ String s(x.c_str()); s += y.c_str(); if (check("operator+=", s, x + y)) return 1; }
				{ String s(x.c_str()); s.append(y.data(), (int)y.size()); if (check("append(b, n)", s, x + y)) return 1; }
				{ String s(x.c_str()); s.assign(y.data(), (int)y.size()); if (check("assign(b, n)", s, y)) return 1; }
				{ String s = String(x.c_str()) + String(y.c_str()); if (check("operator+", s, x + y)) return 1; } }
			// the string appended / assigned to itself or to a piece of itself
			{ String s(x.c_str()); s += s; if (check("s += s", s, x + x)) return 1; }
			for (int off = 0; off <= (int)x.size(); off += (x.size() > 40 ? 37 : 1)) for (int n = 0; off + n <= (int)x.size(); n += (x.size() > 40 ? 41 : 1)) {
				{ String s(x.c_str()); s.append(s.data() + off, n); if (check("append(own piece)", s, x + x.substr(off, n))) return 1; }
				{ String s(x.c_str()); s.assign(s.data() + off, n); if (check("assign(own piece)", s, x.substr(off, n))) return 1; }
				{ String s(x.c_str()); if (check("substring", s.substring(off, off + n), x.substr(off, n))) return 1; if (check("substr", s.substr(off, n), x.substr(off, n))) return 1; } }
			{ String s(x.c_str()); for (int m : { 0, 5, 15, 16, 30, 1200 }) { String t = s; t.resize(m); t.fix(m < (int)x.size() ? m : (int)x.size()); if ((int)strlen(*t) != t.length()) { printf("REPRODUCED resize(%d) of a %d-character string: length() %d != strlen %d\n", m, (int)x.size(), t.length(), (int)strlen(*t)); return 1; } } }
			// formatting: results of every length across the 255-byte stack buffer of String::f and the String(n, fmt) constructor
			if (check("String::f", String::f("%s", x.c_str()), x)) return 1;
			if (check("String::f with number", String::f("%s=%i", x.c_str(), -12345), x + "=-12345")) return 1;
			if (check("String(n, fmt)", String(0, "%s|%s", x.c_str(), "z"), x + "|z")) return 1;
		}
		// search, split / join, replace, trim
		{ const char* texts[] = { "", "a", "abcabcabc", "aaaa", "aaa", "abababa", "xx,yy,,zz,", ",", "ab--cd--", "--", "no separator here", "  padded \t text \n", "   ", "x", "aXbXXc" };
		  const char* pats[] = { "a", "bc", "aa", "aba", ",", "--", "X", "abcabcabcd", " " };
		  for (const char* t : texts) { std::string st = t; String s(t);
			for (const char* pp : pats) { std::string sp = pp;
				size_t r = st.rfind(sp); if (s.lastIndexOf(pp) != (r == std::string::npos ? -1 : (int)r)) { printf("REPRODUCED \"%s\".lastIndexOf(\"%s\") = %d, reference %d\n", t, pp, s.lastIndexOf(pp), r == std::string::npos ? -1 : (int)r); return 1; }
				size_t f = st.find(sp); if (s.indexOf(pp) != (f == std::string::npos ? -1 : (int)f) || s.contains(pp) != (f != std::string::npos)) { printf("REPRODUCED \"%s\".indexOf(\"%s\")\n", t, pp); return 1; }
				std::vector<std::string> ref; { size_t i = 0; for (;;) { size_t j = st.find(sp, i); if (j == std::string::npos) { ref.push_back(st.substr(i)); break; } ref.push_back(st.substr(i, j - i)); i = j + sp.size(); } }
				Array<String> parts = s.split(pp); if (parts.length() != (int)ref.size()) { printf("REPRODUCED \"%s\".split(\"%s\") gives %d pieces, reference %d\n", t, pp, parts.length(), (int)ref.size()); return 1; }
				for (int i = 0; i < parts.length(); i++) if (std::string(*parts[i], parts[i].length()) != ref[i]) { printf("REPRODUCED \"%s\".split(\"%s\") piece %d\n", t, pp, i); return 1; }
				if (check("split then join", parts.join(pp), st)) return 1;
				std::string rr; { size_t i = 0; for (;;) { size_t j = st.find(sp, i); if (j == std::string::npos) { rr += st.substr(i); break; } rr += st.substr(i, j - i) + "<>"; i = j + sp.size(); } }
				if (check("replace", s.replace(pp, "<>"), rr)) return 1; }
			std::string tr = st; size_t b = tr.find_first_not_of(" \t\n\r"); tr = b == std::string::npos ? "" : tr.substr(b, tr.find_last_not_of(" \t\n\r") - b + 1);
			if (check("trimmed", s.trimmed(), tr)) return 1; { String u(t); u.trim(); if (check("trim", u, tr)) return 1; } } }
		// operator< is the byte-wise order of std::string, prefixes and the empty string included
		{ const char* w[] = { "", "a", "ab", "abc", "b", "aa", "a\x7f", "abcdefghijklmnop", "abcdefghijklmnopq", "abcdefghijklmno" }; for (const char* x : w) for (const char* y : w) if ((String(x) < String(y)) != (std::string(x) < std::string(y))) { printf("REPRODUCED String(\"%s\") < String(\"%s\") gives %d\n", x, y, (int)(String(x) < String(y))); return 1; } }
		// integers: boundaries of every width, to text and back
		{ long long vals[] = { 0, 1, -1, 9, 10, -10, 99999, 2147483647LL, -2147483647LL - 1, 4294967295LL, 99999999999999LL, -99999999999999LL, -100000000000000LL, 999999999999999LL, -999999999999999LL, 9223372036854775807LL, -9223372036854775807LL - 1 };
		  for (long long v : vals) { char b[40]; snprintf(b, 40, "%lld", v); String s((Long)v); if (check("String(Long)", s, b)) return 1; if (s.toLong() != v) { printf("REPRODUCED Long round trip of %lld\n", v); return 1; }
			if (v >= -2147483647LL - 1 && v <= 2147483647LL) { String t((int)v); if (check("String(int)", t, b)) return 1; if ((int)t != (int)v) { printf("REPRODUCED int round trip of %lld\n", v); return 1; } }
			if (v >= 0) { snprintf(b, 40, "%llu", (unsigned long long)v); String u((ULong)v); if (check("String(ULong)", u, b)) return 1; } }
		  { String u(18446744073709551615ULL); if (check("String(ULong max)", u, "18446744073709551615")) return 1; String w(4294967295u); if (check("String(unsigned max)", w, "4294967295")) return 1; } }
		printf("OK\n"); return 0;
	}
	printf("unknown command\n"); return 2;
}
