// Native replay for C10 (and the receiving-side units of C09): the REAL HttpRequest reader fed through a socketpair by a raw writer thread, and the real client+server for bodies
// around the write-block size (ASan/UBSan build of the working tree).
#include <asl/HttpServer.h>
#include <asl/Http.h>
#include <asl/Socket.h>
#include <stdio.h>
#include <stdlib.h>
#include <unistd.h>
#include <signal.h>
#include <string.h>
#include <sys/socket.h>
#include <string>
#include <vector>
#include <thread>
using namespace asl;
static volatile int g_cut = -1;
struct Req { std::string method, target, path, body; bool chunked; };
static std::string wire(const Req& r, const std::vector<size_t>& chunks) {
	std::string s = r.method + " " + r.target + " HTTP/1.1\r\nHost: h\r\nX-Long: one\r\n two\r\nX-Val: a:b c\r\n";
	if (r.chunked) { s += "Transfer-Encoding: chunked\r\n\r\n"; size_t off = 0; char hex[32];
		for (size_t i = 0; i < chunks.size() && off < r.body.size(); i++) { size_t n = chunks[i] < r.body.size() - off ? chunks[i] : r.body.size() - off; snprintf(hex, 32, "%zx\r\n", n); s += hex; s += r.body.substr(off, n) + "\r\n"; off += n; }
		if (off < r.body.size()) { snprintf(hex, 32, "%zx\r\n", r.body.size() - off); s += hex; s += r.body.substr(off) + "\r\n"; }
		s += "0\r\n\r\n"; }
	else if (r.body.size() || r.method == "POST") { char len[64]; snprintf(len, 64, "Content-Length: %zu\r\n\r\n", r.body.size()); s += len; s += r.body; }
	else s += "\r\n";
	return s;
}
// feeds `stream` in the given pieces (pause between them), the reader takes `n` requests from ONE connection
static int exchange(const std::vector<Req>& reqs, const std::string& stream, const std::vector<size_t>& cuts, const char* what, int pause_us = 40000) {
	int fd[2]; if (socketpair(AF_UNIX, SOCK_STREAM, 0, fd) != 0) return 2;
	std::thread w([&] { size_t off = 0; for (size_t i = 0; i <= cuts.size(); i++) { size_t end = i < cuts.size() ? cuts[i] : stream.size(); if (end > stream.size()) end = stream.size(); if (end > off) { if (write(fd[0], stream.data() + off, end - off)) {} off = end; usleep(pause_us); } } });
	int rc = 0;
	{ Socket sock(fd[1]);
	  for (size_t i = 0; i < reqs.size() && !rc; i++) { alarm(10); HttpRequest rq(sock); alarm(0);
		std::string body((const char*)rq.body().data(), rq.body().length());
		if (std::string(*rq.method()) != reqs[i].method || std::string(*rq.path()) != reqs[i].path) { printf("REPRODUCED %s: request %d on the connection was read as method '%s' path '%s' (sent %s %s)\n", what, (int)i, *rq.method(), *rq.path(), reqs[i].method.c_str(), reqs[i].target.c_str()); rc = 1; }
		else if (body != reqs[i].body) { printf("REPRODUCED %s: body of request %d has %d bytes / differs, %d were sent (%s)\n", what, (int)i, (int)body.size(), (int)reqs[i].body.size(), reqs[i].chunked ? "chunked" : "Content-Length"); rc = 1; }
		else if (rq.header("X-Val") != "a:b c" || !rq.hasHeader("X-Long")) { printf("REPRODUCED %s: headers of request %d not delivered as sent\n", what, (int)i); rc = 1; } } }
	w.join(); close(fd[0]);
	return rc;
}
int main(int argc, char** argv)
{
	std::string cmd = argc > 1 ? argv[1] : "";
	signal(SIGPIPE, SIG_IGN);
	signal(SIGALRM, [](int) { char m[200]; int n = g_cut >= 0 ? snprintf(m, 200, "REPRODUCED reading the request did not terminate after the peer closed the connection %d bytes into the stream\n", (int)g_cut)
		: snprintf(m, 200, "REPRODUCED reading a request did not finish within 10 s (lost framing / waiting for bytes that are not part of the message)\n"); if (write(1, m, n)) {} _exit(1); });
	if (cmd == "pipeline") {           // pipeline <n>: a POST with Content-Length n and the next request written to the connection in one piece
		int n = argc > 2 ? atoi(argv[2]) : 10; std::string body; for (int i = 0; i < n; i++) body.push_back(char('a' + i % 26));
		std::vector<Req> reqs = { { "POST", "/first", "/first", body, false }, { "GET", "/second", "/second", "", false } };
		std::string stream = wire(reqs[0], {}) + wire(reqs[1], {});
		if (exchange(reqs, stream, {}, "two requests written back to back")) return 1;
		printf("OK\n"); return 0;
	}
	if (cmd == "battery") {
		std::string bin; for (int i = 0; i < 700; i++) bin.push_back(char(i * 13 + (i >> 3))); bin += "\r\n0\r\n\r\nGET / HTTP/1.1\r\n"; bin.push_back('\0'); bin += "tail";
		std::vector<Req> reqs = { { "POST", "/a/b?x=1&y=%20z", "/a/b", bin, false }, { "PUT", "/chunked", "/chunked", bin + bin, true }, { "GET", "/after?q", "/after", "", false },
		                          { "POST", "/c2", "/c2", std::string(100, 'k') + "end", true }, { "POST", "/empty", "/empty", "", false }, { "DELETE", "/last", "/last", "", false } };
		std::vector<size_t> chunks = { 1, 100, 255, 7, 300 };
		std::string stream; std::vector<size_t> starts; for (auto& r : reqs) { starts.push_back(stream.size()); stream += wire(r, chunks); }
		// whole; cut at every request boundary; cut at regular steps; cut inside every chunk of the first chunked body (40 of 100 bytes, then the rest with what follows)
		if (exchange(reqs, stream, {}, "stream delivered whole")) return 1;
		if (exchange(reqs, stream, starts, "stream cut at the request boundaries")) return 1;
		for (size_t step : { 1000u, 333u, 97u }) { std::vector<size_t> cuts; for (size_t c = step; c < stream.size(); c += step) cuts.push_back(c); char what[64]; snprintf(what, 64, "stream cut every %zu bytes", step); if (exchange(reqs, stream, cuts, what)) return 1; }
		{ size_t p = stream.find("64\r\n", starts[1]); if (p != std::string::npos) { if (exchange(reqs, stream, { p + 4 + 40 }, "a 100-byte chunk arriving as 40 bytes, then the rest together with the following chunks", 300000)) return 1; } }   /* (long pause: the reader must really see the partial chunk) */
		{ size_t p = stream.find("0\r\n\r\n", starts[1] + 100); if (p != std::string::npos) { if (exchange(reqs, stream, { p + 3 }, "cut between the last-chunk line and its final CRLF", 300000)) return 1; } }
		// header names are case-insensitive: the same POST with canonical, lower-case and upper-case names delivers the same body and header values
		for (const char* cl : { "Content-Length", "content-length", "CONTENT-LENGTH", "cOnTeNt-lEnGtH" }) { int fd[2]; if (socketpair(AF_UNIX, SOCK_STREAM, 0, fd) != 0) return 2;
			std::string rq = std::string("POST /p HTTP/1.1\r\nHOST: h\r\nx-api-TOKEN: t0k\r\n") + cl + ": 5\r\n\r\nhello"; if (write(fd[0], rq.data(), rq.size()) != (ssize_t)rq.size()) return 2;
			Socket sock(fd[1]); alarm(10); HttpRequest r(sock); alarm(0); close(fd[0]);
			if (r.body().length() != 5 || r.header("X-Api-Token") != "t0k" || r.header("x-api-token") != "t0k" || !r.hasHeader("host") || r.header("content-LENGTH") != "5") { printf("REPRODUCED header names are not case-insensitive: with '%s' the body has %d bytes, X-Api-Token='%s'\n", cl, r.body().length(), *r.header("X-Api-Token")); return 1; } }
		// the peer goes away after any prefix of the stream: reading must end promptly (alarm), whatever was cut
		{ std::string two = stream.substr(0, starts[2]);
		  for (size_t cut = 0; cut <= two.size(); cut += (cut < 400 ? 1 : 41)) { int fd[2]; if (socketpair(AF_UNIX, SOCK_STREAM, 0, fd) != 0) return 2;
			if (cut && write(fd[0], two.data(), cut) != (ssize_t)cut) return 2; close(fd[0]);
			Socket sock(fd[1]); g_cut = (int)cut; alarm(5); { HttpRequest a(sock); } { HttpRequest b(sock); } alarm(0); g_cut = -1; } }
		// Socket::read(buf, n) on a blocking socket returns n once n bytes have come, however they were delivered
		for (int first = 1; first < 20; first += 6) { int fd[2]; if (socketpair(AF_UNIX, SOCK_STREAM, 0, fd) != 0) return 2;
			std::thread wr([&] { const char* d = "0123456789abcdefghij"; if (write(fd[0], d, first) != first) return; usleep(150000); if (write(fd[0], d + first, 20 - first) != 20 - first) return; });
			Socket sock(fd[1]); char buf[32] = { 0 }; alarm(10); int n = sock.read(buf, 20); alarm(0); wr.join(); close(fd[0]);
			if (n != 20 || memcmp(buf, "0123456789abcdefghij", 20) != 0) { printf("REPRODUCED Socket::read(buf, 20) returned %d ('%.20s') when the 20 bytes arrived as %d + %d\n", n, buf, first, 20 - first); return 1; } }
		// sending: what HttpMessage::write puts on the connection is the header block and then exactly the body (sizes around the 128000-byte write block), chunked or not
		for (int n : { 5, 127999, 128000, 128001, 255990, 256000 }) for (int chunked = 0; chunked < 2; chunked++) { int fd[2]; if (socketpair(AF_UNIX, SOCK_STREAM, 0, fd) != 0) return 2;
			std::string got; std::thread rd([&] { char b[65536]; ssize_t k; while ((k = read(fd[0], b, sizeof(b))) > 0) got.append(b, (size_t)k); });
			std::string body; for (int i = 0; i < n; i++) body.push_back(char('a' + (i * 7 + (i >> 9)) % 26));
			char* exact = (char*)malloc(n ? n : 1); memcpy(exact, body.data(), n);      // exact-size heap copy: reading past the body is an ASan report
			{ Socket sock(fd[1]); HttpRequest msg; msg.use(sock); if (!chunked) msg.setHeader("Content-Length", String(n));    /* (a message without Content-Length is sent chunked) */
			  msg.write(exact, n); sock.close(); }
			free(exact); shutdown(fd[1], SHUT_RDWR); rd.join(); close(fd[0]);
			size_t h = got.find("\r\n\r\n"); if (h == std::string::npos) { printf("REPRODUCED no header block on the wire for a %d-byte body\n", n); return 1; }
			std::string payload = got.substr(h + 4), plain;
			if (chunked) { size_t p = 0; bool ok = true; while (p < payload.size()) { size_t e = payload.find("\r\n", p); if (e == std::string::npos) { ok = false; break; } size_t len = strtoul(payload.substr(p, e - p).c_str(), 0, 16); if (e + 2 + len + 2 > payload.size()) { ok = false; break; }
					plain += payload.substr(e + 2, len); if (payload.compare(e + 2 + len, 2, "\r\n") != 0) { ok = false; break; } p = e + 2 + len + 2; }
				if (!ok) { printf("REPRODUCED chunk framing broken on the wire for a %d-byte body\n", n); return 1; } }
			else plain = payload;
			if (plain != body) { printf("REPRODUCED HttpMessage::write of a %d-byte body (%s) put %d body bytes on the wire%s\n", n, chunked ? "chunked" : "Content-Length", (int)plain.size(), plain.size() > body.size() ? " (more than declared)" : ""); return 1; } }
		// (no HttpServer here: under ASan every served connection ends in the handler thread's self-deletion use-after-free noted in DESIGN 7 / C14, which would mask everything else)
		printf("OK\n"); return 0;
	}
	return 2;
}
