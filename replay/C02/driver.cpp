// Native replay for C02: real Map / HashMap / Set against std::map references.
#include <asl/Map.h>
#include <asl/HashMap.h>
#include <asl/Set.h>
#include <stdio.h>
#include <stdlib.h>
#include <map>
#include <string>
using namespace asl;
int main(int argc, char** argv)
{
	std::string cmd = argc > 1 ? argv[1] : "";
	if (cmd == "hm_remove") {          // hm_remove <L> <j>: L keys in one bucket (k, k+256, ...), remove the j-th inserted
		int L = atoi(argv[2]), j = atoi(argv[3]);
		HashMap<int, int> h; std::map<int, int> ref;
		for (int i = 0; i < L; i++) { h[5 + 256 * i] = i; ref[5 + 256 * i] = i; }
		h.remove(5 + 256 * j); ref.erase(5 + 256 * j);
		if (h.length() != (int)ref.size()) { printf("REPRODUCED HashMap::remove: length %d, reference %d\n", h.length(), (int)ref.size()); return 1; }
		for (auto& e : ref) if (!h.has(e.first) || h[e.first] != e.second) { printf("REPRODUCED HashMap::remove(%d) lost key %d of the same bucket\n", 5 + 256 * j, e.first); return 1; }
		printf("OK\n"); return 0;
	}
	if (cmd == "hm_eq") {              // same contents, colliding keys inserted in opposite order
		HashMap<int, int> a, b; a[5] = 1; a[261] = 2; b[261] = 2; b[5] = 1;
		if (!(a == b)) { printf("REPRODUCED HashMap::operator== depends on insertion order of colliding keys\n"); return 1; }
		Set<int> s, t; s << 5 << 261; t << 261 << 5;
		if (!(s == t)) { printf("REPRODUCED Set::operator== depends on insertion order of colliding members\n"); return 1; }
		HashMap<int, int> c(16), d(1024); c[3] = 1; c[40] = 2; d[40] = 2; d[3] = 1;
		if (!(c == d)) { printf("REPRODUCED HashMap::operator== depends on table size\n"); return 1; }
		printf("OK\n"); return 0;
	}
	if (cmd == "map") {                // map <k1> <k2> ...: insert in that order, compare with std::map, then remove the first
		Map<int, int> m; std::map<int, int> ref;
		for (int i = 2; i < argc; i++) { int k = atoi(argv[i]); m[k] = i; ref[k] = i; }
		if (m.length() != (int)ref.size()) { printf("REPRODUCED Map length\n"); return 1; }
		int last = -2147483647 - 1, q = 0;
		foreach2(int k, int v, m) { if (q++ && k <= last) { printf("REPRODUCED Map enumeration not ascending\n"); return 1; } last = k; if (ref[k] != v) { printf("REPRODUCED Map value\n"); return 1; } }
		Map<int, int> m2 = m.clone(); if (!(m == m2)) { printf("REPRODUCED Map == clone\n"); return 1; }
		if (m.length() > 0) { int k0 = ref.begin()->first; m2[k0] = m2[k0] + 1; if (m == m2) { printf("REPRODUCED Map::operator== ignores a differing value of the smallest key\n"); return 1; } }
		printf("OK\n"); return 0;
	}
	if (cmd == "battery") {            // small-scope exhaustive: every sequence of <= 5 operations over 4 keys that collide in one HashMap bucket,
		// on Map, HashMap and Set, against std::map / std::set; plus ==, clone, add and the set operations on the resulting containers
		const int K[4] = { 5, 261, 517, 773 };   // congruent modulo 256 (the default table size)
		long runs = 0;
		for (int len = 1; len <= 5; len++) {
			int total = 1; for (int i = 0; i < len; i++) total *= 8;                  // op = (kind: 0 set / 1 remove) x key
			for (int code = 0; code < total; code++) {
				Map<int, int> m; HashMap<int, int> h; Set<int> st; std::map<int, int> ref;
				int c = code;
				for (int i = 0; i < len; i++, c /= 8) {
					int k = K[c % 4], kind = (c / 4) % 2;
					if (kind == 0) { m[k] = i; h[k] = i; st << k; ref[k] = i; } else { m.remove(k); h.remove(k); st.remove(k); ref.erase(k); }
					if (m.length() != (int)ref.size() || h.length() != (int)ref.size() || st.length() != (int)ref.size()) { printf("REPRODUCED length after op %d of sequence %d/%d: Map %d HashMap %d Set %d reference %d\n", i, code, len, m.length(), h.length(), st.length(), (int)ref.size()); return 1; }
					for (int q = 0; q < 4; q++) { bool in = ref.count(K[q]) != 0;
						if (m.has(K[q]) != in || h.has(K[q]) != in || st.has(K[q]) != in) { printf("REPRODUCED membership of key %d after op %d of sequence %d/%d\n", K[q], i, code, len); return 1; }
						if (in && (m[K[q]] != ref[K[q]] || h[K[q]] != ref[K[q]] || *h.find(K[q]) != ref[K[q]])) { printf("REPRODUCED value of key %d after op %d of sequence %d/%d\n", K[q], i, code, len); return 1; } }
				}
				int n = 0, last = -1; foreach2(int k, int v, m) { if (k <= last || ref[k] != v) { printf("REPRODUCED Map enumeration (order/value) in sequence %d/%d\n", code, len); return 1; } last = k; n++; }
				if (n != (int)ref.size()) { printf("REPRODUCED Map enumeration count\n"); return 1; }
				n = 0; foreach2(int k, int v, h) { if (!ref.count(k) || ref[k] != v) { printf("REPRODUCED HashMap enumeration in sequence %d/%d\n", code, len); return 1; } n++; }
				if (n != (int)ref.size()) { printf("REPRODUCED HashMap enumeration visits %d entries, map has %d (sequence %d/%d)\n", n, (int)ref.size(), code, len); return 1; }
				// equality against a copy built in ascending order in a table of another size; add() into an empty and a non-empty map
				HashMap<int, int> h2(1024); Set<int> st2; Map<int, int> m2, m3, m4; m4[9] = 9;
				for (auto& e : ref) { h2[e.first] = e.second; st2 << e.first; m2[e.first] = e.second; }
				if (!(h == h2) || !(h2 == h) || !(st == st2) || !(m == m2)) { printf("REPRODUCED operator== on equal contents (sequence %d/%d)\n", code, len); return 1; }
				m3.add(m); m4.add(m);
				if (!(m3 == m) || m4.length() != m.length() + 1) { printf("REPRODUCED Map::add result\n"); return 1; }
				m3[1000] = 1; m4[1001] = 1;
				if (m.has(1000) || m.has(1001) || m.length() != (int)ref.size()) { printf("REPRODUCED Map::add: a later change of the destination shows in the source map\n"); return 1; }
				if (ref.size()) { int k0 = ref.begin()->first; h2[k0]++; m2[k0]++; if (h == h2 || m == m2) { printf("REPRODUCED operator== ignores a differing value\n"); return 1; } }
				runs++;
			}
		}
		// table growth: keys crossing the rehash threshold, every one still found
		{ HashMap<int, int> g(16); for (int i = 0; i < 2000; i++) g[i * 16] = i; if (g.length() != 2000) { printf("REPRODUCED length after growth\n"); return 1; }
		  for (int i = 0; i < 2000; i++) if (!g.has(i * 16) || g[i * 16] != i) { printf("REPRODUCED key %d lost in rehash\n", i * 16); return 1; } }
		// entries in the LAST bucket of the table (keys = 255 mod 256) are enumerated, cloned and compared like all others
		{ HashMap<int, int> h; Set<int> st; for (int k : { 255, 511, -1, 3, 254 }) { h[k] = k * 2; st << k; } int n = 0, sum = 0; foreach2(int k, int v, h) { n++; sum += v - 2 * k; }
		  if (n != 5 || sum != 0) { printf("REPRODUCED enumeration of a HashMap with keys in the last bucket visits %d of 5 entries\n", n); return 1; }
		  HashMap<int, int> c = h.clone(); if (c.length() != 5 || !c.has(255) || !c.has(-1) || !(c == h)) { printf("REPRODUCED clone of a HashMap loses the entries of the last bucket\n"); return 1; }
		  HashMap<int, int> d2 = h.clone(); d2[255] = 0; if (d2 == h) { printf("REPRODUCED HashMap::operator== ignores a difference in the last bucket\n"); return 1; }
		  int m = 0; foreach(int x, st) { (void)x; m++; } if (m != 5) { printf("REPRODUCED Set enumeration visits %d of 5 members\n", m); return 1; } }
		// String keys where one is a proper prefix of another, and the empty key, in every insertion order
		{ const char* keys[] = { "", "a", "ab", "abc", "Accept", "Accept-Encoding", "Content", "Content-Type", "b" }; const int NK = 9;
		  for (int rot = 0; rot < NK; rot++) for (int dir = 0; dir < 2; dir++) { Dic<int> d; std::map<std::string, int> ref;
			for (int q = 0; q < NK; q++) { int i = dir ? (rot + NK - q) % NK : (rot + q) % NK; d[keys[i]] = i; ref[keys[i]] = i; }
			if (d.length() != (int)ref.size()) { printf("REPRODUCED Dic with prefix keys has %d entries, reference %d\n", d.length(), (int)ref.size()); return 1; }
			for (auto& e : ref) if (!d.has(e.first.c_str()) || d[e.first.c_str()] != e.second) { printf("REPRODUCED Dic lookup of key '%s' among its prefixes\n", e.first.c_str()); return 1; }
			std::string last; bool first = true; foreach2(String& k, int v, d) { (void)v; if (!first && !(last < std::string(*k))) { printf("REPRODUCED Dic enumeration not in ascending key order at '%s'\n", *k); return 1; } last = *k; first = false; }
			d.remove("Accept"); ref.erase("Accept"); if (d.length() != (int)ref.size() || !d.has("Accept-Encoding") || d.has("Accept")) { printf("REPRODUCED Dic::remove of a key that is a prefix of another\n"); return 1; } } }
		// growth exactly at the threshold: every key inserted around it is found, counted once and removable; set difference with an empty set is a set of its own
		{ HashMap<int, int> g; for (int i = 0; i < 600; i++) { int k = 256 + i * 7; g[k] = i; if (!g.has(k) || g.length() != i + 1) { printf("REPRODUCED key %d inserted as entry %d is not found / counted right after insertion (table growth)\n", k, i + 1); return 1; } g[k] = i; if (g.length() != i + 1) { printf("REPRODUCED second assignment to key %d adds a duplicate entry\n", k); return 1; } }
		  HashDic<int> hd; for (int i = 0; i < 400; i++) hd[String::f("key-%i", i)] = i; for (int i = 0; i < 400; i++) if (!hd.has(String::f("key-%i", i))) { printf("REPRODUCED HashDic loses key-%d\n", i); return 1; }
		  Set<int> a, e; a << 1 << 2 << 3; Set<int> d = a - e; d << 99; d.remove(1); if (a.length() != 3 || !a.has(1) || a.has(99)) { printf("REPRODUCED (a - {}) shares storage with a\n"); return 1; } }
		printf("OK %ld sequences\n", runs); return 0;
	}
	return 2;
}
