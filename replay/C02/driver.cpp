// Native replay for C02: real Map / HashMap / Set against std::map references.
#include <asl/Map.h>
#include <asl/HashMap.h>
#include <asl/Set.h>
#include <stdio.h>
#include <stdlib.h>
#include <map>
#include <string>
using namespace asl;
int main(int argc, char** argv)
{
	std::string cmd = argc > 1 ? argv[1] : "";
	if (cmd == "hm_remove") {          // hm_remove <L> <j>: L keys in one bucket (k, k+256, ...), remove the j-th inserted
		int L = atoi(argv[2]), j = atoi(argv[3]);
		HashMap<int, int> h; std::map<int, int> ref;
		for (int i = 0; i < L; i++) { h[5 + 256 * i] = i; ref[5 + 256 * i] = i; }
		h.remove(5 + 256 * j); ref.erase(5 + 256 * j);
		if (h.length() != (int)ref.size()) { printf("REPRODUCED HashMap::remove: length %d, reference %d\n", h.length(), (int)ref.size()); return 1; }
		for (auto& e : ref) if (!h.has(e.first) || h[e.first] != e.second) { printf("REPRODUCED HashMap::remove(%d) lost key %d of the same bucket\n", 5 + 256 * j, e.first); return 1; }
		printf("OK\n"); return 0;
	}
	if (cmd == "hm_eq") {              // same contents, colliding keys inserted in opposite order
		HashMap<int, int> a, b; a[5] = 1; a[261] = 2; b[261] = 2; b[5] = 1;
		if (!(a == b)) { printf("REPRODUCED HashMap::operator== depends on insertion order of colliding keys\n"); return 1; }
		Set<int> s, t; s << 5 << 261; t << 261 << 5;
		if (!(s == t)) { printf("REPRODUCED Set::operator== depends on insertion order of colliding members\n"); return 1; }
		HashMap<int, int> c(16), d(1024); c[3] = 1; c[40] = 2; d[40] = 2; d[3] = 1;
		if (!(c == d)) { printf("REPRODUCED HashMap::operator== depends on table size\n"); return 1; }
		printf("OK\n"); return 0;
	}
	if (cmd == "map") {                // map <k1> <k2> ...: insert in that order, compare with std::map, then remove the first
		Map<int, int> m; std::map<int, int> ref;
		for (int i = 2; i < argc; i++) { int k = atoi(argv[i]); m[k] = i; ref[k] = i; }
		if (m.length() != (int)ref.size()) { printf("REPRODUCED Map length\n"); return 1; }
		int last = -2147483647 - 1, q = 0;
		foreach2(int k, int v, m) { if (q++ && k <= last) { printf("REPRODUCED Map enumeration not ascending\n"); return 1; } last = k; if (ref[k] != v) { printf("REPRODUCED Map value\n"); return 1; } }
		Map<int, int> m2 = m.clone(); if (!(m == m2)) { printf("REPRODUCED Map == clone\n"); return 1; }
		if (m.length() > 0) { int k0 = ref.begin()->first; m2[k0] = m2[k0] + 1; if (m == m2) { printf("REPRODUCED Map::operator== ignores a differing value of the smallest key\n"); return 1; } }
		printf("OK\n"); return 0;
	}
	return 2;
}
