// Native replay for C07: real Xml::decode / Xml::encode under ASan/UBSan.
#include <asl/Xml.h>
#include <stdio.h>
#include <stdlib.h>
#include <string>
using namespace asl;
static std::string unhex(const char* h) { std::string r; if (h[0] == '-') return r; for (size_t i = 0; h[i] && h[i + 1]; i += 2) { char b[3] = { h[i], h[i + 1], 0 }; r.push_back((char)strtoul(b, 0, 16)); } return r; }
static bool parents_ok(const Xml& e) { for (int i = 0; i < e.numChildren(); i++) { Xml c = e.child(i); if (!c.isText() && !(c.parent() == e)) return false; if (!parents_ok(c)) return false; } return true; }
int main(int argc, char** argv)
{
	std::string cmd = argc > 1 ? argv[1] : "";
	if (cmd == "decode") {            // decode <hex text>: must not crash; a non-null result has consistent parent links
		std::string t = unhex(argv[2]); Xml x = Xml::decode(t.c_str());
		if (x && !parents_ok(x)) { printf("REPRODUCED a child's parent() is not the element that contains it\n"); return 1; }
		printf("OK %s\n", x ? "tree" : "null"); return 0;
	}
	if (cmd == "attr") {              // attr <byte>: an attribute value and a text containing that byte round-trip through encode/decode
		char c = (char)atoi(argv[2]); String v; v << 'a' << c << 'b';
		Xml e("item"); e.setAttr("v", v); e << XmlText(v);
		String text = Xml::encode(e, false); Xml back = Xml::decode(text);
		if (!back || back.tag() != "item" || back["v"] != v || back.text() != v) { printf("REPRODUCED encode/decode does not preserve byte 0x%02x: %s\n", (unsigned char)c, *text); return 1; }
		printf("OK\n"); return 0;
	}
	return 2;
}
