// Native replay for C07: real Xml::decode / Xml::encode under ASan/UBSan.
#include <asl/Xml.h>
#include <stdio.h>
#include <stdlib.h>
#include <string>
using namespace asl;
static std::string unhex(const char* h) { std::string r; if (h[0] == '-') return r; for (size_t i = 0; h[i] && h[i + 1]; i += 2) { char b[3] = { h[i], h[i + 1], 0 }; r.push_back((char)strtoul(b, 0, 16)); } return r; }
static bool parents_ok(const Xml& e) { for (int i = 0; i < e.numChildren(); i++) { Xml c = e.child(i); if (!c.isText() && !(c.parent() == e)) return false; if (!parents_ok(c)) return false; } return true; }
// canonical form of a tree for comparison: adjacent text merged, whitespace-only text dropped
static bool ws_only(const String& t) { for (int i = 0; i < t.length(); i++) if (t[i] != ' ' && t[i] != '\n' && t[i] != '\r' && t[i] != '\t') return false; return true; }
static std::string canon(const Xml& e) {
	if (e.isText()) return std::string("T(") + *e.text() + ")";
	std::string r = std::string("<") + *e.tag(); foreach2(String& k, String& v, e.attribs()) r += std::string(" ") + *k + "=" + *v; r += ">";
	std::string pending;
	for (int i = 0; i < e.numChildren(); i++) { Xml c = e.child(i); if (c.isText()) { pending += *c.text(); continue; } if (pending.size() && !ws_only(pending.c_str())) r += "T(" + pending + ")"; pending = ""; r += canon(c); }
	if (pending.size() && !ws_only(pending.c_str())) r += "T(" + pending + ")";
	return r + "</>";
}
static bool all_parents_ok(const Xml& e) { for (int i = 0; i < e.numChildren(); i++) { Xml c = e.child(i); if (!(c.parent() == e)) return false; if (!c.isText() && !all_parents_ok(c)) return false; } return true; }
int main(int argc, char** argv)
{
	std::string cmd = argc > 1 ? argv[1] : "";
	if (cmd == "decode") {            // decode <hex text>: must not crash; a non-null result has consistent parent links
		std::string t = unhex(argv[2]); Xml x = Xml::decode(t.c_str());
		if (x && !parents_ok(x)) { printf("REPRODUCED a child's parent() is not the element that contains it\n"); return 1; }
		printf("OK %s\n", x ? "tree" : "null"); return 0;
	}
	if (cmd == "attr") {              // attr <byte>: an attribute value and a text containing that byte round-trip through encode/decode
		char c = (char)atoi(argv[2]); String v; v << 'a' << c << 'b';
		Xml e("item"); e.setAttr("v", v); e << XmlText(v);
		String text = Xml::encode(e, false); Xml back = Xml::decode(text);
		if (!back || back.tag() != "item" || back["v"] != v || back.text() != v) { printf("REPRODUCED encode/decode does not preserve byte 0x%02x: %s\n", (unsigned char)c, *text); return 1; }
		printf("OK\n"); return 0;
	}
	if (cmd == "battery") {
		// decoding: parent links of EVERY child (elements and text), documents with comments / PIs / references / CDATA-free mixed content, and malformed ones
		const char* docs[] = { "<a>t<b x='1'>u<c/>v</b>w<!-- c -->x<?pi y?>z</a>", "<r><i>1</i><i>2<j k=\"&amp;&lt;\">&#65;&#x42;</j></i>tail</r>", "<?xml version=\"1.0\"?><!DOCTYPE r><r a=\"b\"> <s/> text <s></s></r>",
			"<a><b>only</b></a>", "<a>&apos;&quot;&gt;</a>", "</>", "<a></b>", "<a", "<a><b></a>", "<a x=>", "&#1114112;<a/>", "<a>&#xFFFFFFFF;</a>", "<a/><b/>", "", "<?>", "<a><?></a>", "<root><item>a-text-longer-than-sixteen-chars</item><?><b/></root>", "<r a=\"an-attribute-value-longer-than-16\"><??><?x?></r>", "<r>text-that-is-long-enough-for-the-heap<!></r>" };
		for (unsigned d = 0; d < sizeof(docs) / sizeof(docs[0]); d++) { Xml x = Xml::decode(docs[d]); if (x && !all_parents_ok(x)) { printf("REPRODUCED after decoding document %u a child's parent() is not the element that contains it\n", d); return 1; } }
		// encode -> decode on generated trees: shapes x text kinds (empty, plain, markup characters, non-ASCII), compact form
		const char* texts[] = { "", "plain", "a<b>&\"'c", "\xC3\xA9\xE2\x82\xAC", "  ", "x" };
		int made = 0;
		for (int shape = 0; shape < 6; shape++) for (unsigned t1 = 0; t1 < 6; t1++) for (unsigned t2 = 0; t2 < 6; t2++) {
			Xml root("root"); root.setAttr("at", texts[t1]);
			if (shape == 0) { root << XmlText(texts[t1]); }
			else if (shape == 1) { root << XmlText(texts[t1]) << Xml("e") << XmlText(texts[t2]); }
			else if (shape == 2) { Xml item("item", texts[t1]); item << Xml("k", texts[t2]); root << item; }
			else if (shape == 3) { root << Xml("e1") << XmlText(texts[t1]) << Xml("e2", texts[t2]) << Xml("e3"); }
			else if (shape == 4) { Xml in("in"); in << XmlText(texts[t1]) << Xml("deep") << Xml("deep2", texts[t2]); root << XmlText(texts[t2]) << in << in.clone(); }
			else { Xml e("e"); e.setAttr("q", texts[t2]); e << XmlText(texts[t1]) << XmlText(texts[t2]); root << e << Xml("z"); }
			String text = Xml::encode(root, false); Xml back = Xml::decode(text); made++;
			if (!back) { printf("REPRODUCED encoded tree does not decode (shape %d, texts %u/%u): %s\n", shape, t1, t2, *text); return 1; }
			if (canon(back) != canon(root)) { printf("REPRODUCED decode(encode(tree)) differs (shape %d, texts %u/%u)\n  tree: %s\n  back: %s\n  text: %s\n", shape, t1, t2, canon(root).c_str(), canon(back).c_str(), *text); return 1; }
			if (!all_parents_ok(back)) { printf("REPRODUCED parent links after decode(encode(tree))\n"); return 1; }
		}
		// an element with attributes and no children followed by text with markup characters (entity references right after a self-closing tag)
		{ const char* tails[] = { "Tom & Jerry", "a<b", "x>y 'q' \"d\"", "&&&" }; for (const char* tl : tails) { Xml r("r"); Xml e("e"); e.setAttr("k", "v"); r << e << XmlText(tl) << Xml("z"); String text = Xml::encode(r, false); Xml back = Xml::decode(text);
			if (!back || canon(back) != canon(r)) { printf("REPRODUCED decode(encode(tree)) differs for text '%s' after a self-closing element with an attribute: %s\n", tl, *text); return 1; } } }
		// every byte in an attribute value and in text
		for (int c = 1; c < 256; c++) { String v; v << 'a' << (char)c << 'b'; Xml e("item"); e.setAttr("v", v); e << XmlText(v); Xml back = Xml::decode(Xml::encode(e, false));
			if (!back || back["v"] != v || back.text() != v) { printf("REPRODUCED byte 0x%02x is not preserved by encode/decode\n", c); return 1; } }
		printf("OK %d trees\n", made); return 0;
	}
	return 2;
}
