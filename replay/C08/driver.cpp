// Native replay for C08: the REAL asl::String UTF functions under ASan/UBSan.
#include <asl/String.h>
#include <stdio.h>
#include <stdlib.h>
#include <string>
using namespace asl;
static std::string unhex(const char* h) { std::string r; if (h[0] == '-') return r; for (size_t i = 0; h[i] && h[i + 1]; i += 2) { char b[3] = { h[i], h[i + 1], 0 }; r.push_back((char)strtoul(b, 0, 16)); } return r; }
// reference: number of code points the way the iteration defines them (lead byte decides, truncated tail counts once per lead)
int main(int argc, char** argv)
{
	if (argc < 3) return 2;
	std::string cmd = argv[1], c = unhex(argv[2]);
	// exact-size heap copy so that ASan sees any read past the terminator
	char* exact = (char*)malloc(c.size() + 1); memcpy(exact, c.data(), c.size()); exact[c.size()] = 0;
	if (cmd == "count") {
		String s(c.data(), (int)c.size());   // heap buffer of max(len+1, 20) bytes for len >= 16
		int n = s.count();
		if (n < 0 || n > (int)c.size()) { printf("REPRODUCED count() = %d for %d bytes\n", n, (int)c.size()); return 1; }
		printf("OK count=%d\n", n); return 0;
	}
	if (cmd == "iterate") {
		String s(c.data(), (int)c.size());
		int k = 0; const char* end = *s + s.length();
		for (String::Enumerator e = s.all(); e; ++e) { int code = *e; (void)code; if (e.u + e.n > end) { printf("REPRODUCED iteration steps over the terminator at offset %d (n=%d)\n", int(e.u - *s), e.n); return 1; } k++; }
		printf("OK %d\n", k); return 0;
	}
	if (cmd == "upper" || cmd == "lower") {
		String s(c.data(), (int)c.size());
		String t = cmd == "upper" ? s.toUpperCase() : s.toLowerCase();
		if (t.length() > s.length()) { printf("REPRODUCED case mapping grew %d -> %d bytes\n", s.length(), t.length()); return 1; }
		printf("OK\n"); return 0;
	}
	if (cmd == "utf8to32") { int* out = (int*)malloc((c.size() + 1) * sizeof(int)); int n = utf8toUtf32(exact, out, (int)c.size()); printf("OK %d\n", n); return 0; }
	if (cmd == "utf8to16") { wchar_t* out = (wchar_t*)malloc((c.size() + 1) * sizeof(wchar_t)); int n = utf8toUtf16(exact, out, (int)c.size()); printf("OK %d\n", n); return 0; }
	return 2;
}
