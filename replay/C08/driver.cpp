// Native replay for C08: the REAL asl::String UTF functions under ASan/UBSan.
#include <asl/String.h>
#include <stdio.h>
#include <stdlib.h>
#include <string>
#include <string.h>
using namespace asl;
static std::string unhex(const char* h) { std::string r; if (h[0] == '-') return r; for (size_t i = 0; h[i] && h[i + 1]; i += 2) { char b[3] = { h[i], h[i + 1], 0 }; r.push_back((char)strtoul(b, 0, 16)); } return r; }
// reference: number of code points the way the iteration defines them (lead byte decides, truncated tail counts once per lead)
int main(int argc, char** argv)
{
	if (argc < 2) return 2;
	if (std::string(argv[1]) == "battery") {
		// every scalar value: standard UTF-8, round trips through UTF-32 / UTF-16, iteration, count
		for (int c = 1; c < 0x110000; c++) { if (c >= 0xD800 && c <= 0xDFFF) continue; int in[2] = { c, 0 }; char u8[8]; int back[4]; wchar_t w[4]; char u8b[8];
			int n = utf32toUtf8(in, u8, 1); int len = c < 0x80 ? 1 : c < 0x800 ? 2 : c < 0x10000 ? 3 : 4; unsigned char e[4];
			if (len == 1) e[0] = c; else if (len == 2) { e[0] = 0xC0 | (c >> 6); e[1] = 0x80 | (c & 63); } else if (len == 3) { e[0] = 0xE0 | (c >> 12); e[1] = 0x80 | ((c >> 6) & 63); e[2] = 0x80 | (c & 63); }
			else { e[0] = 0xF0 | (c >> 18); e[1] = 0x80 | ((c >> 12) & 63); e[2] = 0x80 | ((c >> 6) & 63); e[3] = 0x80 | (c & 63); }
			if (n != len || memcmp(u8, e, len)) { printf("REPRODUCED utf32toUtf8(U+%04X) is not the standard encoding\n", c); return 1; }
			if (utf8toUtf32(u8, back, n) != 1 || back[0] != c) { printf("REPRODUCED utf8toUtf32(utf8(U+%04X)) = U+%04X\n", c, back[0]); return 1; }
			int nw = utf8toUtf16(u8, w, n); int nb = utf16toUtf8(w, u8b, nw); if (nb != n || memcmp(u8, u8b, n)) { printf("REPRODUCED UTF-8 -> UTF-16 -> UTF-8 of U+%04X changes the text\n", c); return 1; }
			if ((c & 0xff) == 0x41 || c < 0x3000) { String s(u8, n); String::Enumerator it = s.all(); int code = *it; if (code != c || it.n != n || s.count() != 1) { printf("REPRODUCED iteration / count over U+%04X\n", c); return 1; } } }
		// truncated and malformed tails at every string length 0..40 (exact-size heap copies: ASan sees a read past the terminator)
		{ const char* tails[] = { "\xC3", "\xE2", "\xE2\x82", "\xF0", "\xF0\x9F", "\xF0\x9F\x98", "\x80", "\xFF", "\xC0\x80", "\xED\xA0\x80" };
		  for (int pre = 0; pre <= 40; pre++) for (const char* tl : tails) { std::string t(pre, 'a'); t += tl; char* ex = (char*)malloc(t.size() + 1); memcpy(ex, t.data(), t.size() + 1);
			int* o32 = (int*)malloc((t.size() + 1) * sizeof(int)); wchar_t* o16 = (wchar_t*)malloc((t.size() + 1) * sizeof(wchar_t));
			int n32 = utf8toUtf32(ex, o32, (int)t.size()), n16 = utf8toUtf16(ex, o16, (int)t.size()); if (n32 < 0 || n32 > (int)t.size() || n16 < 0 || n16 > (int)t.size()) { printf("REPRODUCED converter result out of range\n"); return 1; }
			String s(t.data(), (int)t.size()); int k = 0; const char* end = *s + s.length(); for (String::Enumerator e2 = s.all(); e2; ++e2) { int code = *e2; (void)code; if (e2.u + e2.n > end) { printf("REPRODUCED iteration steps over the terminator (%d bytes + truncated tail)\n", pre); return 1; } k++; }
			int cnt = s.count(); if (cnt < 0 || cnt > (int)t.size()) { printf("REPRODUCED count() = %d for %d bytes\n", cnt, (int)t.size()); return 1; }
			String up = s.toUpperCase(), lo = s.toLowerCase(); (void)up; (void)lo; free(ex); free(o32); free(o16); } }
		// wide-character view of strings of every length 0..70 (ASCII: one unit per byte, the tightest case for the buffer that dataw() reserves)
		for (int n = 0; n <= 70; n++) { std::string t(n, 'w'); for (int i = 0; i < n; i++) t[i] = char('a' + i % 26); String s(t.c_str()); const wchar_t* w = s; size_t wl = 0; while (w[wl]) wl++; if ((int)wl != n || (n && w[n - 1] != (wchar_t)t[n - 1])) { printf("REPRODUCED wide view of a %d-character string has %d units\n", n, (int)wl); return 1; } }
		// case: ASCII and Latin-1/Greek/Cyrillic samples, and pairs whose UTF-8 length changes under folding
		{ struct { const char* a; const char* b; bool eq; } pairs[] = { { "Hello", "hELLO", true }, { "stra\xC3\x9F" "e", "STRA\xC3\x9F" "E", true }, { "\xC3\x89t\xC3\xA9", "\xC3\xA9T\xC3\x89", true }, { "\xCE\xA9mega", "\xCF\x89MEGA", true },
			{ "\xE2\x84\xAA", "k", true }, { "\xE2\x84\xAA" "elvin", "Kelvin", true }, { "\xC4\xB1", "I", false }, { "abc", "abd", false }, { "abc", "abcd", false }, { "", "", true }, { "\xD0\x96", "\xD0\xB6", true }, { "\xC5\xBF", "S", true } };
		  for (auto& p : pairs) { String a(p.a), b(p.b); bool want = a.toLowerCase() == b.toLowerCase();   /* the statement: equality of the lower-cased forms */
			if (a.equalsNocase(b) != want || b.equalsNocase(a) != want) { printf("REPRODUCED equalsNocase(\"%s\", \"%s\") = %d, but their lower-cased forms are %s\n", p.a, p.b, (int)a.equalsNocase(b), want ? "equal" : "different"); return 1; } }
		  // every code point against its own lower- and upper-cased form (their UTF-8 lengths may differ), embedded in a longer string
		  for (int c = 1; c < 0x2200; c++) { if (c >= 0xD800 && c <= 0xDFFF) continue; int in[2] = { c, 0 }; char u8[8]; int n = utf32toUtf8(in, u8, 1); String one(u8, n); String a2 = String("x") + one + "yz";
			String forms[2] = { a2.toLowerCase(), a2.toUpperCase() };
			for (int f = 0; f < 2; f++) { bool want = a2.toLowerCase() == forms[f].toLowerCase(); if (a2.equalsNocase(forms[f]) != want || forms[f].equalsNocase(a2) != want) { printf("REPRODUCED equalsNocase of U+%04X and its %s-cased form (%d vs %d bytes) = %d, equality of the lower-cased forms = %d\n", c, f ? "upper" : "lower", a2.length(), forms[f].length(), (int)a2.equalsNocase(forms[f]), (int)want); return 1; }
				if ((int)strlen(*forms[f]) != forms[f].length()) { printf("REPRODUCED %s-casing U+%04X: length() %d but the text ends after %d bytes\n", f ? "upper" : "lower", c, forms[f].length(), (int)strlen(*forms[f])); return 1; }
				if (forms[f].length() > a2.length()) { printf("REPRODUCED case mapping of U+%04X produced more bytes than its input\n", c); return 1; } } }
		  String m("MiXeD \xC3\x89\xC3\xA9 123"); if (m.toUpperCase() != "MIXED \xC3\x89\xC3\x89 123" || m.toLowerCase() != "mixed \xC3\xA9\xC3\xA9 123") { printf("REPRODUCED toUpperCase / toLowerCase of a mixed string\n"); return 1; } }
		printf("OK\n"); return 0;
	}
	if (argc < 3) return 2;
	if (std::string(argv[1]) == "value") {   // value <code point>: standard encodings and round trips on the real library
		int c = atoi(argv[2]); int in[2] = { c, 0 }; char u8[8]; int back[4]; wchar_t w[4]; char u8b[8];
		int n = utf32toUtf8(in, u8, 1);
		unsigned char e[4]; int len = c < 0x80 ? 1 : c < 0x800 ? 2 : c < 0x10000 ? 3 : 4;
		if (len == 1) e[0] = c; else if (len == 2) { e[0] = 0xC0 | (c >> 6); e[1] = 0x80 | (c & 63); } else if (len == 3) { e[0] = 0xE0 | (c >> 12); e[1] = 0x80 | ((c >> 6) & 63); e[2] = 0x80 | (c & 63); }
		else { e[0] = 0xF0 | (c >> 18); e[1] = 0x80 | ((c >> 12) & 63); e[2] = 0x80 | ((c >> 6) & 63); e[3] = 0x80 | (c & 63); }
		if (n != len || memcmp(u8, e, len)) { printf("REPRODUCED utf32toUtf8(U+%04X) is not the standard encoding\n", c); return 1; }
		if (utf8toUtf32(u8, back, n) != 1 || back[0] != c) { printf("REPRODUCED utf8toUtf32(utf8(U+%04X)) = U+%04X\n", c, back[0]); return 1; }
		int nw = utf8toUtf16(u8, w, n); int nb = utf16toUtf8(w, u8b, nw);
		if (nb != n || memcmp(u8, u8b, n)) { printf("REPRODUCED UTF-8 -> UTF-16 -> UTF-8 of U+%04X changes the text\n", c); return 1; }
		String s(u8, n); String::Enumerator it = s.all(); int code = *it;
		if (code != c || it.n != n) { printf("REPRODUCED iteration over U+%04X yields U+%04X, n=%d\n", c, code, it.n); return 1; }
		if (s.count() != 1) { printf("REPRODUCED count() of U+%04X = %d\n", c, s.count()); return 1; }
		printf("OK U+%04X\n", c); return 0;
	}
	std::string cmd = argv[1], c = unhex(argv[2]);
	// exact-size heap copy so that ASan sees any read past the terminator
	char* exact = (char*)malloc(c.size() + 1); memcpy(exact, c.data(), c.size()); exact[c.size()] = 0;
	if (cmd == "count") {
		String s(c.data(), (int)c.size());   // heap buffer of max(len+1, 20) bytes for len >= 16
		int n = s.count();
		if (n < 0 || n > (int)c.size()) { printf("REPRODUCED count() = %d for %d bytes\n", n, (int)c.size()); return 1; }
		printf("OK count=%d\n", n); return 0;
	}
	if (cmd == "iterate") {
		String s(c.data(), (int)c.size());
		int k = 0; const char* end = *s + s.length();
		for (String::Enumerator e = s.all(); e; ++e) { int code = *e; (void)code; if (e.u + e.n > end) { printf("REPRODUCED iteration steps over the terminator at offset %d (n=%d)\n", int(e.u - *s), e.n); return 1; } k++; }
		printf("OK %d\n", k); return 0;
	}
	if (cmd == "upper" || cmd == "lower") {
		String s(c.data(), (int)c.size());
		String t = cmd == "upper" ? s.toUpperCase() : s.toLowerCase();
		if (t.length() > s.length()) { printf("REPRODUCED case mapping grew %d -> %d bytes\n", s.length(), t.length()); return 1; }
		printf("OK\n"); return 0;
	}
	if (cmd == "utf8to32") { int* out = (int*)malloc((c.size() + 1) * sizeof(int)); int n = utf8toUtf32(exact, out, (int)c.size()); printf("OK %d\n", n); return 0; }
	if (cmd == "utf8to16") { wchar_t* out = (wchar_t*)malloc((c.size() + 1) * sizeof(wchar_t)); int n = utf8toUtf16(exact, out, (int)c.size()); printf("OK %d\n", n); return 0; }
	return 2;
}
