// Native replay for C08: the REAL asl::String UTF functions under ASan/UBSan.
#include <asl/String.h>
#include <stdio.h>
#include <stdlib.h>
#include <string>
#include <string.h>
using namespace asl;
static std::string unhex(const char* h) { std::string r; if (h[0] == '-') return r; for (size_t i = 0; h[i] && h[i + 1]; i += 2) { char b[3] = { h[i], h[i + 1], 0 }; r.push_back((char)strtoul(b, 0, 16)); } return r; }
// reference: number of code points the way the iteration defines them (lead byte decides, truncated tail counts once per lead)
int main(int argc, char** argv)
{
	if (argc < 3) return 2;
	if (std::string(argv[1]) == "value") {   // value <code point>: standard encodings and round trips on the real library
		int c = atoi(argv[2]); int in[2] = { c, 0 }; char u8[8]; int back[4]; wchar_t w[4]; char u8b[8];
		int n = utf32toUtf8(in, u8, 1);
		unsigned char e[4]; int len = c < 0x80 ? 1 : c < 0x800 ? 2 : c < 0x10000 ? 3 : 4;
		if (len == 1) e[0] = c; else if (len == 2) { e[0] = 0xC0 | (c >> 6); e[1] = 0x80 | (c & 63); } else if (len == 3) { e[0] = 0xE0 | (c >> 12); e[1] = 0x80 | ((c >> 6) & 63); e[2] = 0x80 | (c & 63); }
		else { e[0] = 0xF0 | (c >> 18); e[1] = 0x80 | ((c >> 12) & 63); e[2] = 0x80 | ((c >> 6) & 63); e[3] = 0x80 | (c & 63); }
		if (n != len || memcmp(u8, e, len)) { printf("REPRODUCED utf32toUtf8(U+%04X) is not the standard encoding\n", c); return 1; }
		if (utf8toUtf32(u8, back, n) != 1 || back[0] != c) { printf("REPRODUCED utf8toUtf32(utf8(U+%04X)) = U+%04X\n", c, back[0]); return 1; }
		int nw = utf8toUtf16(u8, w, n); int nb = utf16toUtf8(w, u8b, nw);
		if (nb != n || memcmp(u8, u8b, n)) { printf("REPRODUCED UTF-8 -> UTF-16 -> UTF-8 of U+%04X changes the text\n", c); return 1; }
		String s(u8, n); String::Enumerator it = s.all(); int code = *it;
		if (code != c || it.n != n) { printf("REPRODUCED iteration over U+%04X yields U+%04X, n=%d\n", c, code, it.n); return 1; }
		if (s.count() != 1) { printf("REPRODUCED count() of U+%04X = %d\n", c, s.count()); return 1; }
		printf("OK U+%04X\n", c); return 0;
	}
	std::string cmd = argv[1], c = unhex(argv[2]);
	// exact-size heap copy so that ASan sees any read past the terminator
	char* exact = (char*)malloc(c.size() + 1); memcpy(exact, c.data(), c.size()); exact[c.size()] = 0;
	if (cmd == "count") {
		String s(c.data(), (int)c.size());   // heap buffer of max(len+1, 20) bytes for len >= 16
		int n = s.count();
		if (n < 0 || n > (int)c.size()) { printf("REPRODUCED count() = %d for %d bytes\n", n, (int)c.size()); return 1; }
		printf("OK count=%d\n", n); return 0;
	}
	if (cmd == "iterate") {
		String s(c.data(), (int)c.size());
		int k = 0; const char* end = *s + s.length();
		for (String::Enumerator e = s.all(); e; ++e) { int code = *e; (void)code; if (e.u + e.n > end) { printf("REPRODUCED iteration steps over the terminator at offset %d (n=%d)\n", int(e.u - *s), e.n); return 1; } k++; }
		printf("OK %d\n", k); return 0;
	}
	if (cmd == "upper" || cmd == "lower") {
		String s(c.data(), (int)c.size());
		String t = cmd == "upper" ? s.toUpperCase() : s.toLowerCase();
		if (t.length() > s.length()) { printf("REPRODUCED case mapping grew %d -> %d bytes\n", s.length(), t.length()); return 1; }
		printf("OK\n"); return 0;
	}
	if (cmd == "utf8to32") { int* out = (int*)malloc((c.size() + 1) * sizeof(int)); int n = utf8toUtf32(exact, out, (int)c.size()); printf("OK %d\n", n); return 0; }
	if (cmd == "utf8to16") { wchar_t* out = (wchar_t*)malloc((c.size() + 1) * sizeof(wchar_t)); int n = utf8toUtf16(exact, out, (int)c.size()); printf("OK %d\n", n); return 0; }
	return 2;
}
