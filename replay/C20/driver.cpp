// Native replay for C20: evaluates M*inverse(M) on the real Matrix4d/Matrix3d at the rational point of the solver's model.
#include <asl/Matrix4.h>
#include <asl/Matrix3.h>
#include <asl/Matrix.h>
#include <string.h>
#include <stdio.h>
#include <stdlib.h>
#include <math.h>
using namespace asl;
int main(int argc, char** argv)
{
	if (argc >= 5 && !strcmp(argv[1], "solve"))   // solve <rows> <cols> <rhs>: solve(A, b) on the real Matrixd of that shape; A and b must come back as they were and A x = b must hold for the A that was passed
	{
		int ra = atoi(argv[2]), ca = atoi(argv[3]), cb = atoi(argv[4]);
		Matrixd A(ra, ca), b(ra, cb);
		unsigned s = 12345;
		for (int i = 0; i < ra; i++) for (int j = 0; j < ca; j++) { s = s * 1103515245u + 12345u; A(i, j) = double((s >> 16) % 19) - 9 + (i == ca - 1 - j ? 25 : 0); }   // dominant anti-diagonal: row exchanges are needed
		for (int i = 0; i < ra; i++) for (int j = 0; j < cb; j++) { s = s * 1103515245u + 12345u; b(i, j) = double((s >> 16) % 19) - 9; }
		Array<double> a0, b0;
		for (int i = 0; i < ra; i++) for (int j = 0; j < ca; j++) a0 << A(i, j);
		for (int i = 0; i < ra; i++) for (int j = 0; j < cb; j++) b0 << b(i, j);
		Matrixd A1 = A;                              // a second handle on the same storage, as a caller may well have
		Matrixd x = solve(A, b);
		int bad = 0;
		for (int i = 0; i < ra; i++) for (int j = 0; j < ca; j++) if (A(i, j) != a0[i * ca + j] || A1(i, j) != a0[i * ca + j]) bad |= 1;
		for (int i = 0; i < ra; i++) for (int j = 0; j < cb; j++) if (b(i, j) != b0[i * cb + j]) bad |= 2;
		if (x.rows() != ca || x.cols() != cb) bad |= 4;
		if (!bad && ra == ca) { Matrixd r = A * x - b; double w = 0; for (int i = 0; i < ra; i++) for (int j = 0; j < cb; j++) w = fmax(w, fabs(r(i, j))); if (w > 1e-9) bad |= 8; }
		if (bad) { printf("REPRODUCED solve(A, b) on a %dx%d system with %d right-hand side(s):%s%s%s%s\n", ra, ca, cb, bad & 1 ? " the caller's A was overwritten" : "", bad & 2 ? " the caller's b was overwritten" : "", bad & 4 ? " x has the wrong shape" : "", bad & 8 ? " A x != b" : ""); return 1; }
		printf("OK solve %dx%d rhs %d\n", ra, ca, cb); return 0;
	}
	int n = atoi(argv[1]);                 // 4 or 3, then n*n entries
	double v[16]; for (int i = 0; i < n * n; i++) v[i] = atof(argv[2 + i]);
	double worst = 0, d = 0;
	if (n == 4) { Matrix4d m(v[0], v[1], v[2], v[3], v[4], v[5], v[6], v[7], v[8], v[9], v[10], v[11], v[12], v[13], v[14], v[15]); d = m.det();
		if (fabs(d) < 1e-9) { printf("singular model point, nothing to replay\n"); return 0; }
		Matrix4d p = m * m.inverse(), q = m.inverse() * m; for (int i = 0; i < 4; i++) for (int j = 0; j < 4; j++) { worst = fmax(worst, fabs(p(i, j) - (i == j))); worst = fmax(worst, fabs(q(i, j) - (i == j))); } }
	else { Matrix3d m(v[0], v[1], v[2], v[3], v[4], v[5], v[6], v[7], v[8]); d = m.det();
		if (fabs(d) < 1e-9) { printf("singular model point, nothing to replay\n"); return 0; }
		Matrix3d p = m * m.inverse(); for (int i = 0; i < 3; i++) for (int j = 0; j < 3; j++) worst = fmax(worst, fabs(p(i, j) - (i == j))); }
	if (worst > 1e-6) { printf("REPRODUCED M*inverse(M) differs from I by %g (det %g)\n", worst, d); return 1; }
	printf("OK residual %g\n", worst); return 0;
}
