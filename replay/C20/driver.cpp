// Native replay for C20: evaluates M*inverse(M) on the real Matrix4d/Matrix3d at the rational point of the solver's model.
#include <asl/Matrix4.h>
#include <asl/Matrix3.h>
#include <stdio.h>
#include <stdlib.h>
#include <math.h>
using namespace asl;
int main(int argc, char** argv)
{
	int n = atoi(argv[1]);                 // 4 or 3, then n*n entries
	double v[16]; for (int i = 0; i < n * n; i++) v[i] = atof(argv[2 + i]);
	double worst = 0, d = 0;
	if (n == 4) { Matrix4d m(v[0], v[1], v[2], v[3], v[4], v[5], v[6], v[7], v[8], v[9], v[10], v[11], v[12], v[13], v[14], v[15]); d = m.det();
		if (fabs(d) < 1e-9) { printf("singular model point, nothing to replay\n"); return 0; }
		Matrix4d p = m * m.inverse(), q = m.inverse() * m; for (int i = 0; i < 4; i++) for (int j = 0; j < 4; j++) { worst = fmax(worst, fabs(p(i, j) - (i == j))); worst = fmax(worst, fabs(q(i, j) - (i == j))); } }
	else { Matrix3d m(v[0], v[1], v[2], v[3], v[4], v[5], v[6], v[7], v[8]); d = m.det();
		if (fabs(d) < 1e-9) { printf("singular model point, nothing to replay\n"); return 0; }
		Matrix3d p = m * m.inverse(); for (int i = 0; i < 3; i++) for (int j = 0; j < 3; j++) worst = fmax(worst, fabs(p(i, j) - (i == j))); }
	if (worst > 1e-6) { printf("REPRODUCED M*inverse(M) differs from I by %g (det %g)\n", worst, d); return 1; }
	printf("OK residual %g\n", worst); return 0;
}
