// Native replay for C16: real StreamBuffer / StreamBufferReader / File stream operators.
#include <asl/StreamBuffer.h>
#include <asl/File.h>
#include <asl/Socket.h>
#include <sys/socket.h>
#include <unistd.h>
#include <string.h>
#include <thread>
#include <vector>
#include <stdio.h>
#include <stdlib.h>
#include <string>
using namespace asl;
template<class T> static int arr(Endian e, const char* what) {
	Array<T> a; a << T(1) << T(2) << T(3);
	StreamBuffer b(e); b << a;
	int want = 3 * (int)sizeof(T);
	if (b.length() != want) { printf("REPRODUCED StreamBuffer << Array<%s>(3) in order %d wrote %d bytes, want %d\n", what, (int)e, b.length(), want); return 1; }
	StreamBufferReader r(*b, e);
	for (int i = 0; i < 3; i++) { T x = r.read<T>(); if (x != a[i]) { printf("REPRODUCED element %d reads back wrong\n", i); return 1; } }
	String path = "/tmp/vf_c16_replay.bin";
	{ File f(path, File::WRITE); f.setEndian(e); f << a; }
	int sz = (int)File(path).size(); File(path).remove();
	if (sz != want) { printf("REPRODUCED File << Array<%s>(3) in order %d wrote %d bytes, want %d\n", what, (int)e, sz, want); return 1; }
	return 0;
}

// canonical bytes of a value in a byte order (NATIVE = the host's: little-endian here)
template<class T> static void canon(std::vector<byte>& out, T v, Endian e) { byte b[sizeof(T)]; memcpy(b, &v, sizeof(T)); bool big = e == ENDIAN_BIG; for (size_t i = 0; i < sizeof(T); i++) out.push_back(big ? b[sizeof(T) - 1 - i] : b[i]); }
template<class T> static T pattern(int k) { unsigned long long p[] = { 0ull, 1ull, 0x0102030405060708ull, 0x8000000000000000ull, 0xffffffffffffffffull, 0x7ff8000000000001ull, 0x00000000ff7fc001ull, 0x80ull, 0x8000ull, 0x80000000ull };
	unsigned long long x = p[k % 10]; T v; memcpy(&v, &x, sizeof(T)); return v; }
template<class T> static bool same(T a, T b) { return memcmp(&a, &b, sizeof(T)) == 0; }
template<class T> static int one_type(const char* name) {
	Endian es[] = { ENDIAN_BIG, ENDIAN_LITTLE, ENDIAN_NATIVE };
	for (int ei = 0; ei < 3; ei++) for (int k = 0; k < 10; k++) { Endian e = es[ei], e2 = es[(ei + 1) % 3]; T v = pattern<T>(k), w = pattern<T>(k + 3);
		std::vector<byte> want; canon(want, v, e); canon(want, w, e2); canon(want, v, e2);          // order switched in mid-stream: affects only what follows
		StreamBuffer b(e); b << v; b.setEndian(e2); b << w << v;
		if (b.length() != (int)want.size() || memcmp(b.data(), want.data(), want.size()) != 0) { printf("REPRODUCED StreamBuffer << %s: bytes differ from the canonical encoding (order %d then %d, pattern %d)\n", name, (int)e, (int)e2, k); return 1; }
		StreamBufferReader r(b.data(), b.length(), e); T a = r.read<T>(); r.setEndian(e2); T c = r.read<T>(), d = r.read<T>();
		if (!same(a, v) || !same(c, w) || !same(d, v)) { printf("REPRODUCED StreamBufferReader %s reads back a different value (order %d then %d, pattern %d)\n", name, (int)e, (int)e2, k); return 1; }
		String path = "/tmp/vf_c16_battery.bin";
		{ File f(path, File::WRITE); f.setEndian(e); f << v; f.setEndian(e2); f << w << v; }
		{ File f(path, File::READ); Array<byte> got = f.content(); if (got.length() != (int)want.size() || memcmp(got.data(), want.data(), want.size()) != 0) { printf("REPRODUCED File << %s: bytes differ (order %d then %d, pattern %d)\n", name, (int)e, (int)e2, k); return 1; } }
		{ File f(path, File::READ); f.setEndian(e); T a2, c2, d2; f >> a2; f.setEndian(e2); f >> c2 >> d2; if (!same(a2, v) || !same(c2, w) || !same(d2, v)) { printf("REPRODUCED File >> %s (order %d then %d, pattern %d)\n", name, (int)e, (int)e2, k); return 1; } }
		File(path).remove();
		// sockets: the peer delivers the bytes in two pieces (a value split across OS reads must still be one value)
		int fd[2]; if (socketpair(AF_UNIX, SOCK_STREAM, 0, fd) != 0) return 2;
		{ Socket wr(fd[0]); wr.setEndian(e); wr << v; wr.setEndian(e2); wr << w << v;
		  std::vector<byte> got(want.size()); size_t n = 0; while (n < got.size()) { ssize_t q = ::read(fd[1], got.data() + n, got.size() - n); if (q <= 0) break; n += q; }
		  if (n != want.size() || memcmp(got.data(), want.data(), want.size()) != 0) { printf("REPRODUCED Socket << %s: bytes differ (order %d then %d, pattern %d)\n", name, (int)e, (int)e2, k); return 1; }
		  size_t cut = 1 + k % (want.size() - 1);
		  std::thread t([&] { if (::write(fd[1], want.data(), cut)) {} usleep(60000); if (::write(fd[1], want.data() + cut, want.size() - cut)) {} });
		  Socket rd(fd[0]); rd.setEndian(e); T a3, c3, d3; rd >> a3; rd.setEndian(e2); rd >> c3 >> d3; t.join();
		  if (!same(a3, v) || !same(c3, w) || !same(d3, v)) { printf("REPRODUCED Socket >> %s with the bytes arriving in two pieces cut at %d (order %d then %d, pattern %d)\n", name, (int)cut, (int)e, (int)e2, k); return 1; }
		  close(fd[1]); }
		// arrays: length x sizeof(T) canonical bytes, and the caller's array is untouched
		for (int n = 0; n <= 5; n += (n < 3 ? 1 : 2)) { Array<T> arr; std::vector<byte> wa; for (int i = 0; i < n; i++) { arr << pattern<T>(k + i); canon(wa, pattern<T>(k + i), e); }
			Array<T> keep = arr.clone(); StreamBuffer sb(e); sb << arr;
			if (sb.length() != (int)wa.size() || (wa.size() && memcmp(sb.data(), wa.data(), wa.size()) != 0)) { printf("REPRODUCED StreamBuffer << Array<%s>(%d) in order %d\n", name, n, (int)e); return 1; }
			{ File f(path, File::WRITE); f.setEndian(e); f << arr; } int sz = (int)File(path).size(); Array<byte> got = File(path).content(); File(path).remove();
			if (sz != (int)wa.size() || (wa.size() && memcmp(got.data(), wa.data(), wa.size()) != 0)) { printf("REPRODUCED File << Array<%s>(%d) in order %d\n", name, n, (int)e); return 1; }
			for (int i = 0; i < n; i++) if (!same(arr[i], keep[i])) { printf("REPRODUCED writing an Array<%s> in order %d changed the caller's array\n", name, (int)e); return 1; } }
	}
	return 0;
}
int main(int argc, char** argv)
{
	std::string cmd = argc > 1 ? argv[1] : "array";
	if (cmd == "array") {
		Endian es[] = { ENDIAN_BIG, ENDIAN_LITTLE, ENDIAN_NATIVE };
		for (Endian e : es) { if (arr<int>(e, "int") || arr<short>(e, "short") || arr<double>(e, "double")) return 1; }
		printf("OK\n"); return 0;
	}
	if (cmd == "scalar") {     // scalar <order 0|1|2> <hex of 8 value bytes>
		Endian e = (Endian)atoi(argv[2]); unsigned long long v = strtoull(argv[3], 0, 16);
		StreamBuffer b(e); b << (unsigned)v << (unsigned short)v << (ULong)v;
		if (b.length() != 14) { printf("REPRODUCED scalar sizes: %d\n", b.length()); return 1; }
		for (int i = 0; i < 4; i++) { byte want = e == ENDIAN_BIG ? byte(unsigned(v) >> (8 * (3 - i))) : byte(unsigned(v) >> (8 * i)); if (b[i] != want) { printf("REPRODUCED byte %d of unsigned in order %d\n", i, (int)e); return 1; } }
		StreamBufferReader r(*b, e); unsigned a; unsigned short s; ULong l; r >> a >> s >> l;
		if (a != (unsigned)v || s != (unsigned short)v || l != v) { printf("REPRODUCED scalar read back in order %d\n", (int)e); return 1; }
		printf("OK\n"); return 0;
	}
	if (cmd == "battery") {
		if (one_type<unsigned short>("unsigned short") || one_type<short>("short") || one_type<int>("int") || one_type<unsigned>("unsigned") || one_type<float>("float") ||
		    one_type<Long>("Long") || one_type<ULong>("ULong") || one_type<double>("double")) return 1;
		// a zero-length block in the middle of a stream reads nothing: count, count bytes, then more values
		for (int count : { 0, 1, 5 }) { StreamBuffer b; b << count; for (int i = 0; i < count; i++) b << byte(i + 1); b << 3.25 << short(-7); StreamBufferReader r(b.data(), b.length()); int c = r.read<int>(); ByteArray blk = r.read(c); double d = r.read<double>(); short s2 = r.read<short>();
			if (c != count || blk.length() != count || d != 3.25 || s2 != -7) { printf("REPRODUCED reading a block of %d bytes then a double and a short gives %d bytes, %g, %d\n", count, blk.length(), d, (int)s2); return 1; } }
		printf("OK\n"); return 0;
	}
	return 2;
}
