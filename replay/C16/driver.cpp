// Native replay for C16: real StreamBuffer / StreamBufferReader / File stream operators.
#include <asl/StreamBuffer.h>
#include <asl/File.h>
#include <stdio.h>
#include <stdlib.h>
#include <string>
using namespace asl;
template<class T> static int arr(Endian e, const char* what) {
	Array<T> a; a << T(1) << T(2) << T(3);
	StreamBuffer b(e); b << a;
	int want = 3 * (int)sizeof(T);
	if (b.length() != want) { printf("REPRODUCED StreamBuffer << Array<%s>(3) in order %d wrote %d bytes, want %d\n", what, (int)e, b.length(), want); return 1; }
	StreamBufferReader r(*b, e);
	for (int i = 0; i < 3; i++) { T x = r.read<T>(); if (x != a[i]) { printf("REPRODUCED element %d reads back wrong\n", i); return 1; } }
	String path = "/tmp/vf_c16_replay.bin";
	{ File f(path, File::WRITE); f.setEndian(e); f << a; }
	int sz = (int)File(path).size(); File(path).remove();
	if (sz != want) { printf("REPRODUCED File << Array<%s>(3) in order %d wrote %d bytes, want %d\n", what, (int)e, sz, want); return 1; }
	return 0;
}
int main(int argc, char** argv)
{
	std::string cmd = argc > 1 ? argv[1] : "array";
	if (cmd == "array") {
		Endian es[] = { ENDIAN_BIG, ENDIAN_LITTLE, ENDIAN_NATIVE };
		for (Endian e : es) { if (arr<int>(e, "int") || arr<short>(e, "short") || arr<double>(e, "double")) return 1; }
		printf("OK\n"); return 0;
	}
	if (cmd == "scalar") {     // scalar <order 0|1|2> <hex of 8 value bytes>
		Endian e = (Endian)atoi(argv[2]); unsigned long long v = strtoull(argv[3], 0, 16);
		StreamBuffer b(e); b << (unsigned)v << (unsigned short)v << (ULong)v;
		if (b.length() != 14) { printf("REPRODUCED scalar sizes: %d\n", b.length()); return 1; }
		for (int i = 0; i < 4; i++) { byte want = e == ENDIAN_BIG ? byte(unsigned(v) >> (8 * (3 - i))) : byte(unsigned(v) >> (8 * i)); if (b[i] != want) { printf("REPRODUCED byte %d of unsigned in order %d\n", i, (int)e); return 1; } }
		StreamBufferReader r(*b, e); unsigned a; unsigned short s; ULong l; r >> a >> s >> l;
		if (a != (unsigned)v || s != (unsigned short)v || l != v) { printf("REPRODUCED scalar read back in order %d\n", (int)e); return 1; }
		printf("OK\n"); return 0;
	}
	return 2;
}
